package impl

import (
	"context"

	datatransfer "github.com/filecoin-project/go-data-transfer/v2"
	"github.com/filecoin-project/go-data-transfer/v2/channels"
	"github.com/filecoin-project/go-data-transfer/v2/message/types"
	zz "github.com/filecoin-project/go-data-transfer/v2/zzverif"
)

// verifUnpausedCompletes lists the un-paused Complete messages handed to the network.
func verifUnpausedCompletes(f *verifMgr) (n int, paused int) {
	for _, s := range f.net.Sent {
		if r, ok := s.Msg.(datatransfer.Response); ok && r.IsComplete() {
			if r.IsPaused() {
				paused++
			} else {
				n++
			}
		}
	}
	for _, c := range f.tr.Calls {
		if c.Msg == nil {
			continue
		}
		if r, ok := c.Msg.(datatransfer.Response); ok && r.IsComplete() {
			if r.IsPaused() {
				paused++
			} else {
				n++
			}
		}
	}
	return
}

// VerifC01_ResponderCompleteSites (lemma L1): on a responder, whichever entry point hands an
// un-paused (final) Complete to the initiator — transport completion, SendVoucherResult,
// UpdateValidationStatus — the responder's transport finished without error and the responder's
// own channel settles in Completed; a paused Complete leaves it Finalizing and reporting itself paused.
func VerifC01_ResponderCompleteSites() {
	f, st, chid := verifInstalled(1, 0)
	zz.Assume(st.SelfPeer == st.Responder)
	zz.Assume(!channels.IsChannelTerminated(st.Status) && !channels.IsChannelCleaningUp(st.Status))
	ctx := context.Background()
	site := zz.Choice("site", 3)
	var completeErr error
	raced := false
	switch site {
	case 0:
		if zz.Bool("transportFailed") {
			completeErr = zz.Error("transport")
		}
		raced = zz.Bool("revalidatedWhileSending")
		if raced {
			// the application changes the finalization requirement exactly while the Complete is written
			want := !st.RequiresFinalization
			f.net.Hook = func() {
				_ = f.m.UpdateValidationStatus(ctx, chid, datatransfer.ValidationResult{Accepted: true, RequiresFinalization: want, DataLimit: st.DataLimit})
			}
			zz.Reach("revalidation races with the Complete message")
		}
		_ = f.m.OnChannelCompleted(chid, completeErr)
	case 1:
		_ = f.m.SendVoucherResult(ctx, chid, datatransfer.TypedVoucher{Voucher: zz.Node("vr"), Type: datatransfer.TypeIdentifier(zz.String("vrt"))})
	case 2:
		r, _ := verifArbitraryResult("res")
		_ = f.m.UpdateValidationStatus(ctx, chid, r)
	}
	zz.Settle()
	final, paused := verifUnpausedCompletes(f)
	post := f.g.VerifPeek(chid)
	if final > 0 {
		zz.Assert(final == 1, "at most one final Complete per step")
		zz.Assert(completeErr == nil, "the final Complete is sent only after the transport finished without error")
		if site == 0 {
			zz.Assert(post.Status == datatransfer.Completed, "after sending the final Complete the responder settles in Completed")
			if f.net.Hook == nil && len(f.net.Sent) == 1 {
				zz.Assert(!st.RequiresFinalization, "and only when no finalization is required")
			}
			zz.Reach("transport completion sends final Complete")
		} else {
			// a final Complete from the voucher-result / validation-update paths is sent only while finishing
			zz.Assert(st.Status == datatransfer.Finalizing || st.Status.InFinalization(), "a final Complete outside transport completion only while finalizing")
			zz.Reach("release sends final Complete")
		}
	}
	if paused > 0 && site == 0 && !raced {
		zz.Assert(post.Status == datatransfer.Finalizing && channels.VerifView(post).ResponderPaused() && st.RequiresFinalization, "a paused Complete leaves the responder Finalizing and paused")
		zz.Reach("paused Complete")
	}
	if site == 0 && completeErr != nil {
		zz.Assert(final == 0 && paused == 0, "no Complete after a failed transport")
		zz.Assert(post.Status == datatransfer.Failed || st.Status == datatransfer.Failing, "a failed transport fails the channel")
		zz.Reach("transport failed")
	}
}

// VerifC01_InitiatorSignals (lemma L2, one inductive step at the manager level): from any record
// and ghost bits satisfying the C03 invariant, any initiator-side callback or incoming response
// re-establishes it, where F is set only by a successful transport completion and R only by an
// accepted, un-paused Complete from the counterparty. Hence Completed (outside the local-only
// rule) implies the responder sent its final Complete and the own transport finished.
func VerifC01_InitiatorSignals() {
	f, st, chid := verifInstalled(1, 0)
	zz.Assume(st.SelfPeer == st.Initiator)
	F, R, L := zz.Bool("ghostF"), zz.Bool("ghostR"), zz.Bool("ghostL")
	zz.Assume(channels.VerifInitiatorInv(st.Status, F, R, L))
	zz.Assume(!channels.IsChannelTerminated(st.Status))
	ctx := context.Background()
	stim := zz.Choice("stim", 6)
	switch stim {
	case 0:
		_ = f.m.OnChannelCompleted(chid, nil)
		F = true
		if st.Status == datatransfer.AwaitingAcceptance {
			L = true
		}
	case 5:
		// the own transport ends WITH AN ERROR: that is not "finished" - F stays as it was
		_ = f.m.OnChannelCompleted(chid, zz.Error("transportErr"))
		zz.Reach("own transport failed")
	case 1:
		resp := verifArbitraryResponse("resp")
		zz.SetInt(&resp.TransferId, uint64(chid.ID))
		zz.Assume(resp.MessageType <= uint64(types.RestartExistingChannelRequestMessage))
		zz.Assume(resp.RequestAccepted || !resp.IsValidationResult()) // rejections are the failure flow
		zz.Assume(!resp.IsCancel())
		zz.Assume(resp.EmptyVoucherResult() || resp.VoucherResultPtr != nil)
		_ = f.rcv.receiveResponse(ctx, chid.Responder, resp)
		if resp.IsComplete() && !resp.IsPaused() {
			R = true
			zz.Reach("final Complete received")
		}
		if resp.IsComplete() && resp.IsPaused() {
			zz.Reach("paused Complete received")
		}
	case 2:
		_ = f.m.OnDataReceived(chid, verifLink("l"), zz.Uint64("size"), zz.Int64("idx"), zz.Bool("u"))
	case 3:
		_ = f.m.OnDataSent(chid, verifLink("l"), zz.Uint64("size"), zz.Int64("idx"), zz.Bool("u"))
	case 4:
		f.m.OnTransferInitiated(chid)
		_ = f.m.OnChannelOpened(chid)
	}
	zz.Settle()
	post := f.g.VerifPeek(chid)
	if stim == 5 {
		// a failure flow: the channel may fail, but it must not succeed on a failed transport
		if post.Status == datatransfer.Completing || post.Status == datatransfer.Completed {
			zz.Assert((F && R) || L, "a failed own transport never completes the channel")
		}
		return
	}
	zz.Assert(channels.VerifInitiatorInv(post.Status, F, R, L), "Completed only after both the own transport finished and the responder's final Complete")
	if post.Status == datatransfer.Completed {
		zz.Reach("completed")
	}
}

// VerifC01_LocalOnlyPull: a pull satisfied entirely from the initiator's own store before any
// acceptance arrived completes without a responder.
func VerifC01_LocalOnlyPull() {
	f, st, chid := verifInstalled(1, 0)
	zz.Assume(st.SelfPeer == st.Initiator && st.Status == datatransfer.AwaitingAcceptance)
	err := f.m.OnChannelCompleted(chid, nil)
	zz.Assert(err == nil && f.g.VerifPeek(chid).Status == datatransfer.Completed, "completes locally")
	zz.Assert(len(f.net.Sent) == 0, "without talking to a responder")
	zz.Reach("local completion")
}

// VerifC01_RestartKeepsStoreConfiguration: a transfer healed by a restart keeps its per-channel
// store: every restart path re-runs the transport configurer of the opening voucher type and
// applies its options (after a process restart the in-memory option table is empty).
// (Same bodies as the C10 restart harnesses; the clause "default or per-channel stores ... healed
// by a restart" is C01's.)
func VerifC01_RestartKeepsStoreConfiguration() {
	if zz.Bool("incoming") {
		VerifC10_IncomingRestart()
	} else {
		VerifC10_InitiatorRestart()
	}
}

// VerifC01_CleaningUpChannelSettlesAfterRestart: "transfers that were interrupted and healed by a
// restart": a node that went down after sending / receiving the final Complete but before its
// cleanup finished (record persisted in Completing - or Cancelling / Failing) settles in the
// terminal status when the channel is restarted, so both ends agree (same body as
// VerifC10_CleanupOnly; the clause belongs to C01, C06, C09 and C10).
func VerifC01_CleaningUpChannelSettlesAfterRestart() { VerifC10_CleanupOnly() }
