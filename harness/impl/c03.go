package impl

import (
	"context"

	datatransfer "github.com/filecoin-project/go-data-transfer/v2"
	"github.com/filecoin-project/go-data-transfer/v2/message/types"
	zz "github.com/filecoin-project/go-data-transfer/v2/zzverif"
)

// VerifC03_AcceptedByRestart: an initiator whose channel is still AwaitingAcceptance (the
// transport started before any reply arrived, e.g. the connection dropped before the first
// response) receives an ACCEPTED restart response: the responder has accepted the channel. From
// then on the local-only shortcut ("nobody ever answered") must not apply any more: the
// initiator's own transport finishing alone must not complete the channel — it has to wait for
// the responder's un-paused Complete like every accepted channel.
func VerifC03_AcceptedByRestart() {
	f, st, chid := verifInstalled(1, 0)
	zz.Assume(st.SelfPeer == st.Initiator && st.Status == datatransfer.AwaitingAcceptance)
	resp := verifArbitraryResponse("resp")
	zz.SetInt(&resp.TransferId, uint64(chid.ID))
	zz.Assume(resp.MessageType == uint64(types.RestartMessage) && resp.RequestAccepted)
	zz.Assume(resp.EmptyVoucherResult() || resp.VoucherResultPtr != nil)
	err := f.rcv.receiveResponse(context.Background(), chid.Responder, resp)
	_ = err
	zz.Settle()
	restarted := false
	for _, e := range f.events {
		if e.Code == datatransfer.Restart {
			restarted = true
		}
	}
	zz.Assert(restarted, "the accepted restart response is recorded")
	zz.Reach("restart accepted while awaiting acceptance")
	// now only the initiator's own transport finishes
	_ = f.m.OnChannelCompleted(chid, nil)
	zz.Settle()
	post := f.g.VerifPeek(chid)
	zz.Assert(post.Status != datatransfer.Completed && post.Status != datatransfer.Completing,
		"a channel the responder accepted (by accepting its restart) does not complete on the local transport finishing alone")
}

// VerifC03_FinalizingReleasedOnlyByReleasingUpdate: a responder in Finalizing (transfer done,
// waiting for the final settlement) receives an ACCEPTING validation update with an arbitrary
// data limit, ForcePause and RequiresFinalization. It leaves Finalizing (un-paused Complete sent,
// channel completing) exactly when the update no longer requires finalization and does not
// otherwise leave the request paused; as long as the update still requires finalization - whatever
// data limit it carries - the channel stays in Finalizing, still reports the responder paused,
// and the initiator is only sent a PAUSED Complete.
func VerifC03_FinalizingReleasedOnlyByReleasingUpdate() {
	f, st, chid := verifInstalled(1, 0)
	zz.Assume(st.SelfPeer == st.Responder && st.Status == datatransfer.Finalizing)
	P := verifLimitedProgress(&st)
	zz.Assume(P < 1<<62)
	var res datatransfer.ValidationResult
	res.Accepted = true
	res.ForcePause = zz.Bool("ForcePause")
	res.DataLimit = zz.Uint64("newLimit")
	res.RequiresFinalization = zz.Bool("RequiresFinalization")
	err := f.m.UpdateValidationStatus(context.Background(), chid, res)
	zz.Settle()
	zz.Assert(err == nil, "the update is applied")
	post := f.g.VerifPeek(chid)
	var last datatransfer.Response
	for _, s := range f.net.Sent {
		if r, ok := s.Msg.(datatransfer.Response); ok && s.To == chid.Initiator {
			last = r
		}
	}
	for _, c := range f.tr.Calls {
		if r, ok := c.Msg.(datatransfer.Response); ok {
			last = r
		}
	}
	released := !res.ForcePause && !res.RequiresFinalization && (res.DataLimit == 0 || P < res.DataLimit)
	if released {
		zz.Assert(post.Status == datatransfer.Completing || post.Status == datatransfer.Completed, "a releasing update lets the responder complete")
		zz.Assert(last != nil && last.IsComplete() && !last.IsPaused() && last.Accepted(), "the initiator is sent the final, un-paused Complete")
		zz.Reach("released")
	} else {
		zz.Assert(post.Status == datatransfer.Finalizing, "otherwise the responder stays in Finalizing")
		zz.Assert(last == nil || (last.IsPaused() && last.Accepted()), "and anything it tells the initiator is marked paused")
		if res.RequiresFinalization && res.DataLimit != 0 && P < res.DataLimit {
			zz.Reach("still requires finalization, new limit above progress")
		}
		if res.RequiresFinalization {
			zz.Reach("still requires finalization")
		}
	}
}

// VerifC03_InitiatorSignalsAtManager: the inductive step of the C03 invariant through the REAL
// manager handlers (transport completion with and without error, every incoming response kind,
// block reports, transfer initiated): Completed only after both the own transport finished
// without error and the responder's final Complete (same body as VerifC01_InitiatorSignals).
func VerifC03_InitiatorSignalsAtManager() { VerifC01_InitiatorSignals() }
