package impl

import (
	"context"

	datatransfer "github.com/filecoin-project/go-data-transfer/v2"
	"github.com/filecoin-project/go-data-transfer/v2/message/types"
	zz "github.com/filecoin-project/go-data-transfer/v2/zzverif"
)

// VerifC03_AcceptedByRestart: an initiator whose channel is still AwaitingAcceptance (the
// transport started before any reply arrived, e.g. the connection dropped before the first
// response) receives an ACCEPTED restart response: the responder has accepted the channel. From
// then on the local-only shortcut ("nobody ever answered") must not apply any more: the
// initiator's own transport finishing alone must not complete the channel — it has to wait for
// the responder's un-paused Complete like every accepted channel.
func VerifC03_AcceptedByRestart() {
	f, st, chid := verifInstalled(1, 0)
	zz.Assume(st.SelfPeer == st.Initiator && st.Status == datatransfer.AwaitingAcceptance)
	resp := verifArbitraryResponse("resp")
	resp.TransferId = uint64(chid.ID)
	zz.Assume(resp.MessageType == uint64(types.RestartMessage) && resp.RequestAccepted)
	zz.Assume(resp.EmptyVoucherResult() || resp.VoucherResultPtr != nil)
	err := f.rcv.receiveResponse(context.Background(), chid.Responder, resp)
	_ = err
	zz.Settle()
	restarted := false
	for _, e := range f.events {
		if e.Code == datatransfer.Restart {
			restarted = true
		}
	}
	zz.Assert(restarted, "the accepted restart response is recorded")
	zz.Reach("restart accepted while awaiting acceptance")
	// now only the initiator's own transport finishes
	_ = f.m.OnChannelCompleted(chid, nil)
	zz.Settle()
	post := f.g.VerifPeek(chid)
	zz.Assert(post.Status != datatransfer.Completed && post.Status != datatransfer.Completing,
		"a channel the responder accepted (by accepting its restart) does not complete on the local transport finishing alone")
}
