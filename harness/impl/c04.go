package impl

import (
	"context"

	"github.com/libp2p/go-libp2p/core/peer"

	datatransfer "github.com/filecoin-project/go-data-transfer/v2"
	"github.com/filecoin-project/go-data-transfer/v2/channels"
	"github.com/filecoin-project/go-data-transfer/v2/message/types"
	zz "github.com/filecoin-project/go-data-transfer/v2/zzverif"
)

// verifReplies collects every response message the manager handed to the network or the transport.
func verifReplies(f *verifMgr) (out []datatransfer.Response, to []peer.ID) {
	for _, s := range f.net.Sent {
		if r, ok := s.Msg.(datatransfer.Response); ok {
			out = append(out, r)
			to = append(to, s.To)
		}
	}
	for _, c := range f.tr.Calls {
		if c.Msg == nil {
			continue
		}
		if r, ok := c.Msg.(datatransfer.Response); ok {
			out = append(out, r)
			to = append(to, c.Peer)
		}
	}
	return
}

func verifSameVoucherResult(r datatransfer.Response, vr *datatransfer.TypedVoucher) bool {
	if vr == nil {
		return r.EmptyVoucherResult()
	}
	n, err := r.VoucherResult()
	if vr.Voucher == nil {
		return r.VoucherResultType() == vr.Type && err != nil
	}
	return r.VoucherResultType() == vr.Type && err == nil && n == vr.Voucher
}

// VerifC04_NewRequest: an arbitrary incoming NEW request (push or pull, any field missing),
// arbitrary registry contents and an arbitrary validator outcome.
func VerifC04_NewRequest() {
	self := peer.ID(zz.String("self"))
	initiator := peer.ID(zz.String("initiator"))
	zz.Assume(self != initiator)
	f := verifNewManager(self)
	regType := datatransfer.TypeIdentifier(zz.String("regType"))
	if zz.Bool("registered") {
		zz.Assert(f.m.RegisterVoucherType(regType, f.val) == nil, "register")
	}
	f.val.Result, f.val.Err = verifArbitraryResult("val")
	req := verifArbitraryRequest("req")
	zz.Assume(req.MessageType == uint64(types.NewMessage))
	f.tr.MayFail = zz.Bool("transportMayFail")
	chid := datatransfer.ChannelID{Initiator: initiator, Responder: self, ID: datatransfer.TransferID(req.TransferId)}

	err := f.rcv.receiveRequest(context.Background(), initiator, req)
	zz.Settle()

	consulted := len(f.val.Calls) > 0
	replies, to := verifReplies(f)
	zz.Assert(len(replies) == 1, "exactly one reply")
	reply := replies[0]
	zz.Assert(to[0] == initiator, "reply goes to the requester")
	zz.Assert(reply.IsNew() && reply.TransferID() == chid.ID, "reply is a new-response for this transfer")
	wantAccept := consulted && f.val.Err == nil && f.val.Result.Accepted
	zz.Assert(reply.Accepted() == wantAccept, "Accepted exactly when the registered validator was consulted and accepted without error")
	if consulted {
		zz.Assert(len(f.val.Calls) == 1, "validator consulted once")
		zz.Assert((f.val.Calls[0] == "pull") == req.Pull, "validator method matches the direction")
		zz.Assert(req.VoucherTypeIdentifier == regType && req.SelectorPtr != nil && req.VoucherPtr != nil, "validator is consulted only for its own type on a complete request")
		zz.Reach("validator consulted")
	}
	rec := f.g.VerifPeek(chid)
	if !wantAccept {
		zz.Assert(f.g.VerifLen() == 0, "no channel is created for a request that was not accepted")
		zz.Assert(f.tr.count("open") == 0, "no transport channel is opened")
		zz.Assert(f.tr.countFor("close", chid) == 1, "the transport channel is closed")
		zz.Assert(err != nil, "the receiver reports the refusal")
		zz.Assert(len(f.events) == 0, "no channel event")
		zz.Reach("refused")
		return
	}
	zz.Reach("accepted")
	zz.Assert(rec != nil && f.g.VerifLen() == 1, "accepted: exactly this channel was created")
	zz.Assert(rec.DataLimit == f.val.Result.DataLimit, "channel records its data limit")
	zz.Assert(rec.RequiresFinalization == f.val.Result.RequiresFinalization, "channel records its finalization requirement")
	zz.Assert(reply.IsPaused() == f.val.Result.ForcePause, "reply carries the validator's pause decision")
	zz.Assert(rec.ResponderPaused == f.val.Result.ForcePause, "responder pause flag follows the pause decision")
	zz.Assert(verifSameVoucherResult(reply, f.val.Result.VoucherResult), "reply carries exactly the validator's voucher result")
	zz.Assert(rec.Initiator == initiator && rec.Responder == self && rec.SelfPeer == self, "identities")
	zz.Assert((rec.Recipient == initiator) == req.Pull, "direction recorded")
	if req.Pull {
		zz.Assert(f.tr.count("open") == 0, "pull: the responder does not open a transport request")
	} else {
		zz.Assert(f.tr.count("open") == 1 && f.tr.Calls[0].Op == "open" && f.tr.Calls[0].Channel == nil && f.tr.Calls[0].Peer == initiator,
			"push: the responder opens one fresh transport request towards the sender")
	}
	if f.val.Result.ForcePause && err == nil {
		zz.Assert(f.tr.countFor("pause", chid) == 1, "forced pause is applied to the transport")
		zz.Reach("forced pause")
	}
}

// verifRestartFixture: a manager holding one arbitrary record and optionally a registered validator.
func verifRestartFixture(nR int) (*verifMgr, channels.VerifRecord, datatransfer.ChannelID) {
	// the channel may have received later vouchers (of other types); only the validator of the
	// voucher type the channel was OPENED with may decide a restart
	f, st, chid := verifInstalled(1+zz.Choice("laterVouchers", 2), nR)
	if zz.Bool("registered") {
		zz.Assert(f.m.RegisterVoucherType(st.Vouchers[0].Type, f.val) == nil, "register")
	}
	if len(st.Vouchers) > 1 && st.Vouchers[1].Type != st.Vouchers[0].Type && zz.Bool("otherValidatorRegistered") {
		// a second, always-accepting validator for the later voucher's type
		other := &verifValidator{Result: datatransfer.ValidationResult{Accepted: true}}
		f.otherVal = other
		_ = f.m.RegisterVoucherType(st.Vouchers[1].Type, other)
	}
	f.val.Result, f.val.Err = verifArbitraryResult("val")
	return f, st, chid
}

// VerifC04_RestartRequest: an arbitrary incoming RESTART request for a stored channel.
func VerifC04_RestartRequest() {
	f, st, chid := verifRestartFixture(0)
	// an otherwise valid restart request (field mismatches are C05's subject), optionally tampered with
	req := verifScalarRequest("req")
	zz.Assume(req.MessageType == uint64(types.RestartMessage))
	zz.SetInt(&req.TransferId, uint64(chid.ID))
	base := st.BaseCid
	req.BaseCidPtr = &base
	req.SelectorPtr = st.Selector.Node
	req.VoucherPtr = st.Vouchers[0].Voucher.Node
	req.VoucherTypeIdentifier = st.Vouchers[0].Type
	switch zz.Choice("tamper", 3) {
	case 1:
		req.VoucherPtr = nil
	case 2:
		req.VoucherTypeIdentifier = datatransfer.TypeIdentifier(zz.String("otherType"))
	}
	sender := chid.Initiator
	zz.Assume(st.SelfPeer == st.Responder) // requests are received by the responder
	// cleanup statuses are transient: any applied event merely finishes the pending cleanup (see C03/C10)
	zz.Assume(!channels.IsChannelCleaningUp(st.Status))
	pre := st

	err := f.rcv.receiveRequest(context.Background(), sender, req)
	zz.Settle()

	replies, _ := verifReplies(f)
	zz.Assert(len(replies) == 1, "exactly one reply")
	reply := replies[0]
	consulted := len(f.val.Calls) > 0
	wantAccept := consulted && f.val.Err == nil && f.val.Result.Accepted
	zz.Assert(reply.Accepted() == wantAccept, "restart accepted exactly when re-validation accepted without error")
	if f.otherVal != nil && st.Vouchers[1].Type != st.Vouchers[0].Type {
		zz.Assert(len(f.otherVal.Calls) == 0, "a validator registered for another voucher type is never the one consulted")
		zz.Reach("second validator present")
	}
	post := f.g.VerifPeek(chid)
	zz.Assert(post != nil && f.g.VerifLen() == 1, "no channel appears or disappears")
	if consulted {
		zz.Assert(f.val.Calls[0] == "restart" && len(f.val.Calls) == 1, "ValidateRestart consulted once")
		zz.Assert(!channels.IsChannelTerminated(pre.Status), "terminated channels are not re-validated")
		zz.Reach("re-validated")
	}
	if !wantAccept {
		zz.Assert(err != nil, "the receiver reports the refusal")
		zz.Assert(f.tr.count("open") == 0, "no transport request is opened")
		zz.Assert(f.tr.countFor("close", chid) == 1, "the transport channel is closed")
		if consulted && f.val.Err == nil {
			// rejection without error: the channel fails with a rejection
			zz.Assert(post.Status == datatransfer.Failed, "a rejected restart fails the channel")
			zz.Reach("rejected restart fails the channel")
		} else {
			zz.Assert(post.Status == pre.Status, "a refused restart leaves the status alone")
		}
		return
	}
	zz.Reach("restart accepted")
	zz.Assert(post.DataLimit == f.val.Result.DataLimit && post.RequiresFinalization == f.val.Result.RequiresFinalization, "limit and finalization recorded")
	zz.Assert(verifSameVoucherResult(reply, f.val.Result.VoucherResult), "reply carries exactly the validator's voucher result")
	lrp := f.val.Result.LeaveRequestPaused(f.m.mustState(chid, &pre))
	zz.Assert(reply.IsPaused() == lrp, "reply carries the pause decision")
}

// mustState wraps a record as a ChannelState view (pre-state view for LeaveRequestPaused).
func (m *manager) mustState(chid datatransfer.ChannelID, rec *channels.VerifRecord) datatransfer.ChannelState {
	return channels.VerifView(rec)
}

// VerifC04_UpdateValidation: UpdateValidationStatus with an arbitrary result on a present or absent channel.
func VerifC04_UpdateValidation() {
	f, st, chid := verifInstalled(1, 0)
	present := zz.Bool("present")
	target := chid
	if !present {
		target.ID = datatransfer.TransferID(zz.Uint64("otherTid"))
		zz.Assume(target.ID != chid.ID)
	}
	res, _ := verifArbitraryResult("res")
	pre := st
	err := f.m.UpdateValidationStatus(context.Background(), target, res)
	zz.Settle()
	post := f.g.VerifPeek(chid)
	if st.SelfPeer == st.Initiator {
		zz.Assert(err != nil, "only the responder may update the validation status")
		zz.Assert(channels.VerifSameRecord(&pre, post) && len(f.net.Sent) == 0 && len(f.tr.Calls) == 0, "refused update changes nothing")
		zz.Reach("initiator refused")
		return
	}
	if !present {
		zz.Assert(err != nil, "unknown channel is reported")
		zz.Assert(channels.VerifSameRecord(&pre, post) && len(f.net.Sent) == 0 && len(f.tr.Calls) == 0, "update of an unknown channel changes nothing")
		zz.Reach("unknown channel")
		return
	}
	if channels.IsChannelTerminated(pre.Status) {
		zz.Assert(channels.VerifSameRecord(&pre, post), "terminated channel untouched")
		return
	}
	if channels.IsChannelCleaningUp(pre.Status) {
		// transient: any applied event merely finishes the pending cleanup (see C03/C10)
		zz.Assert(post.Status == pre.Status || channels.IsChannelTerminated(post.Status), "a channel that is cleaning up only finishes cleaning up")
		return
	}
	if !res.Accepted {
		zz.Assert(post.Status == datatransfer.Failed, "a rejecting update fails the channel")
		zz.Assert(f.tr.countFor("close", chid) == 1, "and closes its transport")
		replies, to := verifReplies(f)
		zz.Assert(len(replies) == 1 && !replies[0].Accepted() && to[0] == chid.Initiator, "the initiator is told it was rejected")
		if res.VoucherResult != nil {
			n := len(post.VoucherResults)
			zz.Assert(n == 1 && post.VoucherResults[0].Type == res.VoucherResult.Type, "the rejection's voucher result is recorded")
		}
		zz.Reach("rejected")
		return
	}
	zz.Assert(post.DataLimit == res.DataLimit && post.RequiresFinalization == res.RequiresFinalization, "accepted update records limit and finalization")
	zz.Reach("accepted")
}

// VerifC04_LocalRestartResponder: RestartDataTransferChannel on a channel we received re-validates first.
func VerifC04_LocalRestartResponder() {
	f, st, chid := verifRestartFixture(0)
	zz.Assume(st.SelfPeer == st.Responder)
	zz.Assume(!channels.IsChannelTerminated(st.Status) && !channels.IsChannelCleaningUp(st.Status))
	pre := st
	err := f.m.RestartDataTransferChannel(context.Background(), chid)
	zz.Settle()
	consulted := len(f.val.Calls) > 0
	ok := consulted && f.val.Err == nil && f.val.Result.Accepted
	zz.Assert((err == nil) == ok, "restart succeeds exactly when re-validation accepted without error")
	post := f.g.VerifPeek(chid)
	zz.Assert(channels.VerifSameRecord(&pre, post), "asking for a restart does not change the record")
	if ok {
		zz.Assert(len(f.net.Sent) == 1 && f.net.Sent[0].To == verifOther(&pre), "the initiator is asked to restart")
		rq, isReq := f.net.Sent[0].Msg.(datatransfer.Request)
		zz.Assert(isReq && rq.IsRestartExistingChannelRequest(), "with a restart-existing-channel request")
		id, _ := rq.RestartChannelId()
		zz.Assert(id == chid, "naming this channel")
		zz.Reach("asked")
	} else {
		zz.Assert(len(f.net.Sent) == 0 && len(f.tr.Calls) == 0, "nothing is sent when re-validation did not accept")
		zz.Reach("not asked")
	}
}
