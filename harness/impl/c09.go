package impl

import (
	"context"

	datatransfer "github.com/filecoin-project/go-data-transfer/v2"
	"github.com/filecoin-project/go-data-transfer/v2/channels"
	zz "github.com/filecoin-project/go-data-transfer/v2/zzverif"
)

// VerifC09_CloseMessageKind: closing a channel (by the user, or with an error by the monitor)
// closes the transport channel, notifies the counterparty with a cancel message of the right kind
// (request iff we initiated), ends in Cancelled / Failed even when the transport close or the
// cancel message fail, and releases the transport resources exactly once.
func VerifC09_CloseMessageKind() {
	f, st, chid := verifInstalled(1, 0)
	zz.Assume(!channels.IsChannelTerminated(st.Status))
	f.net.MayFail = true
	f.tr.MayFail = true
	selfInit := st.SelfPeer == st.Initiator
	other := verifOther(&st)
	withErr := zz.Bool("withError")
	var err error
	if withErr {
		err = f.m.CloseDataTransferChannelWithError(context.Background(), chid, zz.Error("cherr"))
	} else {
		// a call-scoped context: it ends as soon as the call has returned, while the cancel
		// message is still being sent in the background
		ctx, cancel := context.WithCancel(context.Background())
		err = f.m.CloseDataTransferChannel(ctx, chid)
		cancel()
	}
	zz.Settle() // the user close sends its cancel message asynchronously
	zz.Assert(f.net.CtxDead == 0, "the cancel notification does not die with the caller's context")
	zz.Assert(err == nil, "close returns without error")
	zz.Assert(f.tr.countFor("close", chid) == 1, "the transport channel is closed once")
	zz.Assert(len(f.net.Sent)+f.net.Failed == 1, "exactly one cancel message is attempted")
	if len(f.net.Sent) == 1 {
		m := f.net.Sent[0].Msg
		zz.Assert(f.net.Sent[0].To == other, "the counterparty is notified")
		zz.Assert(m.IsCancel() && m.IsRequest() == selfInit && m.TransferID() == chid.ID, "with a cancel message of the right kind")
		zz.Reach("cancel sent")
	} else {
		zz.Reach("cancel message failed")
	}
	post := f.g.VerifPeek(chid)
	if withErr {
		zz.Assert(post.Status == datatransfer.Failed, "close-with-error ends in Failed")
	} else {
		zz.Assert(post.Status == datatransfer.Cancelled, "close ends in Cancelled")
	}
	zz.Assert(f.tr.countFor("cleanup", chid) == 1 && f.tr.count("cleanup") == 1, "transport resources released exactly once")
	zz.Assert(len(f.net.Unprotects) == 1 && f.net.Unprotects[0] == other, "the peer connection is un-protected exactly once")
}

// VerifC09_RejectedRequestCloses: on a rejected/failed incoming request the transport channel is
// closed and the handler returns (no hang) — see also C04.
func VerifC09_ReceiverErrorCloses() {
	f, st, chid := verifInstalled(1, 0)
	zz.Assume(st.SelfPeer == st.Initiator && !channels.IsChannelTerminated(st.Status) && !channels.IsChannelCleaningUp(st.Status))
	resp := verifArbitraryResponse("resp")
	zz.SetInt(&resp.TransferId, uint64(chid.ID))
	zz.Assume(resp.IsValidationResult() && !resp.RequestAccepted)
	err := f.rcv.receiveResponse(context.Background(), chid.Responder, resp)
	zz.Settle()
	zz.Assert(err == nil || f.tr.countFor("close", chid) == 1, "an error while processing a response closes the transport channel")
	post := f.g.VerifPeek(chid)
	if !resp.EmptyVoucherResult() && resp.VoucherResultPtr == nil {
		// malformed: a voucher-result type without a voucher result is reported, the channel is left alone
		zz.Assert(err != nil && post.Status == st.Status, "malformed response is reported")
		return
	}
	zz.Assert(post.Status == datatransfer.Failed, "a rejection fails the channel")
	zz.Assert(f.tr.countFor("cleanup", chid) == 1, "and releases the transport exactly once")
	zz.Reach("rejected")
}

// VerifC09_CleanupFinishesOnRestart: a channel persisted while cleaning up settles when restarted
// (same body as VerifC10_CleanupOnly; "always settles" is C09's clause too).
func VerifC09_CleanupFinishesOnRestart() { VerifC10_CleanupOnly() }
