package impl

import (
	"context"
	"time"

	"github.com/libp2p/go-libp2p/core/peer"

	datatransfer "github.com/filecoin-project/go-data-transfer/v2"
	"github.com/filecoin-project/go-data-transfer/v2/channels"
	"github.com/filecoin-project/go-data-transfer/v2/message/types"
	zz "github.com/filecoin-project/go-data-transfer/v2/zzverif"
)

// VerifC18_ConcurrentNext: two goroutines draw two IDs each from one counter, pre-empted at every
// atomic operation. All four IDs are distinct, each goroutine's IDs increase, and all are above the seed.
//
//verif:opts preempt sched=14 preemptfn=(*github.com/filecoin-project/go-data-transfer/v2/impl.timeCounter).next
func VerifC18_ConcurrentNext() {
	// (the counter's representation is not touched: it is seeded through its constructor from the
	// symbolic clock, and its value is only observed through next())
	tc := newTimeCounter()
	seed := tc.next()
	zz.Assume(seed < 1<<63) // no wrap-around of the 64-bit counter (stated bound)
	var a1, a2, b1, b2 uint64
	done := make(chan struct{}, 2)
	go func() { a1 = tc.next(); a2 = tc.next(); done <- struct{}{} }()
	go func() { b1 = tc.next(); b2 = tc.next(); done <- struct{}{} }()
	<-done
	<-done
	zz.Assert(a1 != a2 && a1 != b1 && a1 != b2 && a2 != b1 && a2 != b2 && b1 != b2, "transfer IDs are unique under concurrent opens")
	zz.Assert(a2 > a1 && b2 > b1, "strictly increasing per caller")
	zz.Assert(a1 > seed && b1 > seed, "above the seed")
	zz.Assert(tc.next() == seed+5, "the counter advanced by exactly the number of IDs issued")
	zz.Reach("done")
}

// VerifC18_SuccessiveManagers: with a non-decreasing clock, a manager created after an earlier one
// issued n IDs (and at least n nanoseconds later) starts above all of them.
func VerifC18_SuccessiveManagers() {
	// the counter is seeded with the wall clock in NANOSECONDS (the resolution that makes
	// "fewer IDs issued than clock ticks elapsed" a safe assumption)
	before := time.Now()
	c0 := newTimeCounter()
	after := time.Now()
	seed0 := c0.next() - 1
	zz.Assert(uint64(before.UnixNano()) <= seed0 && seed0 <= uint64(after.UnixNano()), "a manager's first ID is seeded from the wall clock in nanoseconds")
	c1 := newTimeCounter()
	first := c1.next()
	second := c1.next()
	c2 := newTimeCounter()
	later := c2.next()
	zz.Assume(later-1 >= second) // c2's seed: fewer IDs issued than nanoseconds elapsed (stated assumption)
	zz.Assert(second > first, "increasing within a manager")
	zz.Assert(later > second && later > first, "a later manager starts above the IDs of an earlier one")
	zz.Reach("done")
}

// VerifC18_OpenAllocatesFreshIDs: two opens on one manager create two distinct channels.
func VerifC18_OpenAllocatesFreshIDs() {
	self := peer.ID(zz.String("self"))
	other := peer.ID(zz.String("other"))
	zz.Assume(self != other)
	f := verifNewManager(self)
	v := datatransfer.TypedVoucher{Voucher: zz.Node("v"), Type: datatransfer.TypeIdentifier(zz.String("vt"))}
	base := zz.Cid("base")
	zz.Assume(base.Defined())
	ctx := context.Background()
	var id1, id2 datatransfer.ChannelID
	var e1, e2 error
	if zz.Bool("pull") {
		id1, e1 = f.m.OpenPullDataChannel(ctx, other, v, base, zz.Node("sel"))
		id2, e2 = f.m.OpenPullDataChannel(ctx, other, v, base, zz.Node("sel"))
	} else {
		id1, e1 = f.m.OpenPushDataChannel(ctx, other, v, base, zz.Node("sel"))
		id2, e2 = f.m.OpenPushDataChannel(ctx, other, v, base, zz.Node("sel"))
	}
	zz.Assert(e1 == nil && e2 == nil, "opens succeed")
	zz.Assert(id1 != id2 && id2.ID > id1.ID, "every opened channel has a distinct, increasing ID")
	zz.Assert(f.g.VerifLen() == 2, "two channels")
	zz.Reach("two opens")
}

// VerifC18_DuplicateCreate: creating a channel whose ID already exists — locally or through a
// duplicate incoming new request, whatever the validator says — fails / is refused and leaves
// the existing channel's state exactly as it was.
func VerifC18_DuplicateCreate() {
	f, st, chid := verifInstalled(1, 0)
	pre := st
	if zz.Bool("viaRequest") {
		zz.Assume(st.SelfPeer == st.Responder)
		zz.Assert(f.m.RegisterVoucherType(st.Vouchers[0].Type, f.val) == nil, "register")
		f.val.Result, f.val.Err = verifArbitraryResult("val")
		req := verifArbitraryRequest("req")
		zz.Assume(req.MessageType == uint64(types.NewMessage))
		zz.SetInt(&req.TransferId, uint64(chid.ID))
		_ = f.rcv.receiveRequest(context.Background(), chid.Initiator, req)
		zz.Settle()
		replies, _ := verifReplies(f)
		for _, r := range replies {
			zz.Assert(!r.Accepted(), "a duplicate new request is refused")
		}
		zz.Assert(f.tr.count("open") == 0, "and opens no transport request")
		zz.Reach("duplicate request refused")
	} else {
		_, err := f.m.channels.CreateNew(st.SelfPeer, chid.ID, zz.Cid("b"), zz.Node("s"), datatransfer.TypedVoucher{Voucher: zz.Node("v"), Type: "t"}, st.Initiator, st.Sender, st.Recipient)
		zz.Assert(err != nil, "creating an existing ID fails")
		zz.Reach("duplicate create fails")
	}
	post := f.g.VerifPeek(chid)
	zz.Assert(f.g.VerifLen() == 1 && channels.VerifSameRecord(&pre, post), "the existing channel's state is exactly as it was")
	zz.Assert(len(f.events) == 0, "and it sees no event")
}

// VerifC18_DuplicateCreateKeepsAccounting: "leaves the existing channel exactly as it was"
// includes what the channel does NEXT: after a refused duplicate creation, a block position that the
// existing channel had already counted is still recognised as a replay (not counted again), and a
// data limit it had is still enforced on the next fresh block.
func VerifC18_DuplicateCreateKeepsAccounting() {
	f, st, chid := verifInstalled(1, 0)
	zz.Assume(st.Status == datatransfer.Ongoing && st.SelfPeer == st.Responder)
	zz.Assume(st.ReceivedBlocksTotal >= 1 && st.ReceivedBlocksTotal < 1<<62 && st.QueuedBlocksTotal >= 1 && st.QueuedBlocksTotal < 1<<62)
	zz.Assume(st.Received < 1<<62 && st.Queued < 1<<62)
	isPull := st.Initiator == st.Recipient
	if zz.Bool("cachesWarm") {
		// a replayed report seeds the caches from the durable state without changing anything
		if isPull {
			_, _ = f.m.OnDataQueued(chid, verifLink("w"), 0, st.QueuedBlocksTotal, true)
		} else {
			_ = f.m.OnDataReceived(chid, verifLink("w"), 0, st.ReceivedBlocksTotal, true)
		}
		zz.Reach("caches warm")
	}
	_, err := f.m.channels.CreateNew(st.SelfPeer, chid.ID, zz.Cid("b"), zz.Node("s"), datatransfer.TypedVoucher{Voucher: zz.Node("v"), Type: "t"}, st.Initiator, st.Sender, st.Recipient)
	zz.Assert(err != nil, "creating an existing ID fails")
	size := zz.Uint64("size")
	zz.Assume(size > 0 && size < 1<<62)
	pre := *f.g.VerifPeek(chid)
	// a position the channel has already counted is re-reported
	if isPull {
		_, _ = f.m.OnDataQueued(chid, verifLink("l"), size, st.QueuedBlocksTotal, true)
	} else {
		_ = f.m.OnDataReceived(chid, verifLink("l"), size, st.ReceivedBlocksTotal, true)
	}
	post := f.g.VerifPeek(chid)
	zz.Assert(channels.VerifSameCounters(&pre, post), "a replayed position is still recognised after the refused duplicate: nothing is counted twice")
	// the next fresh block is judged against the limit and the progress the channel had
	P := verifLimitedProgress(&st)
	var err2 error
	if isPull {
		_, err2 = f.m.OnDataQueued(chid, verifLink("n"), size, st.QueuedBlocksTotal+1, true)
	} else {
		err2 = f.m.OnDataReceived(chid, verifLink("n"), size, st.ReceivedBlocksTotal+1, true)
	}
	want := st.DataLimit != 0 && P+size >= st.DataLimit
	zz.Assert((err2 == datatransfer.ErrPause) == want, "the data limit and progress the channel had are still in force")
	zz.Reach("accounting intact")
}

// VerifC18_ConcurrentNext3 (thorough): three goroutines x two IDs each.
//
//verif:tier thorough
//verif:opts preempt sched=16 part0=8 part1=2 preemptfn=(*github.com/filecoin-project/go-data-transfer/v2/impl.timeCounter).next
func VerifC18_ConcurrentNext3() {
	tc := newTimeCounter()
	seed := tc.next()
	zz.Assume(seed < 1<<63)
	var ids [3][2]uint64
	done := make(chan struct{}, 3)
	for k := 0; k < 3; k++ {
		k := k
		go func() { ids[k][0] = tc.next(); ids[k][1] = tc.next(); done <- struct{}{} }()
	}
	<-done
	<-done
	<-done
	for a := 0; a < 3; a++ {
		zz.Assert(ids[a][1] > ids[a][0] && ids[a][0] > seed, "increasing per caller, above the seed")
		for b := a + 1; b < 3; b++ {
			for i := 0; i < 2; i++ {
				for j := 0; j < 2; j++ {
					zz.Assert(ids[a][i] != ids[b][j], "transfer IDs are unique under concurrent opens")
				}
			}
		}
	}
	zz.Assert(tc.next() == seed+7, "exactly six IDs were issued")
	zz.Reach("done")
}

// VerifC18_StoredChannelsDoNotSteerTheCounter: a manager that starts on a store already holding
// a channel - in particular one whose transfer ID was chosen by a REMOTE initiator, any 64-bit
// value - still issues IDs that come from its own clock-seeded counter: above the wall clock at
// its creation, strictly increasing, never wrapping to a value an earlier manager may have used.
func VerifC18_StoredChannelsDoNotSteerTheCounter() {
	before := time.Now()
	st := channels.VerifArbitraryRecord("st", 1, 0, true)
	if st.SelfPeer == st.Initiator {
		// IDs this node issued earlier are below the present clock (the stated wall-clock assumption)
		zz.Assume(uint64(st.TransferID) < uint64(before.UnixNano()))
	}
	f := verifUnstartedManager(st.SelfPeer, nil)
	stored := channels.VerifChid(&st)
	f.g.VerifInstall(stored, &st)
	zz.Assert(f.m.Start(context.Background()) == nil, "Start succeeds")
	zz.Settle()
	other := peer.ID(zz.String("other"))
	zz.Assume(other != st.SelfPeer)
	v := datatransfer.TypedVoucher{Voucher: zz.Node("v"), Type: datatransfer.TypeIdentifier(zz.String("vt"))}
	base := zz.Cid("base")
	zz.Assume(base.Defined())
	ctx := context.Background()
	id1, e1 := f.m.OpenPushDataChannel(ctx, other, v, base, zz.Node("sel"))
	id2, e2 := f.m.OpenPullDataChannel(ctx, other, v, base, zz.Node("sel"))
	zz.Assert(e1 == nil && e2 == nil, "opens succeed whatever the store already holds")
	zz.Assert(uint64(id1.ID) > uint64(before.UnixNano()), "the first ID is above the wall clock at the manager's creation")
	zz.Assert(id2.ID > id1.ID, "IDs keep increasing")
	if st.SelfPeer == st.Responder {
		zz.Reach("stored channel with a remote-chosen ID")
	}
}
