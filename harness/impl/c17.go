package impl

import (
	"context"

	"github.com/libp2p/go-libp2p/core/peer"

	datatransfer "github.com/filecoin-project/go-data-transfer/v2"
	"github.com/filecoin-project/go-data-transfer/v2/channels"
	zz "github.com/filecoin-project/go-data-transfer/v2/zzverif"
)

type verifSubLog struct{ calls []verifSubEvent }

func (l *verifSubLog) fn() datatransfer.Subscriber {
	return func(evt datatransfer.Event, st datatransfer.ChannelState) {
		l.calls = append(l.calls, verifSubEvent{evt.Code, st})
	}
}

func verifSnapshotMatches(s datatransfer.ChannelState, rec *channels.VerifRecord) bool {
	return s.Status() == rec.Status && s.Queued() == rec.Queued && s.Sent() == rec.Sent && s.Received() == rec.Received &&
		s.QueuedCidsTotal() == rec.QueuedBlocksTotal && s.SentCidsTotal() == rec.SentBlocksTotal && s.ReceivedCidsTotal() == rec.ReceivedBlocksTotal &&
		s.DataLimit() == rec.DataLimit && s.RequiresFinalization() == rec.RequiresFinalization && s.InitiatorPaused() == rec.InitiatorPaused &&
		s.Message() == rec.Message && len(s.Vouchers()) == len(rec.Vouchers) && len(s.VoucherResults()) == len(rec.VoucherResults) &&
		s.ChannelID() == channels.VerifChid(rec)
}

// VerifC17_FanOut: two channels, two global subscribers (one of which may unsubscribe first) and
// per-transfer subscribers on both channels; ONE arbitrary event is sent to channel 1.
// If the event is applied, every global subscriber is called exactly once, with that event code
// and a snapshot equal to the resulting state; the per-transfer subscriber of channel 1 likewise;
// the per-transfer subscriber of channel 2 is not called; an ignored (invalid) event is announced
// to nobody; an unsubscribed callback is not called; the per-channel subscriber table is released
// exactly when the channel terminates.
func VerifC17_FanOut() {
	f, sts, chids := verifTwoChannels()
	g1, g2, p1, p2 := &verifSubLog{}, &verifSubLog{}, &verifSubLog{}, &verifSubLog{}
	f.m.SubscribeToEvents(g1.fn())
	unsub2 := f.m.SubscribeToEvents(g2.fn())
	f.m.channelSubscriptions.Subscribe(chids[0], p1.fn())
	f.m.channelSubscriptions.Subscribe(chids[1], p2.fn())
	unsubscribed := zz.Bool("unsubscribeSecond")
	if unsubscribed {
		unsub2()
	}
	pre := sts[0]
	code := datatransfer.EventCode(zz.Choice("code", channels.VerifNumEvents))
	zz.Assume(code != datatransfer.CleanupComplete)
	before := len(f.events)
	_ = channels.VerifSendArbitrary(f.g, chids[0], code, "ev")
	post := f.g.VerifPeek(chids[0])
	applied := f.g.Applied
	n := len(f.events) - before // reference subscriber installed by the fixture
	zz.Assert(n == applied, "one announcement per applied event (an ignored event is announced to nobody)")
	zz.Assert(len(g1.calls) == applied, "every global subscriber is called exactly once per applied event")
	zz.Assert(len(p1.calls) == applied, "the per-transfer subscriber of this channel likewise")
	zz.Assert(len(p2.calls) == 0, "a per-transfer subscriber receives only its own channel's events")
	if unsubscribed {
		zz.Assert(len(g2.calls) == 0, "an unsubscribed callback is not called")
		zz.Reach("unsubscribed")
	} else {
		zz.Assert(len(g2.calls) == applied, "second global subscriber")
	}
	if applied > 0 {
		zz.Assert(g1.calls[0].Code == code && p1.calls[0].Code == code, "with the event code that was applied")
		last := g1.calls[len(g1.calls)-1]
		zz.Assert(verifSnapshotMatches(last.State, post), "the last snapshot equals the resulting state")
		for i := range g1.calls {
			zz.Assert(g1.calls[i].State.ChannelID() == chids[0] && p1.calls[i].Code == g1.calls[i].Code, "same order for every subscriber")
		}
		if applied == 1 {
			zz.Reach("one event applied")
		} else {
			zz.Reach("cleanup follow-up announced too")
		}
	} else {
		zz.Assert(channels.VerifSameRecord(&pre, post), "ignored: state untouched")
		zz.Reach("ignored")
	}
	tab := zz.Unexported(f.m.channelSubscriptions, "subscriptions").(map[datatransfer.ChannelID][]datatransfer.Subscriber)
	_, has1 := tab[chids[0]]
	_, has2 := tab[chids[1]]
	zz.Assert(has2, "the other channel's subscribers stay")
	if applied > 0 {
		zz.Assert(has1 == !channels.IsChannelTerminated(post.Status), "a per-transfer subscriber is released exactly when the channel terminates")
	} else {
		zz.Assert(has1, "nothing is released without an event")
	}
}

// VerifC17_PerTransferSubscriberUnaffectedByOtherChannels: channel A was opened with a
// per-transfer subscriber, channel B without one. Whatever happens to B - including B reaching a
// terminal status, which releases B's (empty) subscriber entry - A's subscriber still receives
// exactly the events applied to A afterwards, and none of B's.
func VerifC17_PerTransferSubscriberUnaffectedByOtherChannels() {
	f, _, chids := verifTwoChannels()
	pA := &verifSubLog{}
	f.m.channelSubscriptions.Subscribe(chids[0], pA.fn())
	// a representative of each way B's history can go on: two endings, progress, bookkeeping
	codeB := []datatransfer.EventCode{datatransfer.Cancel, datatransfer.Error, datatransfer.DataReceived, datatransfer.PauseInitiator}[zz.Choice("codeB", 4)]
	_ = channels.VerifSendArbitrary(f.g, chids[1], codeB, "evB")
	postB := f.g.VerifPeek(chids[1])
	zz.Assert(len(pA.calls) == 0, "a per-transfer subscriber receives none of another channel's events")
	if channels.IsChannelTerminated(postB.Status) {
		zz.Reach("the other channel terminated")
	}
	applied0 := f.g.Applied
	codeA := []datatransfer.EventCode{datatransfer.NewVoucherResult, datatransfer.DataSent, datatransfer.PauseResponder, datatransfer.Cancel}[zz.Choice("codeA", 4)]
	_ = channels.VerifSendArbitrary(f.g, chids[0], codeA, "evA")
	appliedA := f.g.Applied - applied0
	zz.Assert(len(pA.calls) == appliedA, "the per-transfer subscriber still receives every event applied to its own channel")
	for _, c := range pA.calls {
		zz.Assert(c.State.ChannelID() == chids[0], "and only those")
	}
	if appliedA > 0 {
		zz.Reach("event on the subscribed channel")
	}
}

// VerifC17_LateAnnouncementsReachThePerTransferSubscriber: go-statemachine announces an event from
// the channel's own goroutine, possibly after the call that caused it has returned (the model's
// deferred-announcement mode: events are applied at once, announcements are queued in order and
// delivered after the API call returned). A subscriber registered for one transfer with
// WithSubscriber must still receive every event applied to its channel - in particular the
// Error / CleanupComplete of an open that failed - exactly as the global subscribers do, in the
// same order, and is released only by the channel's terminal event.
func VerifC17_LateAnnouncementsReachThePerTransferSubscriber() {
	self, other := peer.ID(zz.String("self")), peer.ID(zz.String("other"))
	zz.Assume(self != other)
	f := verifNewManager(self)
	f.g.DeferNotify = true
	f.net.MayFail = true
	f.tr.MayFail = true
	per, glob := &verifSubLog{}, &verifSubLog{}
	f.m.SubscribeToEvents(glob.fn())
	tv := datatransfer.TypedVoucher{Voucher: zz.Node("v"), Type: datatransfer.TypeIdentifier(zz.String("vt"))}
	base := zz.Cid("base")
	zz.Assume(base.Defined())
	ctx := context.Background()
	var chid datatransfer.ChannelID
	var err error
	if zz.Bool("push") {
		chid, err = f.m.OpenPushDataChannel(ctx, other, tv, base, zz.Node("sel"), datatransfer.WithSubscriber(per.fn()))
	} else {
		chid, err = f.m.OpenPullDataChannel(ctx, other, tv, base, zz.Node("sel"), datatransfer.WithSubscriber(per.fn()))
	}
	zz.Assert(len(glob.calls) == 0, "deferred mode: nothing was announced inside the call")
	// the announcements are made after the call has returned
	f.g.VerifDeliverDeferred()
	own := 0
	for _, c := range glob.calls {
		if c.State.ChannelID() == chid {
			zz.Assert(own < len(per.calls) && per.calls[own].Code == c.Code, "the per-transfer subscriber receives every event applied to its channel, in order")
			own++
		}
	}
	zz.Assert(own == len(per.calls), "and nothing else")
	if err != nil && own > 1 {
		zz.Reach("failed open announced after the call returned")
	}
	if err == nil {
		zz.Reach("open succeeded")
	}
}

// VerifC17_SlowSubscriberDoesNotReorder: announcements are delivered to every subscriber in the
// order the events were applied, however long a subscriber takes: while one subscriber is still
// busy with event n (it blocks until the harness releases it; meanwhile any live timer of the
// library may expire), no other subscriber is handed event n+1 ahead of event n.
//
//verif:opts sched=6 replay=engine
func VerifC17_SlowSubscriberDoesNotReorder() {
	f, sts, chids := verifTwoChannels()
	zz.Assume(sts[0].Status == datatransfer.Ongoing)
	f.g.DeferNotify = true
	gate := make(chan struct{}, 1)
	slowCalls := 0
	f.m.SubscribeToEvents(func(evt datatransfer.Event, st datatransfer.ChannelState) {
		slowCalls++
		if slowCalls == 1 {
			<-gate // busy with the first announcement until released
		}
	})
	fast := &verifSubLog{}
	f.m.SubscribeToEvents(fast.fn())
	// two applied events on one channel (bookkeeping events that are valid in every status)
	_ = f.g.Send(chids[0], datatransfer.DataSent, int64(1))
	_ = f.g.Send(chids[0], datatransfer.DataReceived, int64(1))
	zz.Assume(f.g.Applied == 2)
	go f.g.VerifDeliverDeferred() // the state machine's announcement goroutine
	zz.Settle()
	for i := 0; i < 2 && zz.Engine() && zz.LiveTimers() > 0; i++ {
		zz.FireTimer() // whatever timer the library armed meanwhile expires
		zz.Settle()
	}
	gate <- struct{}{}
	zz.Settle()
	zz.Assert(len(fast.calls) == 2, "every subscriber is called once per applied event")
	zz.Assert(fast.calls[0].Code == datatransfer.DataSent && fast.calls[1].Code == datatransfer.DataReceived, "in the order the events were applied, however slow another subscriber is")
	zz.Reach("delivered in order")
}
