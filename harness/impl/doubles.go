package impl

import (
	"context"

	"github.com/ipfs/go-cid"
	"github.com/ipld/go-ipld-prime"
	"github.com/ipld/go-ipld-prime/datamodel"
	cidlink "github.com/ipld/go-ipld-prime/linking/cid"
	"github.com/libp2p/go-libp2p/core/peer"
	"github.com/libp2p/go-libp2p/core/protocol"

	datatransfer "github.com/filecoin-project/go-data-transfer/v2"
	"github.com/filecoin-project/go-data-transfer/v2/channels"
	message1_1 "github.com/filecoin-project/go-data-transfer/v2/message/message1_1prime"
	"github.com/filecoin-project/go-data-transfer/v2/network"
	zz "github.com/filecoin-project/go-data-transfer/v2/zzverif"
)

// ---- network double --------------------------------------------------------

type verifSent struct {
	To  peer.ID
	Msg datatransfer.Message
}

type verifNet struct {
	self       peer.ID
	Sent       []verifSent
	MayFail    bool // SendMessage may fail (nondeterministically)
	Failed     int
	CtxDead    int // sends abandoned because their context had already ended
	Protects   []peer.ID
	Unprotects []peer.ID
	Delegate   network.Receiver
	Connects   int
	// Hook, if set, runs once inside the next SendMessage (what the application does while a
	// message is being written to the network)
	Hook func()
	// HookMsg, if set, runs once inside the next SendMessage with the message being sent
	HookMsg func(p peer.ID, m datatransfer.Message)
}

func (n *verifNet) Protect(id peer.ID, tag string) { n.Protects = append(n.Protects, id) }
func (n *verifNet) Unprotect(id peer.ID, tag string) bool {
	n.Unprotects = append(n.Unprotects, id)
	return false
}
func (n *verifNet) SendMessage(ctx context.Context, p peer.ID, m datatransfer.Message) error {
	if h := n.Hook; h != nil {
		n.Hook = nil
		h()
	}
	if h := n.HookMsg; h != nil {
		n.HookMsg = nil
		h(p, m)
	}
	if ctx.Err() != nil {
		// a real network abandons a send whose context has ended
		n.CtxDead++
		return ctx.Err()
	}
	if n.MayFail && zz.Bool("net.sendFails") {
		n.Failed++
		return zz.Error("net.sendErr")
	}
	n.Sent = append(n.Sent, verifSent{p, m})
	return nil
}
func (n *verifNet) SetDelegate(r network.Receiver)                  { n.Delegate = r }
func (n *verifNet) ConnectTo(context.Context, peer.ID) error        { n.Connects++; return nil }
func (n *verifNet) ConnectWithRetry(context.Context, peer.ID) error { n.Connects++; return nil }
func (n *verifNet) ID() peer.ID                                     { return n.self }
func (n *verifNet) Protocol(context.Context, peer.ID) (protocol.ID, error) {
	return datatransfer.ProtocolDataTransfer1_2, nil
}

// ---- transport double ------------------------------------------------------

type verifTCall struct {
	Op      string // open close cleanup pause resume
	Chid    datatransfer.ChannelID
	Peer    peer.ID
	Msg     datatransfer.Message
	Channel datatransfer.ChannelState
}

type verifTransport struct {
	Calls   []verifTCall
	MayFail bool
	Handler datatransfer.EventsHandler
	// OpenHook, if set, runs once inside the next OpenChannel (what the network does while the
	// transport request is being opened)
	OpenHook func(chid datatransfer.ChannelID)
}

func (t *verifTransport) fail(op string) error {
	if t.MayFail && zz.Bool("transport."+op+"Fails") {
		return zz.Error("transport." + op + "Err")
	}
	return nil
}
func (t *verifTransport) OpenChannel(ctx context.Context, dataSender peer.ID, chid datatransfer.ChannelID, root ipld.Link, stor datamodel.Node, channel datatransfer.ChannelState, msg datatransfer.Message) error {
	t.Calls = append(t.Calls, verifTCall{Op: "open", Chid: chid, Peer: dataSender, Msg: msg, Channel: channel})
	if h := t.OpenHook; h != nil {
		t.OpenHook = nil
		h(chid)
	}
	return t.fail("open")
}
func (t *verifTransport) CloseChannel(ctx context.Context, chid datatransfer.ChannelID) error {
	t.Calls = append(t.Calls, verifTCall{Op: "close", Chid: chid})
	return t.fail("close")
}
func (t *verifTransport) SetEventHandler(events datatransfer.EventsHandler) error {
	t.Handler = events
	return nil
}
func (t *verifTransport) CleanupChannel(chid datatransfer.ChannelID) {
	t.Calls = append(t.Calls, verifTCall{Op: "cleanup", Chid: chid})
}
func (t *verifTransport) Shutdown(ctx context.Context) error { return nil }
func (t *verifTransport) PauseChannel(ctx context.Context, chid datatransfer.ChannelID) error {
	t.Calls = append(t.Calls, verifTCall{Op: "pause", Chid: chid})
	return t.fail("pause")
}
func (t *verifTransport) ResumeChannel(ctx context.Context, msg datatransfer.Message, chid datatransfer.ChannelID) error {
	t.Calls = append(t.Calls, verifTCall{Op: "resume", Chid: chid, Msg: msg})
	return t.fail("resume")
}

func (t *verifTransport) count(op string) int {
	n := 0
	for _, c := range t.Calls {
		if c.Op == op {
			n++
		}
	}
	return n
}

func (t *verifTransport) countFor(op string, chid datatransfer.ChannelID) int {
	n := 0
	for _, c := range t.Calls {
		if c.Op == op && c.Chid == chid {
			n++
		}
	}
	return n
}

// ---- validator double ------------------------------------------------------

type verifValidator struct {
	Calls  []string // push pull restart
	Result datatransfer.ValidationResult
	Err    error
	// Hook, if set, runs inside every validation callback (re-entrant stimuli: what the
	// application or the network does while the validator is deciding)
	Hook func()
}

func (v *verifValidator) ValidatePush(chid datatransfer.ChannelID, sender peer.ID, voucher datamodel.Node, baseCid cid.Cid, selector datamodel.Node) (datatransfer.ValidationResult, error) {
	v.Calls = append(v.Calls, "push")
	return v.Result, v.Err
}
func (v *verifValidator) ValidatePull(chid datatransfer.ChannelID, receiver peer.ID, voucher datamodel.Node, baseCid cid.Cid, selector datamodel.Node) (datatransfer.ValidationResult, error) {
	v.Calls = append(v.Calls, "pull")
	return v.Result, v.Err
}
func (v *verifValidator) ValidateRestart(chid datatransfer.ChannelID, channel datatransfer.ChannelState) (datatransfer.ValidationResult, error) {
	v.Calls = append(v.Calls, "restart")
	if v.Hook != nil {
		v.Hook()
	}
	return v.Result, v.Err
}

// verifArbitraryResult fills an arbitrary validation outcome.
func verifArbitraryResult(label string) (datatransfer.ValidationResult, error) {
	var r datatransfer.ValidationResult
	r.Accepted = zz.Bool(label + ".Accepted")
	r.ForcePause = zz.Bool(label + ".ForcePause")
	r.DataLimit = zz.Uint64(label + ".DataLimit")
	r.RequiresFinalization = zz.Bool(label + ".RequiresFinalization")
	switch zz.Choice(label+".vr", 3) {
	case 1:
		r.VoucherResult = &datatransfer.TypedVoucher{Type: datatransfer.TypeIdentifier(zz.String(label + ".vrType"))}
	case 2:
		r.VoucherResult = &datatransfer.TypedVoucher{Voucher: zz.Node(label + ".vrNode"), Type: datatransfer.TypeIdentifier(zz.String(label + ".vrType"))}
	}
	var err error
	if zz.Bool(label + ".errs") {
		err = zz.Error(label + ".err")
	}
	return r, err
}

// ---- manager fixture -------------------------------------------------------

type verifSubEvent struct {
	Code  datatransfer.EventCode
	State datatransfer.ChannelState
}

type verifMgr struct {
	m        *manager
	net      *verifNet
	tr       *verifTransport
	g        *channels.VerifGroup
	val      *verifValidator
	otherVal *verifValidator
	events   []verifSubEvent
	rcv      *receiver
}

// verifNewManager builds a manager through the REAL NewDataTransfer + Start with recording doubles.
func verifNewManager(self peer.ID, opts ...DataTransferOption) *verifMgr {
	f := &verifMgr{net: &verifNet{self: self}, tr: &verifTransport{}, val: &verifValidator{}}
	dt, err := NewDataTransfer(nil, f.net, f.tr, opts...)
	if err != nil {
		panic(err)
	}
	f.m = dt.(*manager)
	f.g = channels.VerifLastGroup
	f.m.SubscribeToEvents(func(evt datatransfer.Event, st datatransfer.ChannelState) {
		f.events = append(f.events, verifSubEvent{evt.Code, st})
	})
	if err := f.m.Start(context.Background()); err != nil {
		panic(err)
	}
	zz.Settle() // the migration goroutine marks the group ready
	f.rcv = &receiver{f.m}
	return f
}

// verifInstalled creates a manager whose store holds exactly one arbitrary, creation-consistent record.
func verifInstalled(nV, nR int) (*verifMgr, channels.VerifRecord, datatransfer.ChannelID) {
	st := channels.VerifArbitraryRecord("st", nV, nR, true)
	f := verifNewManager(st.SelfPeer)
	chid := channels.VerifChid(&st)
	f.g.VerifInstall(chid, &st)
	return f, st, chid
}

func verifOther(st *channels.VerifRecord) peer.ID {
	return zz.Ite(st.SelfPeer == st.Initiator, st.Responder, st.Initiator)
}

// verifArbitraryRequest is an arbitrary decoded request message.
func verifArbitraryRequest(label string) *message1_1.TransferRequest1_1 {
	r := &message1_1.TransferRequest1_1{}
	zz.Symbolic(r, label)
	if zz.Bool(label + ".hasBaseCid") {
		c := zz.Cid(label + ".BaseCid")
		r.BaseCidPtr = &c
	}
	if zz.Bool(label + ".hasSelector") {
		r.SelectorPtr = zz.Node(label + ".Selector")
	}
	if zz.Bool(label + ".hasVoucher") {
		r.VoucherPtr = zz.Node(label + ".Voucher")
	}
	return r
}

// verifScalarRequest is a request with arbitrary scalar fields and no base CID / selector / voucher
// (callers fill those in), avoiding the 8-way fork of verifArbitraryRequest.
func verifScalarRequest(label string) *message1_1.TransferRequest1_1 {
	r := &message1_1.TransferRequest1_1{}
	zz.Symbolic(r, label)
	return r
}

// verifArbitraryResponse is an arbitrary decoded response message.
func verifArbitraryResponse(label string) *message1_1.TransferResponse1_1 {
	r := &message1_1.TransferResponse1_1{}
	zz.Symbolic(r, label)
	if zz.Bool(label + ".hasVoucherResult") {
		r.VoucherResultPtr = zz.Node(label + ".VoucherResult")
	}
	return r
}

func verifLink(label string) ipld.Link { return cidlink.Link{Cid: zz.Cid(label)} }
