package impl

// C13 — "Stored channels survive schema migration unchanged" (readiness part).
//
// DECIDED here, on the real NewDataTransfer / OnReady / Start with the model state-machine group
// of harness/channels/group.go (which, like go-ds-versioning's migrated group, answers every call
// with "migrations not run" until its migration function has succeeded):
//   - readiness is announced exactly once, with exactly the migration outcome (nil or the very
//     error the migration returned), to each of the 0..2 listeners registered before Start, and
//     not before the migration ran;
//   - until migration has finished (before Start, after Start while the migration goroutine has
//     not run yet, and for ever after a failed migration) every channel operation of the Manager
//     API is refused with an error (TransferChannelStatus: ChannelNotFoundError), the stored
//     (un-migrated) record is untouched, no channel event is emitted, and neither the network nor
//     the transport sees a call;
//   - after a successful migration the stored channel is presented.
//
// Abstractions: the datastore and go-ds-versioning's driver (model group; VerifMigrateErr is the
// migration outcome), the scheduler (the engine explores the interleavings of the Start goroutine
// at the explicit scheduling points: before Settle the goroutine has not run).
//
// OBSERVATION (VerifC13_NotReadyPauseResume): PauseDataTransferChannel and ResumeDataTransferChannel
// talk to the transport and the network BEFORE they consult the channel store, so on a module whose
// migration has not finished they pause/resume the transport and send a pause message to the peer
// and only then fail with "migrations not run". The property demands refusal without acting on
// un-migrated data; no stored data is read, so this is recorded as an observation, not a finding.

import (
	"context"
	"github.com/ipfs/go-datastore"
	dss "github.com/ipfs/go-datastore/sync"
	"time"

	"github.com/libp2p/go-libp2p/core/peer"

	datatransfer "github.com/filecoin-project/go-data-transfer/v2"
	"github.com/filecoin-project/go-data-transfer/v2/channels"
	zz "github.com/filecoin-project/go-data-transfer/v2/zzverif"
)

// verifUnstartedManager builds a manager through the REAL NewDataTransfer with recording doubles,
// WITHOUT starting it. migErr is what the store's migration will return when Start runs it.
func verifUnstartedManager(self peer.ID, migErr error) *verifMgr {
	f := &verifMgr{net: &verifNet{self: self}, tr: &verifTransport{}, val: &verifValidator{}}
	channels.VerifMigrateErr = migErr
	dt, err := NewDataTransfer(nil, f.net, f.tr)
	channels.VerifMigrateErr = nil
	if err != nil {
		panic(err)
	}
	f.m = dt.(*manager)
	f.g = channels.VerifLastGroup
	f.m.SubscribeToEvents(func(evt datatransfer.Event, st datatransfer.ChannelState) {
		f.events = append(f.events, verifSubEvent{evt.Code, st})
	})
	f.rcv = &receiver{f.m}
	return f
}

// verifReadyLog records the calls of one OnReady listener.
type verifReadyLog struct{ calls []error }

func (l *verifReadyLog) listener() datatransfer.ReadyFunc {
	return func(err error) { l.calls = append(l.calls, err) }
}

const verifNumStoreOps = 11 // operations that consult the channel store first
const verifNumOps = 13      // + pause, resume

// verifChannelOp performs Manager API operation op on chid; refused reports whether the module
// refused it (error, or ChannelNotFoundError for the status query).
func verifChannelOp(f *verifMgr, op int, chid datatransfer.ChannelID) (refused bool) {
	ctx := context.Background()
	m := f.m
	other := chid.OtherParty(m.peerID)
	tv := datatransfer.TypedVoucher{Voucher: zz.Node("op.voucher"), Type: datatransfer.TypeIdentifier(zz.String("op.vtype"))}
	switch op {
	case 0:
		id, err := m.OpenPushDataChannel(ctx, other, tv, zz.Cid("op.base"), zz.Node("op.selector"))
		zz.Assert(err == nil || id == (datatransfer.ChannelID{}), "a refused open names no channel")
		return err != nil
	case 1:
		id, err := m.OpenPullDataChannel(ctx, other, tv, zz.Cid("op.base"), zz.Node("op.selector"))
		zz.Assert(err == nil || id == (datatransfer.ChannelID{}), "a refused open names no channel")
		return err != nil
	case 2:
		return m.SendVoucher(ctx, chid, tv) != nil
	case 3:
		return m.SendVoucherResult(ctx, chid, tv) != nil
	case 4:
		res, _ := verifArbitraryResult("op.res")
		return m.UpdateValidationStatus(ctx, chid, res) != nil
	case 5:
		return m.CloseDataTransferChannel(ctx, chid) != nil
	case 6:
		return m.CloseDataTransferChannelWithError(ctx, chid, zz.Error("op.cherr")) != nil
	case 7:
		st, err := m.ChannelState(ctx, chid)
		zz.Assert(err == nil || st == nil, "no state together with an error")
		return err != nil
	case 8:
		return m.TransferChannelStatus(ctx, chid) == datatransfer.ChannelNotFoundError
	case 9:
		all, err := m.InProgressChannels(ctx)
		zz.Assert(err == nil || len(all) == 0, "no channels together with an error")
		return err != nil
	case 10:
		return m.RestartDataTransferChannel(ctx, chid) != nil
	case 11:
		return m.PauseDataTransferChannel(ctx, chid) != nil
	case 12:
		return m.ResumeDataTransferChannel(ctx, chid) != nil
	}
	panic("unknown op")
}

func verifNoOutsideCall(f *verifMgr) bool {
	return len(f.net.Sent) == 0 && f.net.Failed == 0 && len(f.net.Protects) == 0 && len(f.net.Unprotects) == 0 && f.net.Connects == 0 &&
		len(f.tr.Calls) == 0
}

// verifNotReadyFixture: an unstarted manager whose store holds one arbitrary stored record (the
// un-migrated data), 0..2 listeners, and a migration that will succeed or fail.
// when: 0 = before Start, 1 = after Start but before the migration goroutine ran, 2 = after it ran.
func verifNotReadyFixture(when int) (f *verifMgr, pre channels.VerifRecord, chid datatransfer.ChannelID, migErr error, logs []*verifReadyLog) {
	st := channels.VerifArbitraryRecord("st", 1, 0, true)
	if zz.Bool("migrationFails") {
		migErr = zz.Error("migrationErr")
	}
	f = verifUnstartedManager(st.SelfPeer, migErr)
	chid = channels.VerifChid(&st)
	f.g.VerifInstall(chid, &st)
	k := zz.Choice("listeners", 3)
	for i := 0; i < k; i++ {
		l := &verifReadyLog{}
		logs = append(logs, l)
		f.m.OnReady(l.listener())
	}
	if when >= 1 {
		zz.Assert(f.m.Start(context.Background()) == nil, "Start succeeds")
	}
	if when >= 2 {
		zz.Settle()
	}
	return f, st, chid, migErr, logs
}

// VerifC13_Ready: announcement of readiness and refusal of channel operations until then.
func VerifC13_Ready() {
	when := zz.Choice("when", 3)
	f, pre, chid, migErr, logs := verifNotReadyFixture(when)

	// --- announcement
	for _, l := range logs {
		if when < 2 {
			zz.Assert(len(l.calls) == 0, "readiness is not announced before the migration ran")
		} else {
			zz.Assert(len(l.calls) == 1, "each listener registered before Start is called exactly once")
			zz.Assert(l.calls[0] == migErr, "with exactly the migration outcome")
		}
	}
	if when == 2 && len(logs) == 2 {
		if migErr != nil {
			zz.Reach("two listeners told about the failed migration")
		} else {
			zz.Reach("two listeners told the module is ready")
		}
	}
	zz.Assert(verifNoOutsideCall(f), "starting up talks to nobody")
	zz.Assert(f.g.VerifIsReady() == (when == 2 && migErr == nil), "the store is ready exactly after a successful migration")

	if f.g.VerifIsReady() {
		// --- after a successful migration the stored channel is presented
		cs, err := f.m.ChannelState(context.Background(), chid)
		zz.Assert(err == nil && cs != nil, "a ready module presents the stored channel")
		zz.Assert(cs.Status() == pre.Status && cs.ChannelID() == chid && cs.TransferID() == pre.TransferID, "as stored")
		all, err := f.m.InProgressChannels(context.Background())
		zz.Assert(err == nil && len(all) == 1, "and lists it")
		zz.Reach("ready: stored channel presented")
		return
	}

	// --- not ready: every store-consulting operation is refused without any outside effect
	op := zz.Choice("op", verifNumOps)
	refused := verifChannelOp(f, op, chid)
	zz.Settle() // (when == 1: only now does the pending migration goroutine run)
	zz.Assert(refused, "the module refuses channel operations until migration has finished")
	post := f.g.VerifPeek(chid)
	zz.Assert(post != nil && channels.VerifSameRecord(&pre, post) && f.g.VerifLen() == 1, "the stored record is untouched")
	zz.Assert(len(f.events) == 0, "no channel event is emitted")
	if op < verifNumStoreOps {
		zz.Assert(verifNoOutsideCall(f), "a refused operation reaches neither the network nor the transport")
	}
	switch when {
	case 0:
		zz.Reach("refused before Start")
	case 1:
		zz.Reach("refused while migration is pending")
	case 2:
		zz.Reach("refused after failed migration")
	}
	for _, l := range logs {
		zz.Assert(len(l.calls) <= 1, "never announced twice")
	}
}

// VerifC13_NotReadyPauseResume: the same refusal demanded of pause and resume — a module whose
// migration has not finished must not drive the transport or message the peer for a channel it
// cannot read. (Reported as a finding on the unchanged code, see the file comment.)
func VerifC13_NotReadyPauseResume() {
	when := zz.Choice("when", 3)
	f, pre, chid, migErr, _ := verifNotReadyFixture(when)
	zz.Assume(!(when == 2 && migErr == nil))
	op := verifNumStoreOps + zz.Choice("op", verifNumOps-verifNumStoreOps)
	refused := verifChannelOp(f, op, chid)
	zz.Assert(refused, "the module refuses channel operations until migration has finished")
	post := f.g.VerifPeek(chid)
	zz.Assert(post != nil && channels.VerifSameRecord(&pre, post), "the stored record is untouched")
	zz.Reach("pause/resume returns an error")
	zz.Assert(len(f.events) == 0, "no channel event")
	// OBSERVATION (not asserted: the property only demands refusal, which holds): pause/resume talk
	// to the transport and send the pause message BEFORE consulting the store, so the transport
	// double does see a pause/resume call and the peer a pause message for the unreadable channel.
}

// VerifC13_ManagerOpensTheStoreItWasGiven is NOT a symbolic harness (native only, real
// go-statemachine / go-ds-versioning / go-datastore): "opening a datastore written by a previous
// run presents every stored channel" requires the manager to hand the application's datastore to
// the channel store as it is (same keyspace, no extra layer): a channel written through the
// channel store directly on a datastore is presented by a manager opened on that datastore.
//
//verif:opts nativeonly
func VerifC13_ManagerOpensTheStoreItWasGiven() {
	zz.Reach("native-only store hand-through")
	if zz.Engine() {
		return
	}
	channels.VerifUseRealFSM(true)
	defer channels.VerifUseRealFSM(false)
	ctx := context.Background()
	self, other := peer.ID("self"), peer.ID("other")
	ds := dss.MutexWrap(datastore.NewMapDatastore())
	// an earlier run
	env := &channels.VerifEnv{Self: self}
	c1, err := channels.New(ds, func(datatransfer.Event, datatransfer.ChannelState) {}, env, self)
	zz.Assert(err == nil && c1.Start(ctx) == nil, "earlier run: channel store opened")
	chid, err := c1.CreateNew(self, 4711, zz.CidFromAtom("base"), zz.OpaqueNode("sel"), datatransfer.TypedVoucher{Voucher: zz.OpaqueNode("v"), Type: "t"}, self, self, other)
	zz.Assert(err == nil, "earlier run: channel created")
	_, err = c1.GetByID(ctx, chid) // flushed: durable
	zz.Assert(err == nil, "earlier run: channel stored")
	_ = c1.Stop(ctx)
	// this run: a manager on the same datastore
	dt, err := NewDataTransfer(ds, &verifNet{self: self}, &verifTransport{})
	zz.Assert(err == nil, "manager constructed")
	ready := make(chan error, 1)
	dt.OnReady(func(e error) { ready <- e })
	zz.Assert(dt.Start(ctx) == nil, "manager started")
	select {
	case e := <-ready:
		zz.Assert(e == nil, "store opened without error")
	case <-time.After(5 * time.Second):
		zz.Fail("the manager never became ready")
	}
	st, err := dt.ChannelState(ctx, chid)
	zz.Assert(err == nil && st != nil && st.ChannelID() == chid, "the manager presents the channel the earlier run stored in this datastore")
	all, err := dt.InProgressChannels(ctx)
	zz.Assert(err == nil && len(all) == 1, "and lists exactly it")
	_ = dt.Stop(ctx)
	zz.ModelValidated = 1
}
