package impl

// VerifC07_DuplicateCreateKeepsAccounting: a refused duplicate creation (a re-delivered open
// request, a colliding local create) must not reset the high-water marks and progress of the
// existing channel: positions it already counted stay replays (same body as
// VerifC18_DuplicateCreateKeepsAccounting; the clause "a replayed position is never counted
// again" is C07's).
func VerifC07_DuplicateCreateKeepsAccounting() { VerifC18_DuplicateCreateKeepsAccounting() }
