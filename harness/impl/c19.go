package impl

import (
	"context"

	"github.com/ipld/go-ipld-prime/datamodel"

	datatransfer "github.com/filecoin-project/go-data-transfer/v2"
	"github.com/filecoin-project/go-data-transfer/v2/channels"
	"github.com/filecoin-project/go-data-transfer/v2/message/types"
	zz "github.com/filecoin-project/go-data-transfer/v2/zzverif"
)

// VerifC19_RecordAfterSend: the initiator records a voucher only after it was sent, the responder
// records a voucher result only after it was sent: a failed send leaves both logs exactly as they
// were; a successful one appends exactly that entry.
func VerifC19_RecordAfterSend() {
	f, st, chid := verifInstalled(1+zz.Choice("nV", 2), zz.Choice("nR", 2))
	zz.Assume(!channels.IsChannelTerminated(st.Status) && !channels.IsChannelCleaningUp(st.Status))
	f.net.MayFail = true
	pre := st
	tv := datatransfer.TypedVoucher{Voucher: zz.Node("new.node"), Type: datatransfer.TypeIdentifier(zz.String("new.type"))}
	if zz.Bool("nullPayload") {
		// a typed entry whose payload is IPLD null is still an entry ("empty" is decided by the type)
		tv.Voucher = datamodel.Null
		zz.Assume(tv.Type != datatransfer.EmptyTypeIdentifier)
		zz.Reach("typed entry with a null payload")
	}
	selfInit := st.SelfPeer == st.Initiator
	var err error
	if selfInit {
		err = f.m.SendVoucher(context.Background(), chid, tv)
	} else {
		err = f.m.SendVoucherResult(context.Background(), chid, tv)
	}
	zz.Settle()
	post := f.g.VerifPeek(chid)
	sent := len(f.net.Sent) == 1
	zz.Assert(sent == (err == nil), "the call succeeds exactly when the message was sent")
	if !sent {
		zz.Assert(channels.VerifSameLogs(&pre, post), "a failed send records nothing")
		zz.Reach("send failed")
		return
	}
	zz.Assert(f.net.Sent[0].To == verifOther(&pre), "sent to the counterparty")
	if selfInit {
		zz.Assert(len(post.Vouchers) == len(pre.Vouchers)+1 && len(post.VoucherResults) == len(pre.VoucherResults), "exactly one voucher is recorded")
		e := post.Vouchers[len(post.Vouchers)-1]
		zz.Assert(e.Type == tv.Type && e.Voucher.Node == tv.Voucher, "the recorded voucher is the one sent")
		zz.Assert(post.Vouchers[0].Type == pre.Vouchers[0].Type && post.Vouchers[0].Voucher.Node == pre.Vouchers[0].Voucher.Node, "the first voucher stays the one the channel was opened with")
		view := channels.VerifView(post)
		zz.Assert(view.LastVoucher().Type == tv.Type && view.LastVoucher().Voucher == tv.Voucher, "LastVoucher is the final entry")
		zz.Reach("voucher recorded after send")
	} else {
		zz.Assert(len(post.VoucherResults) == len(pre.VoucherResults)+1 && len(post.Vouchers) == len(pre.Vouchers), "exactly one voucher result is recorded")
		e := post.VoucherResults[len(post.VoucherResults)-1]
		zz.Assert(e.Type == tv.Type && e.VoucherResult.Node == tv.Voucher, "the recorded result is the one sent")
		zz.Reach("result recorded after send")
	}
}

// VerifC19_ReceivedEntriesRecordedOnce: the responder records a voucher it receives exactly once,
// the initiator records a voucher result it receives exactly once.
func VerifC19_ReceivedEntriesRecordedOnce() {
	f, st, chid := verifInstalled(1, zz.Choice("nR", 2))
	zz.Assume(!channels.IsChannelTerminated(st.Status) && !channels.IsChannelCleaningUp(st.Status))
	pre := st
	ctx := context.Background()
	if st.SelfPeer == st.Responder {
		req := verifScalarRequest("req")
		zz.SetInt(&req.TransferId, uint64(chid.ID))
		zz.Assume(req.MessageType == uint64(types.VoucherMessage))
		req.VoucherPtr = zz.Node("v")
		_ = f.rcv.receiveRequest(ctx, chid.Initiator, req)
		zz.Settle()
		post := f.g.VerifPeek(chid)
		zz.Assert(len(post.Vouchers) == len(pre.Vouchers)+1 && len(post.VoucherResults) == len(pre.VoucherResults), "a received voucher is recorded exactly once")
		e := post.Vouchers[len(post.Vouchers)-1]
		zz.Assert(e.Type == req.VoucherTypeIdentifier && e.Voucher.Node == req.VoucherPtr, "as received")
		zz.Reach("voucher received")
	} else {
		resp := verifArbitraryResponse("resp")
		zz.SetInt(&resp.TransferId, uint64(chid.ID))
		zz.Assume(resp.MessageType == uint64(types.VoucherResultMessage) && resp.RequestAccepted)
		zz.Assume(!resp.EmptyVoucherResult() && resp.VoucherResultPtr != nil)
		_ = f.rcv.receiveResponse(ctx, chid.Responder, resp)
		zz.Settle()
		post := f.g.VerifPeek(chid)
		zz.Assert(len(post.VoucherResults) == len(pre.VoucherResults)+1 && len(post.Vouchers) == len(pre.Vouchers), "a received voucher result is recorded exactly once")
		e := post.VoucherResults[len(post.VoucherResults)-1]
		zz.Assert(e.Type == resp.VoucherTypeIdentifier && e.VoucherResult.Node == resp.VoucherResultPtr, "as received")
		zz.Reach("result received")
	}
}

// VerifC19_ResultsSentWithRestartReplyAreRecorded: "the responder records the results it sent":
// whatever the re-validation of an incoming restart request decides (accepted or rejected, with or
// without a voucher result), if the reply that goes to the initiator carries a voucher result,
// that result is appended - once - to the responder's result log and is what LastVoucherResult
// returns.
func VerifC19_ResultsSentWithRestartReplyAreRecorded() {
	f, st, chid := verifInstalled(1, zz.Choice("earlierResults", 2))
	zz.Assume(st.SelfPeer == st.Responder)
	zz.Assume(!channels.IsChannelCleaningUp(st.Status) && !channels.IsChannelTerminated(st.Status))
	zz.Assert(f.m.RegisterVoucherType(st.Vouchers[0].Type, f.val) == nil, "register")
	f.val.Result, f.val.Err = verifArbitraryResult("val")
	zz.Assume(f.val.Err == nil)
	if vr := f.val.Result.VoucherResult; vr != nil {
		// a well-formed result: a node together with a type (half-filled results are C04/C12's subject)
		zz.Assume(vr.Voucher != nil && vr.Type != datatransfer.EmptyTypeIdentifier)
	}
	req := verifScalarRequest("req")
	zz.Assume(req.MessageType == uint64(types.RestartMessage))
	zz.SetInt(&req.TransferId, uint64(chid.ID))
	base := st.BaseCid
	req.BaseCidPtr = &base
	req.SelectorPtr = st.Selector.Node
	req.VoucherPtr = st.Vouchers[0].Voucher.Node
	req.VoucherTypeIdentifier = st.Vouchers[0].Type
	pre := st
	_ = f.rcv.receiveRequest(context.Background(), chid.Initiator, req)
	zz.Settle()
	replies, _ := verifReplies(f)
	zz.Assert(len(replies) == 1, "exactly one reply")
	reply := replies[0]
	post := f.g.VerifPeek(chid)
	if reply.EmptyVoucherResult() {
		zz.Assert(len(post.VoucherResults) == len(pre.VoucherResults), "no result sent: none recorded")
		zz.Reach("reply without result")
		return
	}
	n, err := reply.VoucherResult()
	zz.Assert(len(post.VoucherResults) == len(pre.VoucherResults)+1, "a result that was sent is recorded exactly once")
	last := post.VoucherResults[len(post.VoucherResults)-1]
	zz.Assert(last.Type == reply.VoucherResultType() && (err != nil || last.VoucherResult.Node == n), "and it is the final entry of the log")
	if reply.Accepted() {
		zz.Reach("accepted restart with result")
	} else {
		zz.Reach("rejected restart with result")
	}
}
