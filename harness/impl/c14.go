package impl

import (
	"context"
	"time"

	"github.com/libp2p/go-libp2p/core/peer"

	datatransfer "github.com/filecoin-project/go-data-transfer/v2"
	"github.com/filecoin-project/go-data-transfer/v2/channelmonitor"
	"github.com/filecoin-project/go-data-transfer/v2/message/types"
	zz "github.com/filecoin-project/go-data-transfer/v2/zzverif"
)

// verifAcceptTimeout: natively short enough to wait out, in the engine timers fire on demand.
const verifAcceptTimeout = 150 * time.Millisecond

// VerifC14_AcceptDuringOpenIsNotTimedOut (property C14, "the accept timeout closes the channel
// exactly when the awaited event did not arrive in time", at the manager that owns the monitor):
// the responder's accepting reply may be processed while the open request is still being handed
// to the network / transport, i.e. before OpenPush/PullDataChannel returns. The channel was
// accepted in time, so when the accept timer later expires nothing is closed: the monitor must
// already be watching when the request leaves.
func VerifC14_AcceptDuringOpenIsNotTimedOut() {
	self, other := peer.ID("self"), peer.ID("other")
	f := verifNewManager(self, ChannelRestartConfig(channelmonitor.Config{AcceptTimeout: verifAcceptTimeout, MaxConsecutiveRestarts: 1}))
	ctx := context.Background()
	tv := datatransfer.TypedVoucher{Voucher: zz.Node("v"), Type: "vt"}
	accept := func(tid datatransfer.TransferID) {
		resp := verifArbitraryResponse("accept")
		zz.Assume(resp.MessageType == uint64(types.NewMessage) && resp.RequestAccepted && !resp.Paused)
		zz.Assume(resp.EmptyVoucherResult() && resp.VoucherResultPtr == nil)
		zz.SetInt(&resp.TransferId, uint64(tid))
		_ = f.rcv.receiveResponse(ctx, other, resp)
	}
	var chid datatransfer.ChannelID
	var err error
	if zz.Bool("push") {
		f.net.HookMsg = func(p peer.ID, m datatransfer.Message) { accept(m.TransferID()) }
		chid, err = f.m.OpenPushDataChannel(ctx, other, tv, zz.CidFromAtom("base"), zz.Node("sel"))
		zz.Reach("push")
	} else {
		f.tr.OpenHook = func(c datatransfer.ChannelID) { accept(c.ID) }
		chid, err = f.m.OpenPullDataChannel(ctx, other, tv, zz.CidFromAtom("base"), zz.Node("sel"))
		zz.Reach("pull")
	}
	zz.Assert(err == nil, "channel opened")
	zz.Settle()
	accepted := false
	for _, e := range f.events {
		if e.Code == datatransfer.Accept {
			accepted = true
		}
	}
	zz.Assert(accepted, "the acceptance was recorded while the open call was in progress")
	// the accept timeout passes
	if zz.Engine() {
		for i := 0; i < 3 && zz.LiveTimers() > 0; i++ {
			zz.FireTimer()
			zz.Settle()
		}
	} else {
		time.Sleep(3 * verifAcceptTimeout)
	}
	post := f.g.VerifPeek(chid)
	zz.Assert(f.tr.count("close") == 0, "an accepted channel is not closed when the accept timeout passes")
	zz.Assert(post.Status != datatransfer.Failing && post.Status != datatransfer.Failed && post.Status != datatransfer.Cancelling && post.Status != datatransfer.Cancelled,
		"an accepted channel is not failed by the accept timeout")
	zz.Reach("timeout passed")
}
