package impl

import (
	"context"

	datatransfer "github.com/filecoin-project/go-data-transfer/v2"
	"github.com/filecoin-project/go-data-transfer/v2/channels"
	"github.com/filecoin-project/go-data-transfer/v2/message/types"
	zz "github.com/filecoin-project/go-data-transfer/v2/zzverif"
)

func verifIsOriginalRequest(rq datatransfer.Request, st *channels.VerifRecord, chid datatransfer.ChannelID) bool {
	v, verr := rq.Voucher()
	sel, serr := rq.Selector()
	return rq.IsRestart() && rq.TransferID() == chid.ID && rq.IsPull() == (st.Initiator == st.Recipient) &&
		verr == nil && v == st.Vouchers[0].Voucher.Node && rq.VoucherType() == st.Vouchers[0].Type &&
		rq.BaseCid() == st.BaseCid && serr == nil && sel == st.Selector.Node
}

// VerifC10_InitiatorRestart: restarting a channel we initiated re-issues the ORIGINAL request
// marked as a restart — same transfer ID, direction, voucher, base CID and selector — to the
// counterparty (push: over the network; pull: as a new transport request that carries the stored
// channel so that received blocks are skipped), creates no channel and alters no recorded field.
func VerifC10_InitiatorRestart() {
	f, st, chid := verifInstalled(1+zz.Choice("extraVouchers", 2), 0)
	zz.Assume(st.SelfPeer == st.Initiator && st.BaseCid.Defined())
	zz.Assume(!channels.IsChannelTerminated(st.Status) && !channels.IsChannelCleaningUp(st.Status))
	f.net.MayFail = true
	f.tr.MayFail = true
	pre := st
	isPull := st.Initiator == st.Recipient
	other := verifOther(&st)
	// a transport configurer registered for the opening voucher type (e.g. the per-channel store):
	// after a process restart the in-memory option table is empty, so the restart must consult it again
	configured, applied := 0, 0
	zz.Assert(f.m.RegisterTransportConfigurer(st.Vouchers[0].Type, func(c datatransfer.ChannelID, v datatransfer.TypedVoucher) []datatransfer.TransportOption {
		if c == chid {
			configured++
		}
		return []datatransfer.TransportOption{func(c datatransfer.ChannelID, t datatransfer.Transport) error {
			if c == chid {
				applied++
			}
			return nil
		}}
	}) == nil, "register configurer")
	err := f.m.RestartDataTransferChannel(context.Background(), chid)
	zz.Assert(configured == 1 && applied == 1, "the restart re-runs the transport configurer and applies its options (per-channel store survives a process restart)")
	zz.Settle()
	post := f.g.VerifPeek(chid)
	zz.Assert(f.g.VerifLen() == 1 && post != nil, "restart never creates or removes a channel")
	zz.Assert(channels.VerifSameRecord(&pre, post), "restart alters no recorded field (identity, vouchers, progress)")
	if isPull {
		zz.Assert(len(f.net.Sent) == 0 && f.net.Failed == 0, "pull: nothing over the network")
		zz.Assert(f.tr.count("open") == 1 && len(f.tr.Calls) == 1, "pull: one new transport request")
		c := f.tr.Calls[0]
		rq, ok := c.Msg.(datatransfer.Request)
		zz.Assert(ok && verifIsOriginalRequest(rq, &pre, chid), "pull: the original request, marked as a restart")
		zz.Assert(c.Chid == chid && c.Peer == other, "pull: for this channel, towards the data sender")
		zz.Assert(c.Channel != nil && c.Channel.ChannelID() == chid && c.Channel.ReceivedCidsTotal() == pre.ReceivedBlocksTotal,
			"pull: the stored channel (with its received-block count) accompanies the request")
		zz.Reach("pull restart")
	} else {
		zz.Assert(len(f.tr.Calls) == 0, "push: no transport request from the sender")
		zz.Assert(len(f.net.Sent)+f.net.Failed == 1, "push: one message")
		if len(f.net.Sent) == 1 {
			rq, ok := f.net.Sent[0].Msg.(datatransfer.Request)
			zz.Assert(ok && verifIsOriginalRequest(rq, &pre, chid) && f.net.Sent[0].To == other, "push: the original request, marked as a restart, to the counterparty")
			zz.Reach("push restart")
		}
	}
	if f.net.Failed > 0 {
		zz.Assert(err != nil, "a failed send is reported")
	}
}

// VerifC10_IncomingRestart: a responder that receives a valid restart request re-validates before
// continuing, keeps identity and progress, and (push) opens the new transport request with the
// stored channel so that exactly the recorded number of received blocks is skipped.
func VerifC10_IncomingRestart() {
	f, st, chid := verifInstalled(1, 0)
	zz.Assume(st.SelfPeer == st.Responder)
	zz.Assume(!channels.IsChannelTerminated(st.Status) && !channels.IsChannelCleaningUp(st.Status))
	zz.Assert(f.m.RegisterVoucherType(st.Vouchers[0].Type, f.val) == nil, "register")
	f.val.Result.Accepted = zz.Bool("accepted")
	f.val.Result.DataLimit = st.DataLimit
	f.val.Result.RequiresFinalization = st.RequiresFinalization
	isPull := st.Initiator == st.Recipient
	req := verifScalarRequest("req")
	zz.Assume(req.MessageType == uint64(types.RestartMessage))
	zz.SetInt(&req.TransferId, uint64(chid.ID))
	base := st.BaseCid
	req.BaseCidPtr = &base
	req.VoucherPtr = st.Vouchers[0].Voucher.Node
	req.VoucherTypeIdentifier = st.Vouchers[0].Type
	req.SelectorPtr = st.Selector.Node
	req.Pull = isPull
	pre := st
	configured, applied := 0, 0
	zz.Assert(f.m.RegisterTransportConfigurer(st.Vouchers[0].Type, func(c datatransfer.ChannelID, v datatransfer.TypedVoucher) []datatransfer.TransportOption {
		if c == chid {
			configured++
		}
		return []datatransfer.TransportOption{func(c datatransfer.ChannelID, t datatransfer.Transport) error {
			if c == chid {
				applied++
			}
			return nil
		}}
	}) == nil, "register configurer")
	_ = f.rcv.receiveRequest(context.Background(), chid.Initiator, req)
	zz.Settle()
	post := f.g.VerifPeek(chid)
	if f.val.Result.Accepted {
		zz.Assert(configured == 1 && applied == 1, "an accepted restart re-runs the transport configurer and applies its options")
	}
	zz.Assert(f.g.VerifLen() == 1 && post != nil, "no channel created or removed")
	zz.Assert(channels.VerifSameIdentity(&pre, post) && channels.VerifSameCounters(&pre, post) && channels.VerifSameLogs(&pre, post), "identity, vouchers and progress preserved")
	zz.Assert(len(f.val.Calls) == 1 && f.val.Calls[0] == "restart", "the responder re-validates")
	restartSeen := false
	for _, e := range f.events {
		if e.Code == datatransfer.Restart {
			restartSeen = true
		}
	}
	if !f.val.Result.Accepted {
		zz.Assert(!restartSeen, "a rejected restart is not recorded as restarted")
		zz.Assert(post.Status == datatransfer.Failed, "a rejected restart fails the channel")
		zz.Assert(f.tr.count("open") == 0, "and opens nothing")
		zz.Reach("rejected")
		return
	}
	zz.Assert(restartSeen, "accepted: the restart is recorded")
	if pre.Status == datatransfer.Finalizing {
		// an accepting re-validation that does not leave the request paused is the releasing
		// validation update of a finalizing responder (C03)
		zz.Assert(post.Status == datatransfer.Finalizing || post.Status == datatransfer.Completed, "a finalizing responder stays or is released")
	} else {
		zz.Assert(post.Status == pre.Status, "accepted: the lifecycle status is kept")
	}
	if !isPull {
		zz.Assert(f.tr.count("open") == 1, "push: the responder opens the new transport request")
		var c verifTCall
		for _, x := range f.tr.Calls {
			if x.Op == "open" {
				c = x
			}
		}
		zz.Assert(c.Chid == chid && c.Peer == chid.Initiator, "for this channel, towards the sender")
		zz.Assert(c.Channel != nil && c.Channel.ReceivedCidsTotal() == pre.ReceivedBlocksTotal, "with the stored channel: skip exactly the recorded number of received blocks")
		r, ok := c.Msg.(datatransfer.Response)
		zz.Assert(ok && r.IsRestart() && r.Accepted() && r.TransferID() == chid.ID, "carrying the accepting restart response")
		zz.Reach("push restart accepted")
	} else {
		zz.Assert(f.tr.count("open") == 0, "pull: the responder opens nothing")
		zz.Assert(len(f.net.Sent) == 1, "pull: the reply goes over the network")
		zz.Reach("pull restart accepted")
	}
}

// VerifC10_ResponderAsksInitiator: restarting a channel we received asks the initiator to re-issue it,
// after re-validating, and alters nothing (shared with C04).
func VerifC10_ResponderAsksInitiator() { VerifC04_LocalRestartResponder() }

// VerifC10_CleanupOnly: a restart of a channel that is cleaning up only finishes the cleanup
// (also C06: a channel persisted while cleaning up finishes cleanup when it is restarted).
func VerifC10_CleanupOnly() {
	f, st, chid := verifInstalled(1, 0)
	zz.Assume(channels.IsChannelCleaningUp(st.Status))
	pre := st
	err := f.m.RestartDataTransferChannel(context.Background(), chid)
	zz.Settle()
	zz.Assert(err == nil, "restart of a channel that is cleaning up succeeds")
	post := f.g.VerifPeek(chid)
	want := datatransfer.Cancelled
	if pre.Status == datatransfer.Failing {
		want = datatransfer.Failed
	}
	if pre.Status == datatransfer.Completing {
		want = datatransfer.Completed
	}
	zz.Assert(post.Status == want, "it settles in the matching terminal status")
	zz.Assert(f.tr.countFor("cleanup", chid) == 1 && len(f.tr.Calls) == 1, "the transport is released once and nothing is re-opened")
	zz.Assert(len(f.net.Sent) == 0, "nothing is sent")
	zz.Assert(channels.VerifSameExceptStatus(&pre, post), "nothing but the status changes")
	zz.Reach("cleanup finished")
}
