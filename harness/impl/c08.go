package impl

import (
	"context"

	datatransfer "github.com/filecoin-project/go-data-transfer/v2"
	"github.com/filecoin-project/go-data-transfer/v2/channels"
	zz "github.com/filecoin-project/go-data-transfer/v2/zzverif"
)

func verifLimitedProgress(st *channels.VerifRecord) uint64 {
	return zz.Ite(st.Initiator == st.Recipient, st.Queued, st.Received)
}

// VerifC08_HookPause: the block report that reaches the limit returns the pause signal to the
// transport AND tells the initiator: for a pull the paused update travels with the block
// (returned message), for a push it is sent over the network to the initiator.
func VerifC08_HookPause() {
	f, st, chid := verifInstalled(1, 0)
	zz.Assume(st.Status == datatransfer.Ongoing && st.SelfPeer == st.Responder)
	isPull := st.Initiator == st.Recipient
	P := verifLimitedProgress(&st)
	L := st.DataLimit
	size, index := zz.Uint64("size"), zz.Int64("index")
	zz.Assume(P < 1<<62 && size < 1<<62)
	zz.Assume(st.QueuedBlocksTotal >= 0 && st.ReceivedBlocksTotal >= 0 && index >= 0)
	unique := zz.Bool("unique")
	var err error
	var msg datatransfer.Message
	var fresh bool
	if isPull {
		fresh = index > st.QueuedBlocksTotal
		msg, err = f.m.OnDataQueued(chid, verifLink("link"), size, index, unique)
	} else {
		fresh = index > st.ReceivedBlocksTotal
		err = f.m.OnDataReceived(chid, verifLink("link"), size, index, unique)
	}
	want := unique && fresh && L != 0 && P+size >= L
	zz.Assert((err == datatransfer.ErrPause) == want, "pause signal exactly at the limit")
	zz.Assert(err == nil || err == datatransfer.ErrPause, "no other error")
	post := f.g.VerifPeek(chid)
	if want {
		zz.Assert(post.ResponderPaused, "responder marked paused")
		if isPull {
			zz.Assert(msg != nil && !msg.IsRequest() && msg.IsUpdate() && msg.IsPaused() && msg.TransferID() == chid.ID, "pull: a paused update travels with the block")
			zz.Assert(len(f.net.Sent) == 0, "pull: nothing is sent separately")
			zz.Reach("pull paused")
		} else {
			zz.Assert(len(f.net.Sent) == 1 && f.net.Sent[0].To == chid.Initiator, "push: the initiator is told over the network")
			m := f.net.Sent[0].Msg
			zz.Assert(!m.IsRequest() && m.IsUpdate() && m.IsPaused() && m.TransferID() == chid.ID, "push: with a paused update response")
			zz.Reach("push paused")
		}
	} else {
		zz.Assert(msg == nil && len(f.net.Sent) == 0, "below the limit nobody is told anything")
		zz.Assert(post.ResponderPaused == st.ResponderPaused, "pause flag untouched")
	}
}

// VerifC08_UpdateStep: a responder paused at its limit receives an accepting validation update
// with a new limit. It resumes exactly when the update does not force a pause and the new limit
// is zero or exceeds the progress made so far; otherwise it stays paused. The record and the
// cache hold the new limit, so the same rule applies at the new limit.
func VerifC08_UpdateStep() {
	f, st, chid := verifInstalled(1, 0)
	zz.Assume(st.Status == datatransfer.Ongoing && st.SelfPeer == st.Responder)
	isPull := st.Initiator == st.Recipient
	zz.Assume(st.ResponderPaused) // paused by the limit
	P := verifLimitedProgress(&st)
	zz.Assume(P < 1<<62)
	zz.Assume(st.QueuedBlocksTotal >= 0 && st.ReceivedBlocksTotal >= 0 && st.QueuedBlocksTotal < 1<<62 && st.ReceivedBlocksTotal < 1<<62)
	seed := zz.Bool("cacheSeeded")
	if seed {
		// a non-counted report seeds the caches without changing anything
		if isPull {
			_, _ = f.m.OnDataQueued(chid, verifLink("l0"), 0, 0, true)
		} else {
			_ = f.m.OnDataReceived(chid, verifLink("l0"), 0, 0, true)
		}
	}
	var res datatransfer.ValidationResult
	res.Accepted = true
	res.ForcePause = zz.Bool("ForcePause")
	res.DataLimit = zz.Uint64("newLimit")
	res.RequiresFinalization = zz.Bool("RequiresFinalization")
	if zz.Bool("hasVR") {
		res.VoucherResult = &datatransfer.TypedVoucher{Voucher: zz.Node("vr"), Type: datatransfer.TypeIdentifier(zz.String("vrt"))}
	}
	err := f.m.UpdateValidationStatus(context.Background(), chid, res)
	zz.Assert(err == nil, "update accepted")
	post := f.g.VerifPeek(chid)
	zz.Assert(post.DataLimit == res.DataLimit, "the record holds the new limit")
	resume := !res.ForcePause && (res.DataLimit == 0 || P < res.DataLimit)
	if resume {
		zz.Assert(!post.ResponderPaused, "resumed: pause flag cleared")
		zz.Assert(f.tr.countFor("resume", chid) == 1 && f.tr.count("pause") == 0 && f.tr.count("close") == 0, "resumed: the transport is resumed")
		m := f.tr.Calls[len(f.tr.Calls)-1].Msg
		r, ok := m.(datatransfer.Response)
		zz.Assert(ok && r.Accepted() && !r.IsPaused() && r.TransferID() == chid.ID, "the resume carries the accepting, un-paused reply")
		zz.Reach("resumed")
	} else {
		zz.Assert(post.ResponderPaused, "stays paused")
		zz.Assert(f.tr.count("resume") == 0 && f.tr.count("close") == 0, "stays paused: transport not resumed")
		zz.Assert(len(f.net.Sent) == 1 && f.net.Sent[0].To == chid.Initiator, "the initiator is told")
		r, ok := f.net.Sent[0].Msg.(datatransfer.Response)
		zz.Assert(ok && r.Accepted() && r.IsPaused(), "with an accepting but paused reply")
		zz.Reach("stays paused")
		if !res.ForcePause && P == res.DataLimit {
			zz.Reach("new limit equals progress")
		}
	}
	// the same rule applies at the new limit
	size := zz.Uint64("size")
	zz.Assume(size < 1<<62)
	var err2 error
	if isPull {
		_, err2 = f.m.OnDataQueued(chid, verifLink("l1"), size, st.QueuedBlocksTotal+1, true)
	} else {
		err2 = f.m.OnDataReceived(chid, verifLink("l1"), size, st.ReceivedBlocksTotal+1, true)
	}
	want := res.DataLimit != 0 && P+size >= res.DataLimit
	zz.Assert((err2 == datatransfer.ErrPause) == want, "the same rule applies at the new limit")
}

// VerifC08_InitiatorResumeDoesNotLiftLimitPause: while the responder is paused at its data limit,
// a resume from the initiator (solicited or not: whatever the initiator's own pause flag says)
// does not let payload progress: the responder stays marked paused and the transport is told to
// stay paused; only a validation update releases it.
func VerifC08_InitiatorResumeDoesNotLiftLimitPause() {
	f, st, chid := verifInstalled(1, 0)
	zz.Assume(st.Status == datatransfer.Ongoing && st.SelfPeer == st.Responder && st.ResponderPaused)
	req := verifScalarRequest("req")
	zz.SetInt(&req.TransferId, uint64(chid.ID))
	zz.Assume(req.MessageType == 1 && !req.Pause) // update: resume
	err := f.rcv.receiveRequest(context.Background(), chid.Initiator, req)
	zz.Settle()
	post := f.g.VerifPeek(chid)
	zz.Assert(post.ResponderPaused, "the responder stays marked paused")
	zz.Assert(f.tr.countFor("pause", chid) == 1 && f.tr.count("resume") == 0, "the transport is told to stay paused")
	zz.Assert(err == nil, "handled")
	if st.InitiatorPaused {
		zz.Reach("initiator had paused")
	} else {
		zz.Reach("unsolicited resume")
	}
}
