package impl

import (
	"context"

	datatransfer "github.com/filecoin-project/go-data-transfer/v2"
	"github.com/filecoin-project/go-data-transfer/v2/channels"
	zz "github.com/filecoin-project/go-data-transfer/v2/zzverif"
)

func verifTerminalFixture() (*verifMgr, datatransfer.ChannelID, func(string)) {
	f, st, chid := verifInstalled(1, zz.Choice("nR", 2))
	zz.Assume(channels.IsChannelTerminated(st.Status))
	pre := st
	check := func(what string) {
		zz.Settle()
		post := f.g.VerifPeek(chid)
		zz.Assert(post != nil && channels.VerifSameRecord(&pre, post), "terminal channel: no observable field changes")
		zz.Assert(len(f.events) == 0, "terminal channel: no further event is emitted")
		zz.Assert(f.g.VerifLen() == 1, "no channel appears or disappears")
		zz.Reach(what)
	}
	return f, chid, check
}

// VerifC02_HandlerOnTerminal: every transport callback (EventsHandler method) with arbitrary
// arguments on a channel that is Completed, Failed or Cancelled changes nothing and emits nothing.
func VerifC02_HandlerOnTerminal() {
	f, chid, check := verifTerminalFixture()
	m := f.m
	k := zz.Choice("handler", 13)
	switch k {
	case 0:
		_ = m.OnChannelOpened(chid)
	case 1:
		_ = m.OnDataReceived(chid, verifLink("link"), zz.Uint64("size"), zz.Int64("index"), zz.Bool("unique"))
	case 2:
		_, _ = m.OnDataQueued(chid, verifLink("link"), zz.Uint64("size"), zz.Int64("index"), zz.Bool("unique"))
	case 3:
		_ = m.OnDataSent(chid, verifLink("link"), zz.Uint64("size"), zz.Int64("index"), zz.Bool("unique"))
	case 4:
		m.OnTransferInitiated(chid)
	case 5:
		req := verifArbitraryRequest("req")
		_, _ = m.OnRequestReceived(chid, req)
	case 6:
		_ = m.OnResponseReceived(chid, verifArbitraryResponse("resp"))
	case 7:
		var err error
		if zz.Bool("completeErr") {
			err = zz.Error("cerr")
		}
		_ = m.OnChannelCompleted(chid, err)
	case 8:
		_ = m.OnRequestCancelled(chid, zz.Error("e"))
	case 9:
		_ = m.OnRequestDisconnected(chid, zz.Error("e"))
	case 10:
		_ = m.OnSendDataError(chid, zz.Error("e"))
	case 11:
		_ = m.OnReceiveDataError(chid, zz.Error("e"))
	case 12:
		_ = m.OnContextAugment(chid)(context.Background())
	}
	check("handler returned")
}

// VerifC02_ReceiverOnTerminal: any incoming network message addressed to a terminated channel
// (by its counterparty) changes nothing; an incoming restart request is refused.
func VerifC02_ReceiverOnTerminal() {
	f, chid, check := verifTerminalFixture()
	f.net.MayFail = true
	other := chid.OtherParty(f.m.peerID)
	ctx := context.Background()
	switch zz.Choice("kind", 3) {
	case 0:
		req := verifArbitraryRequest("req")
		zz.SetInt(&req.TransferId, uint64(chid.ID))
		zz.Assume(chid.Initiator == other) // requests come from the initiator
		_ = f.rcv.receiveRequest(ctx, other, req)
		if req.IsRestart() {
			// the reply must refuse the restart
			refused := false
			for _, s := range f.net.Sent {
				if r, ok := s.Msg.(datatransfer.Response); ok && r.IsRestart() {
					zz.Assert(!r.Accepted(), "restart of a terminated channel is refused")
					refused = true
				}
			}
			if f.net.Failed == 0 {
				zz.Assert(refused, "a refusing reply is sent")
				zz.Reach("restart refused")
			}
			zz.Assert(f.tr.count("open") == 0, "no transport channel is opened")
		}
	case 1:
		resp := verifArbitraryResponse("resp")
		zz.SetInt(&resp.TransferId, uint64(chid.ID))
		zz.Assume(chid.Responder == other)
		_ = f.rcv.receiveResponse(ctx, other, resp)
	case 2:
		req := verifArbitraryRequest("req")
		req.RestartChannel = chid
		f.rcv.ReceiveRestartExistingChannelRequest(ctx, other, req)
		zz.Assert(len(f.net.Sent) == 0 && f.tr.count("open") == 0, "restart-existing on a terminated channel re-issues nothing")
	}
	check("receiver returned")
}

// VerifC02_APIOnTerminal: every API call on a terminated channel leaves it untouched;
// restart is a successful no-op and close succeeds.
func VerifC02_APIOnTerminal() {
	f, chid, check := verifTerminalFixture()
	m := f.m
	ctx := context.Background()
	api := zz.Choice("api", 8)
	if api == 1 || api == 2 {
		f.net.MayFail = true
		f.tr.MayFail = true
	}
	switch api {
	case 0:
		err := m.RestartDataTransferChannel(ctx, chid)
		zz.Assert(err == nil, "restarting a terminated channel is a successful no-op")
		zz.Assert(len(f.net.Sent) == 0 && f.net.Failed == 0 && len(f.tr.Calls) == 0, "restart of a terminated channel re-issues nothing")
		zz.Reach("restart no-op")
	case 1:
		err := m.CloseDataTransferChannel(ctx, chid)
		zz.Assert(err == nil, "closing a terminated channel succeeds")
		zz.Reach("close ok")
	case 2:
		_ = m.CloseDataTransferChannelWithError(ctx, chid, zz.Error("cherr"))
	case 3:
		_ = m.PauseDataTransferChannel(ctx, chid)
	case 4:
		_ = m.ResumeDataTransferChannel(ctx, chid)
	case 5:
		_ = m.SendVoucher(ctx, chid, datatransfer.TypedVoucher{Voucher: zz.Node("v"), Type: datatransfer.TypeIdentifier(zz.String("vt"))})
	case 6:
		_ = m.SendVoucherResult(ctx, chid, datatransfer.TypedVoucher{Voucher: zz.Node("v"), Type: datatransfer.TypeIdentifier(zz.String("vt"))})
	case 7:
		r, _ := verifArbitraryResult("res")
		_ = m.UpdateValidationStatus(ctx, chid, r)
	}
	check("api returned")
}

// VerifC02_TerminatesDuringRevalidation: the channel becomes terminal WHILE an incoming restart
// request is being re-validated (the application cancels it, or the counterparty's cancel arrives,
// inside the validator callback). Once the state machine has terminated (its Sends report
// ErrTerminated), the restart must still be refused: no accepted reply, no transport request,
// and the terminated record keeps its status.
func VerifC02_TerminatesDuringRevalidation() {
	f, st, chid := verifInstalled(1, 0)
	zz.Assume(st.SelfPeer == st.Responder)
	zz.Assume(!channels.IsChannelTerminated(st.Status) && !channels.IsChannelCleaningUp(st.Status))
	zz.Assert(f.m.RegisterVoucherType(st.Vouchers[0].Type, f.val) == nil, "register")
	f.val.Result = datatransfer.ValidationResult{Accepted: true, DataLimit: st.DataLimit, RequiresFinalization: st.RequiresFinalization}
	how := zz.Choice("how", 2)
	f.val.Hook = func() {
		if how == 0 {
			_ = f.m.channels.Cancel(chid)
		} else {
			_ = f.m.channels.Error(chid, zz.Error("appfail"))
		}
	}
	req := verifScalarRequest("req")
	zz.Assume(req.MessageType == 6) // restart
	zz.SetInt(&req.TransferId, uint64(chid.ID))
	base := st.BaseCid
	req.BaseCidPtr = &base
	req.SelectorPtr = st.Selector.Node
	req.VoucherPtr = st.Vouchers[0].Voucher.Node
	req.VoucherTypeIdentifier = st.Vouchers[0].Type
	req.Pull = st.Initiator == st.Recipient
	_ = f.rcv.receiveRequest(context.Background(), chid.Initiator, req)
	zz.Settle()
	post := f.g.VerifPeek(chid)
	zz.Assert(channels.IsChannelTerminated(post.Status), "the channel terminated during re-validation")
	want := datatransfer.Cancelled
	if how == 1 {
		want = datatransfer.Failed
	}
	zz.Assert(post.Status == want, "and keeps its terminal status")
	if f.g.VerifTerminatedSeen() {
		replies, _ := verifReplies(f)
		for _, r := range replies {
			zz.Assert(!r.Accepted(), "a restart of a channel that terminated meanwhile is refused")
		}
		zz.Assert(f.tr.count("open") == 0, "and re-opens no transport request")
		zz.Reach("refused after terminating during re-validation")
	}
}

// VerifC02_TwoStimuli (thorough): two consecutive arbitrary transport callbacks / API calls on a
// terminated channel: still nothing changes and nothing is announced.
//
//verif:tier thorough
//verif:opts part0=8 part1=2
func VerifC02_TwoStimuli() {
	f, chid, check := verifTerminalFixture()
	m := f.m
	ctx := context.Background()
	for i := 0; i < 2; i++ {
		switch zz.Choice("stim", 9) {
		case 0:
			_ = m.OnDataReceived(chid, verifLink("link"), zz.Uint64("size"), zz.Int64("index"), zz.Bool("unique"))
		case 1:
			_, _ = m.OnDataQueued(chid, verifLink("link"), zz.Uint64("size"), zz.Int64("index"), zz.Bool("unique"))
		case 2:
			var err error
			if zz.Bool("completeErr") {
				err = zz.Error("cerr")
			}
			_ = m.OnChannelCompleted(chid, err)
		case 3:
			_ = m.OnResponseReceived(chid, verifArbitraryResponse("resp"))
		case 4:
			_ = m.RestartDataTransferChannel(ctx, chid)
		case 5:
			_ = m.CloseDataTransferChannel(ctx, chid)
		case 6:
			_ = m.PauseDataTransferChannel(ctx, chid)
		case 7:
			_ = m.OnRequestDisconnected(chid, zz.Error("e"))
		case 8:
			_ = m.SendVoucher(ctx, chid, datatransfer.TypedVoucher{Voucher: zz.Node("v"), Type: datatransfer.TypeIdentifier(zz.String("vt"))})
		}
		check("stimulus returned")
	}
}
