package impl

import (
	"context"

	datatransfer "github.com/filecoin-project/go-data-transfer/v2"
	"github.com/filecoin-project/go-data-transfer/v2/channels"
	zz "github.com/filecoin-project/go-data-transfer/v2/zzverif"
)

// VerifC06_FlushBeforeRead: every channel-state query (Manager.ChannelState,
// TransferChannelStatus, and every internal read on the handler paths) goes through the state
// machine group's GetSync (which flushes queued events and returns durable state), never the
// unsynchronised Get. Decided on the real code against the group double's call counters.
func VerifC06_FlushBeforeRead() {
	f, st, chid := verifInstalled(1, 0)
	ctx := context.Background()
	before := f.g.GetSyncCalls
	switch zz.Choice("query", 6) {
	case 0:
		cs, err := f.m.ChannelState(ctx, chid)
		zz.Assert(err == nil && cs.Status() == st.Status && cs.ChannelID() == chid, "query returns the stored state")
		zz.Assert(cs.Queued() == st.Queued && cs.Sent() == st.Sent && cs.Received() == st.Received && cs.DataLimit() == st.DataLimit &&
			cs.Message() == st.Message && cs.BaseCID() == st.BaseCid && cs.InitiatorPaused() == st.InitiatorPaused &&
			cs.RequiresFinalization() == st.RequiresFinalization && cs.QueuedCidsTotal() == st.QueuedBlocksTotal &&
			cs.SentCidsTotal() == st.SentBlocksTotal && cs.ReceivedCidsTotal() == st.ReceivedBlocksTotal, "every accessor equals the durable record")
		zz.Reach("ChannelState")
	case 1:
		zz.Assert(f.m.TransferChannelStatus(ctx, chid) == st.Status, "status query")
	case 2:
		_ = f.m.OnChannelCompleted(chid, nil)
	case 3:
		_ = f.m.RestartDataTransferChannel(ctx, chid)
	case 4:
		_ = f.m.CloseDataTransferChannel(ctx, chid)
	case 5:
		zz.Assume(st.SelfPeer == st.Responder) // an initiator is refused before any read
		_ = f.m.UpdateValidationStatus(ctx, chid, datatransfer.ValidationResult{Accepted: zz.Bool("accepted")})
	}
	zz.Settle()
	zz.Assert(f.g.GetSyncCalls > before, "the state was read through GetSync (flush before read)")
	zz.Assert(f.g.GetCalls == 0, "the unsynchronised Get is never used")
}

// VerifC06_ListAfterCreate: the channels listed are exactly those that were created (two creations,
// in-process part of the clause; listing after reopen is the datastore's).
func VerifC06_ListedAreCreated() {
	f, _, chid1 := verifInstalled(1, 0)
	m, err := f.m.InProgressChannels(context.Background())
	zz.Assert(err == nil && len(m) == 1, "exactly the stored channel is listed")
	_, ok := m[chid1]
	zz.Assert(ok, "under its own ID")
	zz.Reach("listed")
	_ = datatransfer.ChannelID{}
	_ = channels.VerifNumEvents
}

// VerifC06_CleanupOnRestart: a channel persisted while cleaning up finishes cleanup when it is
// restarted (same body as VerifC10_CleanupOnly; the clause belongs to both properties).
func VerifC06_CleanupOnRestart() { VerifC10_CleanupOnly() }
