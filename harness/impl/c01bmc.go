package impl

import (
	"context"

	"github.com/libp2p/go-libp2p/core/peer"

	datatransfer "github.com/filecoin-project/go-data-transfer/v2"
	zz "github.com/filecoin-project/go-data-transfer/v2/zzverif"
)

// Two-party bounded model checking of the control plane (C01).
//
// Two REAL managers — initiator A and responder B — each with its own model store, joined by
//   * the network: every message handed to a network double is "in flight" and may be delivered
//     to the other manager's receiver in ANY order (libp2p opens one stream per message);
//   * an abstract transport bound by the graphsync contract: the data receiver opens a request
//     that carries a data-transfer message to the data sender; messages attached to the response
//     reach the requester before the requester-side completion; the requester completes without
//     error only after the sender completed in full.
// The scheduler (zz.Choice per step) picks: deliver a message, deliver the request to the sender,
// sender-side completion, requester-side completion, or B's application releasing a finalizing
// channel. Checked after every step:
//     A.Status == Completed  =>  B handed an un-paused Complete to the network
//                                and B.Status is Completing/Completed.

type verifFlight struct {
	toA bool
	msg datatransfer.Message
	ext bool // travels on the graphsync response (ordered before the requester's completion)
}

type verifWorld struct {
	a, b                              *verifMgr
	chid                              datatransfer.ChannelID
	pull                              bool
	flights                           []verifFlight
	netSeenA                          int // messages of a.net.Sent already put in flight
	netSeenB                          int
	reqOpened                         bool // a graphsync request exists
	reqDelivered                      bool
	reqMsg                            datatransfer.Message
	senderDone                        bool
	requesterDone                     bool
	trSeenA                           int
	trSeenB                           int
	senderPaused                      bool
	requesterPaused                   bool
	disturb                           bool // pauses/resumes by either application and one restart by the initiator
	restarts                          int
	pauses                            int
	everSenderDone, everRequesterDone bool
}

func (w *verifWorld) requester() *verifMgr {
	if w.pull {
		return w.a
	}
	return w.b
}

func (w *verifWorld) sender() *verifMgr {
	if w.pull {
		return w.b
	}
	return w.a
}

// collect moves newly sent network messages and newly opened transport requests into the world.
func (w *verifWorld) collect() {
	for ; w.netSeenA < len(w.a.net.Sent); w.netSeenA++ {
		w.flights = append(w.flights, verifFlight{toA: false, msg: w.a.net.Sent[w.netSeenA].Msg})
	}
	for ; w.netSeenB < len(w.b.net.Sent); w.netSeenB++ {
		w.flights = append(w.flights, verifFlight{toA: true, msg: w.b.net.Sent[w.netSeenB].Msg})
	}
	scan := func(m *verifMgr, seen *int, isA bool) {
		for ; *seen < len(m.tr.Calls); *seen++ {
			c := m.tr.Calls[*seen]
			switch c.Op {
			case "open":
				w.reqOpened, w.reqDelivered, w.reqMsg = true, false, c.Msg
				// a (re)opened request starts the transfer over at the transport level
				w.senderDone, w.requesterDone, w.senderPaused, w.requesterPaused = false, false, false, false
			case "pause":
				if m == w.sender() {
					w.senderPaused = true
				} else {
					w.requesterPaused = true
				}
			case "resume":
				if m == w.sender() {
					w.senderPaused = false
				} else {
					w.requesterPaused = false
				}
				if c.Msg != nil {
					// the message travels with the resumed response / request update
					w.flights = append(w.flights, verifFlight{toA: !isA, msg: c.Msg, ext: true})
				}
			}
		}
	}
	scan(w.a, &w.trSeenA, true)
	scan(w.b, &w.trSeenB, false)
}

func (w *verifWorld) deliver(fl verifFlight) {
	ctx := context.Background()
	to, from := w.b, w.a
	if fl.toA {
		to, from = w.a, w.b
	}
	if fl.msg.IsRequest() {
		rq := fl.msg.(datatransfer.Request)
		if rq.IsRestartExistingChannelRequest() {
			to.rcv.ReceiveRestartExistingChannelRequest(ctx, from.m.peerID, rq)
		} else {
			_ = to.rcv.receiveRequest(ctx, from.m.peerID, rq)
		}
	} else {
		_ = to.rcv.receiveResponse(ctx, from.m.peerID, fl.msg.(datatransfer.Response))
	}
}

func (w *verifWorld) pendingExtTo(m *verifMgr) bool {
	for _, f := range w.flights {
		if f.ext && f.toA == (m == w.a) {
			return true
		}
	}
	return false
}

func (w *verifWorld) check() {
	sa := w.a.g.VerifPeek(w.chid)
	if sa == nil || sa.Status != datatransfer.Completed {
		return
	}
	sb := w.b.g.VerifPeek(w.chid)
	zz.Assert(sb != nil, "the initiator completes only a channel the responder accepted")
	final := false
	for _, s := range w.b.net.Sent {
		if r, ok := s.Msg.(datatransfer.Response); ok && r.IsComplete() && !r.IsPaused() {
			final = true
		}
	}
	for _, c := range w.b.tr.Calls {
		if c.Msg == nil {
			continue
		}
		if r, ok := c.Msg.(datatransfer.Response); ok && r.IsComplete() && !r.IsPaused() {
			final = true
		}
	}
	zz.Assert(final, "initiator Completed => the responder has sent its final (un-paused) Complete")
	zz.Assert(sb.Status == datatransfer.Completing || sb.Status == datatransfer.Completed, "initiator Completed => the responder settles in Completed")
	zz.Assert(w.everSenderDone && w.everRequesterDone, "initiator Completed => both transports finished (at least once)")
	zz.Reach("both ends completed")
}

func verifTwoParty(pull bool, steps int, disturb bool) *verifWorld {
	pa, pb := peer.ID(zz.String("A")), peer.ID(zz.String("B"))
	zz.Assume(pa != pb)
	w := &verifWorld{pull: pull, disturb: disturb}
	w.a = verifNewManager(pa)
	w.b = verifNewManager(pb)
	vt := datatransfer.TypeIdentifier(zz.String("vtype"))
	zz.Assert(w.b.m.RegisterVoucherType(vt, w.b.val) == nil, "register")
	w.b.val.Result = datatransfer.ValidationResult{Accepted: true, RequiresFinalization: zz.Bool("requiresFinalization")}
	voucher := datatransfer.TypedVoucher{Voucher: zz.Node("voucher"), Type: vt}
	base := zz.Cid("base")
	zz.Assume(base.Defined())
	ctx := context.Background()
	var err error
	if pull {
		w.chid, err = w.a.m.OpenPullDataChannel(ctx, pb, voucher, base, zz.Node("selector"))
	} else {
		w.chid, err = w.a.m.OpenPushDataChannel(ctx, pb, voucher, base, zz.Node("selector"))
	}
	zz.Assert(err == nil, "open succeeds")
	w.collect()
	for i := 0; i < steps; i++ {
		// enabled actions
		const (
			actDeliver = iota
			actRequest
			actSenderDone
			actRequesterDone
			actRelease
			actPauseA
			actResumeA
			actPauseB
			actResumeB
			actRestartA
		)
		var acts []int
		var arg []int
		for k, fl := range w.flights {
			// the initiator's transport-level messages need an open request to travel on
			if fl.ext && !w.reqDelivered {
				continue
			}
			acts = append(acts, actDeliver)
			arg = append(arg, k)
		}
		if w.reqOpened && !w.reqDelivered {
			acts = append(acts, actRequest)
			arg = append(arg, 0)
		}
		if w.reqDelivered && !w.senderDone && !w.senderPaused && !w.requesterPaused {
			acts = append(acts, actSenderDone)
			arg = append(arg, 0)
		}
		if w.senderDone && !w.requesterDone && !w.pendingExtTo(w.requester()) {
			acts = append(acts, actRequesterDone)
			arg = append(arg, 0)
		}
		if sb := w.b.g.VerifPeek(w.chid); sb != nil && sb.Status == datatransfer.Finalizing {
			acts = append(acts, actRelease)
			arg = append(arg, 0)
		}
		if w.disturb {
			sa := w.a.g.VerifPeek(w.chid)
			live := sa != nil && sa.Status != datatransfer.Completed && sa.Status != datatransfer.Failed && sa.Status != datatransfer.Cancelled
			if live && w.pauses < 1 {
				acts = append(acts, actPauseA, actResumeA, actPauseB, actResumeB)
				arg = append(arg, 0, 0, 0, 0)
			}
			if live && w.restarts < 1 && w.reqDelivered {
				acts = append(acts, actRestartA)
				arg = append(arg, 0)
			}
		}
		if len(acts) == 0 {
			zz.Reach("quiescent")
			break
		}
		k := zz.Choice("step", len(acts))
		switch acts[k] {
		case actDeliver:
			fl := w.flights[arg[k]]
			w.flights = append(append([]verifFlight{}, w.flights[:arg[k]]...), w.flights[arg[k]+1:]...)
			w.deliver(fl)
		case actRequest:
			// the graphsync request reaches the data sender with the message it carries
			w.reqDelivered = true
			s := w.sender()
			if w.reqMsg.IsRequest() {
				resp, herr := s.m.OnRequestReceived(w.chid, w.reqMsg.(datatransfer.Request))
				if resp != nil {
					w.flights = append(w.flights, verifFlight{toA: s != w.a, msg: resp, ext: true})
				}
				if herr == datatransfer.ErrPause {
					w.senderPaused = true
				}
			} else {
				herr := s.m.OnResponseReceived(w.chid, w.reqMsg.(datatransfer.Response))
				if herr == datatransfer.ErrPause {
					w.senderPaused = true
				}
			}
			s.m.OnTransferInitiated(w.chid)
		case actSenderDone:
			w.senderDone, w.everSenderDone = true, true
			_ = w.sender().m.OnChannelCompleted(w.chid, nil)
		case actRequesterDone:
			w.requesterDone, w.everRequesterDone = true, true
			_ = w.requester().m.OnChannelCompleted(w.chid, nil)
		case actRelease:
			_ = w.b.m.UpdateValidationStatus(ctx, w.chid, datatransfer.ValidationResult{Accepted: true})
			zz.Reach("finalization released")
		case actPauseA:
			w.pauses++
			_ = w.a.m.PauseDataTransferChannel(ctx, w.chid)
		case actResumeA:
			w.pauses++
			_ = w.a.m.ResumeDataTransferChannel(ctx, w.chid)
		case actPauseB:
			w.pauses++
			if w.b.g.VerifPeek(w.chid) != nil {
				_ = w.b.m.PauseDataTransferChannel(ctx, w.chid)
			}
		case actResumeB:
			w.pauses++
			if w.b.g.VerifPeek(w.chid) != nil {
				_ = w.b.m.ResumeDataTransferChannel(ctx, w.chid)
			}
		case actRestartA:
			w.restarts++
			_ = w.a.m.RestartDataTransferChannel(ctx, w.chid)
		}
		zz.Settle()
		w.collect()
		w.check()
	}
	sa, sb := w.a.g.VerifPeek(w.chid), w.b.g.VerifPeek(w.chid)
	if sa != nil && sb != nil && sa.Status == datatransfer.Completed && sb.Status == datatransfer.Completed {
		zz.Reach("transfer completed on both ends")
	}
	return w
}

// VerifC01_TwoPartyPush: two-party control plane, push, <= 7 scheduler steps.
//
//verif:opts fuel=60
func VerifC01_TwoPartyPush() { verifTwoParty(false, 7, false) }

// VerifC01_TwoPartyPull: two-party control plane, pull, <= 7 scheduler steps.
//
//verif:opts fuel=60
func VerifC01_TwoPartyPull() { verifTwoParty(true, 7, false) }

// VerifC01_TwoPartyPushDisturbed / PullDisturbed (thorough tier): <= 8 steps with one
// pause/resume action by either application and one restart by the initiator interleaved at any point.
//
//verif:tier thorough
//verif:opts fuel=80 part0=8 part1=2
func VerifC01_TwoPartyPushDisturbed() {
	if w := verifTwoParty(false, 8, true); w.restarts > 0 {
		zz.Reach("restarted")
	}
}

//verif:tier thorough
//verif:opts fuel=80 part0=8 part1=2
func VerifC01_TwoPartyPullDisturbed() {
	if w := verifTwoParty(true, 8, true); w.restarts > 0 {
		zz.Reach("restarted")
	}
}
