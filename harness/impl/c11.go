package impl

import (
	"context"

	datatransfer "github.com/filecoin-project/go-data-transfer/v2"
	"github.com/filecoin-project/go-data-transfer/v2/channels"
	"github.com/filecoin-project/go-data-transfer/v2/message/types"
	zz "github.com/filecoin-project/go-data-transfer/v2/zzverif"
)

// VerifC11_LocalPauseResume: a local pause or resume is applied to the transport and announced to the
// counterparty with a message of the right kind; only the local party's flag changes.
func VerifC11_LocalPauseResume() {
	f, st, chid := verifInstalled(1, 0)
	pre := st
	selfInit := st.SelfPeer == st.Initiator
	other := verifOther(&st)
	pause := zz.Bool("pause")
	var err error
	if pause {
		err = f.m.PauseDataTransferChannel(context.Background(), chid)
	} else {
		err = f.m.ResumeDataTransferChannel(context.Background(), chid)
	}
	_ = err
	zz.Settle()
	post := f.g.VerifPeek(chid)
	if pause {
		zz.Assert(f.tr.countFor("pause", chid) == 1 && f.tr.count("resume") == 0, "pause is applied to the transport")
		zz.Assert(len(f.net.Sent) == 1 && f.net.Sent[0].To == other, "pause is announced to the counterparty")
		msg := f.net.Sent[0].Msg
		zz.Assert(msg.IsRequest() == selfInit && msg.IsUpdate() && msg.IsPaused() && msg.TransferID() == chid.ID, "announcement has the right kind: update(paused) request iff we initiated")
		zz.Reach("paused")
	} else {
		zz.Assert(f.tr.countFor("resume", chid) == 1 && f.tr.count("pause") == 0, "resume is applied to the transport")
		msg := f.tr.Calls[0].Msg
		zz.Assert(msg != nil && msg.IsRequest() == selfInit && msg.IsUpdate() && !msg.IsPaused() && msg.TransferID() == chid.ID, "resume message has the right kind")
		zz.Reach("resumed")
	}
	if selfInit {
		zz.Assert(post.ResponderPaused == pre.ResponderPaused, "local action of the initiator leaves the responder's flag")
		zz.Assert(post.InitiatorPaused == pre.InitiatorPaused || post.InitiatorPaused == pause, "own flag keeps or takes the requested value")
	} else {
		zz.Assert(post.InitiatorPaused == pre.InitiatorPaused, "local action of the responder leaves the initiator's flag")
		zz.Assert(post.ResponderPaused == pre.ResponderPaused || post.ResponderPaused == pause, "own flag keeps or takes the requested value")
	}
	if pre.Status == datatransfer.Ongoing {
		if selfInit {
			zz.Assert(post.InitiatorPaused == pause, "in a transferring status the own flag follows the action")
		} else {
			zz.Assert(post.ResponderPaused == pause, "in a transferring status the own flag follows the action")
		}
		zz.Reach("ongoing")
	}
}

// VerifC11_StayPaused: when the counterparty resumes while the local side is still paused, the
// transport is told to stay paused; when the local side is not paused it is not.
func VerifC11_StayPaused() {
	f, st, chid := verifInstalled(1, 0)
	zz.Assume(!channels.IsChannelTerminated(st.Status) && !channels.IsChannelCleaningUp(st.Status))
	selfInit := st.SelfPeer == st.Initiator
	other := verifOther(&st)
	ctx := context.Background()
	if selfInit {
		resp := verifArbitraryResponse("resp")
		zz.SetInt(&resp.TransferId, uint64(chid.ID))
		zz.Assume(resp.MessageType == uint64(types.UpdateMessage) && !resp.Paused)
		_ = f.rcv.receiveResponse(ctx, other, resp)
	} else {
		req := verifArbitraryRequest("req")
		zz.SetInt(&req.TransferId, uint64(chid.ID))
		zz.Assume(req.MessageType == uint64(types.UpdateMessage) && !req.Pause)
		_ = f.rcv.receiveRequest(ctx, other, req)
	}
	zz.Settle()
	post := f.g.VerifPeek(chid)
	view := channels.VerifView(post)
	if view.SelfPaused() {
		zz.Assert(f.tr.countFor("pause", chid) == 1, "still paused locally: the transport is told to stay paused")
		zz.Reach("stay paused")
	} else {
		zz.Assert(f.tr.count("pause") == 0, "not paused locally: no pause")
		zz.Reach("continue")
	}
	zz.Assert(f.tr.count("open") == 0 && f.tr.count("close") == 0, "a resume opens or closes nothing")
	if selfInit {
		zz.Assert(post.InitiatorPaused == st.InitiatorPaused, "the counterparty's resume never changes our flag")
		if st.Status == datatransfer.Ongoing {
			zz.Assert(!post.ResponderPaused, "the counterparty's resume clears its flag")
		}
	} else {
		zz.Assert(post.ResponderPaused == st.ResponderPaused, "the counterparty's resume never changes our flag")
		if st.Status == datatransfer.Ongoing {
			zz.Assert(!post.InitiatorPaused, "the counterparty's resume clears its flag")
		}
	}
}

// VerifC11_CounterpartyPause: an incoming pause from the counterparty sets the counterparty's flag only.
func VerifC11_CounterpartyPause() {
	f, st, chid := verifInstalled(1, 0)
	zz.Assume(!channels.IsChannelTerminated(st.Status) && !channels.IsChannelCleaningUp(st.Status))
	selfInit := st.SelfPeer == st.Initiator
	other := verifOther(&st)
	ctx := context.Background()
	if selfInit {
		resp := verifArbitraryResponse("resp")
		zz.SetInt(&resp.TransferId, uint64(chid.ID))
		zz.Assume(resp.MessageType == uint64(types.UpdateMessage) && resp.Paused)
		_ = f.rcv.receiveResponse(ctx, other, resp)
	} else {
		req := verifArbitraryRequest("req")
		zz.SetInt(&req.TransferId, uint64(chid.ID))
		zz.Assume(req.MessageType == uint64(types.UpdateMessage) && req.Pause)
		_ = f.rcv.receiveRequest(ctx, other, req)
	}
	zz.Settle()
	post := f.g.VerifPeek(chid)
	if selfInit {
		zz.Assert(post.InitiatorPaused == st.InitiatorPaused, "the counterparty's pause never changes our flag")
		zz.Assert(post.ResponderPaused == st.ResponderPaused || post.ResponderPaused, "the responder's flag is kept or set")
		if st.Status == datatransfer.Ongoing {
			zz.Assert(post.ResponderPaused, "the counterparty's pause sets its flag")
			zz.Reach("responder paused")
		}
	} else {
		zz.Assert(post.ResponderPaused == st.ResponderPaused, "the counterparty's pause never changes our flag")
		zz.Assert(post.InitiatorPaused == st.InitiatorPaused || post.InitiatorPaused, "the initiator's flag is kept or set")
		if st.Status == datatransfer.Ongoing {
			zz.Assert(post.InitiatorPaused, "the counterparty's pause sets its flag")
			zz.Reach("initiator paused")
		}
	}
	zz.Assert(len(f.tr.Calls) == 0, "a counterparty pause does not touch the transport")
}
