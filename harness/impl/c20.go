package impl

import (
	"context"
	"sync"

	"github.com/libp2p/go-libp2p/core/peer"

	datatransfer "github.com/filecoin-project/go-data-transfer/v2"
	"github.com/filecoin-project/go-data-transfer/v2/channels"
	"github.com/filecoin-project/go-data-transfer/v2/message/types"
	zz "github.com/filecoin-project/go-data-transfer/v2/zzverif"
)

// C20 (bounded part): concurrent use of the manager.
//
// Two goroutines each perform one arbitrary operation of the manager's API / callback surface on a
// manager that tracks two channels, under pre-emption at every lock and atomic operation. Decided:
//   * every call returns (the engine reports a violation if all tasks block while the harness waits);
//   * no data race in the library's own code: happens-before race detection (vector clocks over
//     go, mutex, channel, WaitGroup, Once, atomic, context edges) on every load/store/map access
//     the library makes (accesses by harness doubles are not tracked).
// Bound: 2 concurrent operations (thorough: 3), one schedule suffices for a race that is possible
// in any schedule where both accesses occur; <= `sched` scheduling decisions for deadlocks.

const verifNumOps20 = 18

func verifOp20(f *verifMgr, op int, chids [2]datatransfer.ChannelID, label string) {
	ctx := context.Background()
	m := f.m
	chid := chids[0]
	tv := datatransfer.TypedVoucher{Voucher: zz.Node(label + ".v"), Type: "vt2"}
	other := peer.ID("third")
	switch op {
	case 0:
		_, _ = m.OpenPushDataChannel(ctx, other, tv, zz.CidFromAtom("b2"), zz.Node(label+".sel"),
			datatransfer.WithSubscriber(func(datatransfer.Event, datatransfer.ChannelState) {}))
	case 1:
		_, _ = m.OpenPullDataChannel(ctx, other, tv, zz.CidFromAtom("b2"), zz.Node(label+".sel"),
			datatransfer.WithSubscriber(func(datatransfer.Event, datatransfer.ChannelState) {}))
	case 2:
		_ = m.CloseDataTransferChannel(ctx, chid)
	case 3:
		_ = m.PauseDataTransferChannel(ctx, chid)
	case 4:
		_ = m.ResumeDataTransferChannel(ctx, chid)
	case 5:
		_ = m.RestartDataTransferChannel(ctx, chid)
	case 6:
		_ = m.SendVoucher(ctx, chid, tv)
	case 7:
		_, _ = m.ChannelState(ctx, chids[1])
	case 8:
		_, _ = m.InProgressChannels(ctx)
	case 9:
		unsub := m.SubscribeToEvents(func(datatransfer.Event, datatransfer.ChannelState) {})
		unsub()
	case 10:
		_ = m.RegisterVoucherType(tv.Type, f.val)
	case 11:
		_ = m.RegisterTransportConfigurer(tv.Type, func(datatransfer.ChannelID, datatransfer.TypedVoucher) []datatransfer.TransportOption { return nil })
	case 12:
		_ = m.OnDataReceived(chid, verifLink(label+".l"), zz.Uint64(label+".size"), zz.Int64(label+".idx"), true)
	case 13:
		_, _ = m.OnDataQueued(chids[1], verifLink(label+".l"), zz.Uint64(label+".size"), zz.Int64(label+".idx"), true)
	case 14:
		_ = m.OnChannelCompleted(chid, nil)
	case 15:
		req := verifScalarRequest(label + ".req")
		zz.Assume(req.MessageType == uint64(types.NewMessage))
		req.VoucherTypeIdentifier = "vt2"
		zz.SetInt(&req.TransferId, 77)
		base := zz.CidFromAtom("b3")
		req.BaseCidPtr = &base
		req.SelectorPtr = zz.Node(label + ".rsel")
		req.VoucherPtr = zz.Node(label + ".rv")
		_ = f.rcv.receiveRequest(ctx, other, req)
	case 16:
		_ = m.UpdateValidationStatus(ctx, chids[1], datatransfer.ValidationResult{Accepted: true, DataLimit: zz.Uint64(label + ".limit")})
	case 17:
		_ = m.CloseDataTransferChannelWithError(ctx, chids[1], zz.Error(label+".err"))
	}
}

// verifConcreteTwoChannels: races and deadlocks do not depend on the data, so the fixture is
// concrete: channel 0 is a push we initiated, channel 1 a pull we received; both are Ongoing.
func verifConcreteTwoChannels() (*verifMgr, [2]datatransfer.ChannelID) {
	self, other := peer.ID("self"), peer.ID("other")
	f := verifNewManager(self)
	mk := func(init, resp, sender, recip peer.ID, tid uint64) datatransfer.ChannelID {
		var st channels.VerifRecord
		st.SelfPeer, st.Initiator, st.Responder, st.Sender, st.Recipient = self, init, resp, sender, recip
		st.TransferID = datatransfer.TransferID(tid)
		st.Status = datatransfer.Ongoing
		st.BaseCid = zz.CidFromAtom("base")
		st.Vouchers = []channels.VerifVoucher{channels.VerifMakeVoucher("vt", zz.Node("v0"))}
		st.Stages = &datatransfer.ChannelStages{}
		chid := channels.VerifChid(&st)
		f.g.VerifInstall(chid, &st)
		return chid
	}
	c0 := mk(self, other, self, other, 1)
	c1 := mk(other, self, self, other, 2)
	// both transfers have moved data already: the block-index and progress caches hold entries
	// for them (a cold cache serialises the first report behind the write lock)
	_, _ = f.m.OnDataQueued(c0, verifLink("warm.l0"), 10, 1, true)
	_ = f.m.OnDataSent(c0, verifLink("warm.l0"), 10, 1, true)
	_, _ = f.m.OnDataQueued(c1, verifLink("warm.l1"), 10, 1, true)
	_ = f.m.OnDataSent(c1, verifLink("warm.l1"), 10, 1, true)
	return f, [2]datatransfer.ChannelID{c0, c1}
}

func verifConcurrent20(n int, menu ...int) {
	f, chids := verifConcreteTwoChannels()
	ops := make([]int, n)
	for i := range ops {
		if len(menu) > 0 {
			ops[i] = menu[zz.Choice("op", len(menu))]
		} else {
			ops[i] = zz.Choice("op", verifNumOps20)
		}
	}
	var wg sync.WaitGroup
	for i := range ops {
		i := i
		wg.Add(1)
		go func() {
			defer wg.Done()
			verifOp20(f, ops[i], chids, "t")
		}()
	}
	wg.Wait()
	zz.Settle()
	zz.Reach("all calls returned")
}

// VerifC20_ConcurrentAPI: two concurrent operations.
//
//verif:opts race preempt=sync pb=1 sched=3 part0=8 part1=2 novalidate
func VerifC20_ConcurrentAPI() { verifConcurrent20(2) }

// VerifC20_StopWhileActive: stopping the manager while an operation is in flight returns.
//
//verif:opts race preempt=sync pb=1 sched=3 novalidate
func VerifC20_StopWhileActive() {
	f, chids := verifConcreteTwoChannels()
	op := zz.Choice("op", verifNumOps20)
	var wg sync.WaitGroup
	wg.Add(2)
	go func() { defer wg.Done(); verifOp20(f, op, chids, "t") }()
	go func() { defer wg.Done(); _ = f.m.Stop(context.Background()) }()
	wg.Wait()
	zz.Settle()
	zz.Reach("stop returned")
}

// VerifC20_ReentrantSubscriber: a subscriber that, from inside the callback, queries channel state,
// sends vouchers / voucher results / validation updates, or pauses, resumes or closes channels,
// while the triggering call is still in progress: every call returns.
//
//verif:opts race preempt=sync pb=1 sched=2 novalidate
func VerifC20_ReentrantSubscriber() {
	f, chids := verifConcreteTwoChannels()
	inner := zz.Choice("inner", 8)
	fired := false
	f.m.SubscribeToEvents(func(evt datatransfer.Event, st datatransfer.ChannelState) {
		if fired {
			return
		}
		fired = true
		ctx := context.Background()
		id := st.ChannelID()
		tv := datatransfer.TypedVoucher{Voucher: zz.Node("cb.v"), Type: datatransfer.TypeIdentifier(zz.String("cb.vt"))}
		switch inner {
		case 0:
			_, _ = f.m.ChannelState(ctx, id)
		case 1:
			_ = f.m.SendVoucher(ctx, id, tv)
		case 2:
			_ = f.m.SendVoucherResult(ctx, id, tv)
		case 3:
			_ = f.m.UpdateValidationStatus(ctx, id, datatransfer.ValidationResult{Accepted: true})
		case 4:
			_ = f.m.PauseDataTransferChannel(ctx, id)
		case 5:
			_ = f.m.ResumeDataTransferChannel(ctx, id)
		case 6:
			_ = f.m.CloseDataTransferChannel(ctx, id)
		case 7:
			_, _ = f.m.InProgressChannels(ctx)
		}
		zz.Reach("re-entrant call returned")
	})
	verifOp20(f, zz.Choice("op", verifNumOps20), chids, "t")
	zz.Settle()
	zz.Reach("outer call returned")
}

// VerifC20_ConcurrentAPIDeep: two concurrent operations out of the seven that touch the shared
// tables most (open push, close, restart, subscribe/unsubscribe, block queued, new incoming
// request, validation update) with TWO pre-emptions per path.
//
//verif:tier thorough
//verif:opts race preempt=sync pb=2 sched=3 part0=7 part1=1 novalidate
func VerifC20_ConcurrentAPIDeep() { verifConcurrent20(2, 0, 2, 5, 9, 13, 15, 16) }
