package impl

import (
	"context"

	"github.com/libp2p/go-libp2p/core/peer"

	datatransfer "github.com/filecoin-project/go-data-transfer/v2"
	"github.com/filecoin-project/go-data-transfer/v2/channels"
	"github.com/filecoin-project/go-data-transfer/v2/message/types"
	zz "github.com/filecoin-project/go-data-transfer/v2/zzverif"
)

// verifTwoChannels: a manager whose store holds two arbitrary channels with distinct IDs
// (transfer IDs and peers may coincide otherwise).
func verifTwoChannels() (*verifMgr, [2]channels.VerifRecord, [2]datatransfer.ChannelID) {
	f, st1, chid1 := verifInstalled(1, 0)
	st2 := channels.VerifArbitraryRecord("st2", 1, 0, false)
	self := st1.SelfPeer
	other2 := peer.ID(zz.String("other2"))
	zz.Assume(other2 != self)
	selfInit2 := zz.Bool("st2.selfIsInitiator")
	pull2 := zz.Bool("st2.isPull")
	st2.SelfPeer = self
	st2.Initiator = zz.Ite(selfInit2, self, other2)
	st2.Responder = zz.Ite(selfInit2, other2, self)
	st2.Recipient = zz.Ite(pull2, st2.Initiator, st2.Responder)
	st2.Sender = zz.Ite(pull2, st2.Responder, st2.Initiator)
	chid2 := channels.VerifChid(&st2)
	zz.Assume(chid1 != chid2)
	f.g.VerifInstall(chid2, &st2)
	return f, [2]channels.VerifRecord{st1, st2}, [2]datatransfer.ChannelID{chid1, chid2}
}

// VerifC05_NonInterference: an arbitrary message (request or response, any kind, any transfer ID —
// including IDs that collide with existing channels) from an arbitrary sender (counterparty,
// stranger or self). Every existing channel that the message is not addressed to — i.e. whose ID is
// not (sender, self, tid) for a request / (self, sender, tid) for a response, IDs being built
// from the authenticated sender, never from message content — keeps its durable state, sees no
// event and no transport call.
func VerifC05_NonInterference() {
	f, st, chids := verifTwoChannels()
	self := f.m.peerID
	sender := peer.ID(zz.String("sender"))
	ctx := context.Background()
	var addressed datatransfer.ChannelID
	if zz.Bool("isRequest") {
		req := verifArbitraryRequest("req")
		zz.Assume(req.MessageType <= uint64(types.RestartExistingChannelRequestMessage))
		addressed = datatransfer.ChannelID{Initiator: sender, Responder: self, ID: datatransfer.TransferID(req.TransferId)}
		_ = f.rcv.receiveRequest(ctx, sender, req)
		zz.Reach("request")
	} else {
		resp := verifArbitraryResponse("resp")
		zz.Assume(resp.MessageType <= uint64(types.RestartExistingChannelRequestMessage))
		addressed = datatransfer.ChannelID{Initiator: self, Responder: sender, ID: datatransfer.TransferID(resp.TransferId)}
		_ = f.rcv.receiveResponse(ctx, sender, resp)
		zz.Reach("response")
	}
	zz.Settle()
	for i := 0; i < 2; i++ {
		if chids[i] == addressed {
			zz.Reach("addressed to an existing channel")
			continue
		}
		post := f.g.VerifPeek(chids[i])
		zz.Assert(post != nil && channels.VerifSameRecord(&st[i], post), "a channel the message is not addressed to keeps its durable state")
		for _, e := range f.events {
			zz.Assert(e.State.ChannelID() != chids[i], "and sees no event")
		}
		for _, c := range f.tr.Calls {
			zz.Assert(c.Chid != chids[i], "and no transport call")
		}
	}
}

// VerifC05_RestartHonoured: a restart request is honoured (accepted reply) only when it comes
// from the initiator of a non-terminated channel and repeats the original base CID, voucher type
// and voucher. Single-field mutations of an otherwise valid request are refused.
func VerifC05_RestartHonoured() {
	f, st, chid := verifInstalled(1+zz.Choice("laterVouchers", 2), 0)
	zz.Assume(st.SelfPeer == st.Responder)
	zz.Assume(!channels.IsChannelCleaningUp(st.Status))
	zz.Assert(f.m.RegisterVoucherType(st.Vouchers[0].Type, f.val) == nil, "register")
	f.val.Result = datatransfer.ValidationResult{Accepted: true}
	req := verifArbitraryRequest("req")
	zz.Assume(req.MessageType == uint64(types.RestartMessage))
	zz.SetInt(&req.TransferId, uint64(chid.ID))
	sender := chid.Initiator
	pre := st
	_ = f.rcv.receiveRequest(context.Background(), sender, req)
	zz.Settle()
	replies, _ := verifReplies(f)
	zz.Assert(len(replies) == 1, "one reply")
	matches := !channels.IsChannelTerminated(pre.Status) &&
		req.BaseCidPtr != nil && *req.BaseCidPtr == pre.BaseCid &&
		req.VoucherPtr != nil && req.VoucherTypeIdentifier == pre.Vouchers[0].Type && req.VoucherPtr == pre.Vouchers[0].Voucher.Node
	if req.BaseCidPtr == nil {
		// a missing base CID reads as cid.Undef
		matches = !channels.IsChannelTerminated(pre.Status) && !pre.BaseCid.Defined() &&
			req.VoucherPtr != nil && req.VoucherTypeIdentifier == pre.Vouchers[0].Type && req.VoucherPtr == pre.Vouchers[0].Voucher.Node
	}
	zz.Assert(replies[0].Accepted() == matches, "honoured exactly when it repeats the original base CID, voucher type and voucher of a live channel")
	restarted := false
	for _, e := range f.events {
		if e.Code == datatransfer.Restart {
			restarted = true
		}
	}
	zz.Assert(restarted == matches, "the Restart event is recorded exactly when honoured")
	if matches {
		zz.Reach("honoured")
	} else {
		zz.Assert(f.tr.count("open") == 0, "refused: no transport request")
		zz.Reach("refused")
	}
}

// VerifC05_RestartWrongSender: a restart request whose sender is not the channel's initiator is
// addressed to a different channel ID and therefore cannot restart this one (see NonInterference);
// a restart request received by the channel's initiator itself is refused.
func VerifC05_RestartAtInitiator() {
	f, st, chid := verifInstalled(1, 0)
	zz.Assume(st.SelfPeer == st.Initiator)
	req := verifArbitraryRequest("req")
	zz.Assume(req.MessageType == uint64(types.RestartMessage))
	zz.SetInt(&req.TransferId, uint64(chid.ID))
	pre := st
	// the only way a request can address (I=self,...) is if the sender claims to be us
	_ = f.rcv.receiveRequest(context.Background(), st.SelfPeer, req)
	zz.Settle()
	post := f.g.VerifPeek(chid)
	zz.Assert(channels.VerifSameRecord(&pre, post), "untouched")
	replies, _ := verifReplies(f)
	for _, r := range replies {
		zz.Assert(!r.Accepted(), "refused")
	}
	zz.Reach("refused")
}

// VerifC05_RestartExisting: a restart-existing-channel request is acted on only when the receiver
// initiated the channel, the sender is its counterparty and the channel is not terminated.
func VerifC05_RestartExisting() {
	f, st, chid := verifInstalled(1, 0)
	zz.Assume(!channels.IsChannelCleaningUp(st.Status))
	// channels we initiated always have a defined base CID (OpenPush/PullDataChannel refuse cid.Undef)
	zz.Assume(st.SelfPeer != st.Initiator || st.BaseCid.Defined())
	sender := peer.ID(zz.String("sender"))
	req := verifArbitraryRequest("req")
	zz.Assume(req.MessageType == uint64(types.RestartExistingChannelRequestMessage))
	pre := st
	f.rcv.ReceiveRestartExistingChannelRequest(context.Background(), sender, req)
	zz.Settle()
	acted := len(f.net.Sent) > 0 || len(f.tr.Calls) > 0
	legit := req.RestartChannel == chid && st.SelfPeer == st.Initiator && sender == st.Responder && !channels.IsChannelTerminated(st.Status)
	zz.Assert(acted == legit, "acted on exactly when we initiated the named channel, the sender is its counterparty and it is live")
	post := f.g.VerifPeek(chid)
	zz.Assert(channels.VerifSameRecord(&pre, post), "the record itself is not changed by the request")
	if acted {
		zz.Reach("acted")
	} else {
		zz.Reach("ignored")
	}
}

// VerifC05_LocalRoleChecks: only the initiator may send vouchers, only the responder voucher
// results and validation updates; a refused call sends and records nothing.
func VerifC05_LocalRoleChecks() {
	f, st, chid := verifInstalled(1, 0)
	zz.Assume(!channels.IsChannelTerminated(st.Status) && !channels.IsChannelCleaningUp(st.Status))
	selfInit := st.SelfPeer == st.Initiator
	pre := st
	ctx := context.Background()
	tv := datatransfer.TypedVoucher{Voucher: zz.Node("v"), Type: datatransfer.TypeIdentifier(zz.String("vt"))}
	var err error
	var needInit bool
	switch zz.Choice("api", 3) {
	case 0:
		err = f.m.SendVoucher(ctx, chid, tv)
		needInit = true
	case 1:
		err = f.m.SendVoucherResult(ctx, chid, tv)
	case 2:
		err = f.m.UpdateValidationStatus(ctx, chid, datatransfer.ValidationResult{Accepted: true})
	}
	zz.Settle()
	allowed := selfInit == needInit
	if !allowed {
		zz.Assert(err != nil, "wrong role is refused")
		post := f.g.VerifPeek(chid)
		zz.Assert(channels.VerifSameRecord(&pre, post) && len(f.net.Sent) == 0 && len(f.tr.Calls) == 0 && len(f.events) == 0, "a refused call sends and records nothing")
		zz.Reach("refused")
	} else {
		zz.Assert(err == nil, "right role succeeds")
		zz.Reach("allowed")
	}
}
