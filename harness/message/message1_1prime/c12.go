package message1_1

// C12 — "Wire format is lossless, stable and safe to decode".
//
// Scope of what is DECIDED here (everything the repository itself computes around the codec):
//   - every constructor of message.go yields a message whose accessors return exactly the
//     constructor arguments and which is classified as exactly its kind (VerifC12_Constructors);
//   - the kind predicates of an ARBITRARY decoded request/response partition the message types,
//     with the published numbers 0..7 (VerifC12_KindPartition);
//   - the acceptance bit of a validation response (VerifC12_AcceptanceBit);
//   - FromNet / FromIPLD never hand out a message with a missing body and never panic, whatever
//     the dependency's decoder produced (VerifC12_MissingBody).
//
// OUTSIDE the claim (not encodable: reflection-driven bindnode + dagcbor in go-ipld-prime):
// the byte-level encode/decode itself, i.e. that the bytes are the DAG-CBOR map of the published
// schema, that maps in any key order decode to the same struct, and that the bindnode decoder does
// not panic on arbitrary bytes. The decoder is replaced by verifTypeFromReader/verifTypeFromNode,
// whose contract is the dependency's documented one: it returns an error, or a non-nil
// *TransferMessage1_1 in which IsRequest, Request (nullable) and Response (nullable) are arbitrary.

import (
	"bytes"
	"io"
	"strings"

	"github.com/ipfs/go-cid"
	"github.com/ipld/go-ipld-prime"
	"github.com/ipld/go-ipld-prime/codec"
	"github.com/ipld/go-ipld-prime/datamodel"
	bindnoderegistry "github.com/ipld/go-ipld-prime/node/bindnode/registry"
	"github.com/libp2p/go-libp2p/core/peer"

	datatransfer "github.com/filecoin-project/go-data-transfer/v2"
	"github.com/filecoin-project/go-data-transfer/v2/message/types"
	zz "github.com/filecoin-project/go-data-transfer/v2/zzverif"
)

// ---- decoder seam ------------------------------------------------------------------------------

//verif:stub (github.com/ipld/go-ipld-prime/node/bindnode/registry.BindnodeRegistry).TypeFromReader verifTypeFromReader
//verif:stub (github.com/ipld/go-ipld-prime/node/bindnode/registry.BindnodeRegistry).TypeFromNode verifTypeFromNode
//verif:native-rewrite message/message1_1prime/message.go bindnodeRegistry.TypeFromReader( => verifReaderSeam(bindnodeRegistry)(
//verif:native-rewrite message/message1_1prime/message.go bindnodeRegistry.TypeFromNode( => verifNodeSeam(bindnodeRegistry)(

// verifStubDecode switches the native seam to the stub decoder (the engine always uses the stub).
var verifStubDecode bool

// VerifStubDecode lets harnesses of other packages (graphsync extension) enable the stub decoder natively.
func VerifStubDecode(on bool) {
	verifStubDecode = on
	VerifDecodeBudget = 0
	VerifDecodedNodes = nil
	VerifDecodeCalls = 0
	VerifLastDecoded = nil
}

// VerifDecodeBudget, when > 0, makes the stub decoder fail after that many calls (bounded streams).
var VerifDecodeBudget int

// ghost log of the stub decoder
var (
	VerifDecodeCalls   int
	VerifDecodedNodes  []datamodel.Node    // argument of every TypeFromNode call
	VerifLastDecoded   *TransferMessage1_1 // what the last successful decode produced
	VerifLastDecodeErr error
)

func verifReaderSeam(br bindnoderegistry.BindnodeRegistry) func(io.Reader, interface{}, codec.Decoder) (interface{}, error) {
	if verifStubDecode {
		return func(r io.Reader, p interface{}, d codec.Decoder) (interface{}, error) {
			return verifTypeFromReader(br, r, p, d)
		}
	}
	return br.TypeFromReader
}

func verifNodeSeam(br bindnoderegistry.BindnodeRegistry) func(datamodel.Node, interface{}) (interface{}, error) {
	if verifStubDecode {
		return func(n datamodel.Node, p interface{}) (interface{}, error) { return verifTypeFromNode(br, n, p) }
	}
	return br.TypeFromNode
}

// verifDecoded is the decoder contract: an error, or a non-nil *TransferMessage1_1 whose three
// schema fields (IsRq Bool, Request nullable, Response nullable) are arbitrary.
func verifDecoded() (interface{}, error) {
	VerifDecodeCalls++
	VerifLastDecoded, VerifLastDecodeErr = nil, nil
	if VerifDecodeBudget > 0 && VerifDecodeCalls > VerifDecodeBudget {
		VerifLastDecodeErr = zz.Error("decode.end")
		return nil, VerifLastDecodeErr
	}
	if zz.Bool("decode.fails") {
		VerifLastDecodeErr = zz.Error("decode.err")
		return nil, VerifLastDecodeErr
	}
	tm := &TransferMessage1_1{IsRequest: zz.Bool("decode.IsRequest")}
	if zz.Bool("decode.hasRequest") {
		tm.Request = verifArbitraryDecodedRequest("decode.Request")
	}
	if zz.Bool("decode.hasResponse") {
		tm.Response = verifArbitraryDecodedResponse("decode.Response")
	}
	VerifLastDecoded = tm
	return tm, nil
}

func verifTypeFromReader(br bindnoderegistry.BindnodeRegistry, r io.Reader, ptrValue interface{}, decoder codec.Decoder) (interface{}, error) {
	_, ok := ptrValue.(*TransferMessage1_1)
	zz.Assert(ok, "the decoder is asked for a TransferMessage1_1")
	return verifDecoded()
}

func verifTypeFromNode(br bindnoderegistry.BindnodeRegistry, node datamodel.Node, ptrValue interface{}) (interface{}, error) {
	_, ok := ptrValue.(*TransferMessage1_1)
	zz.Assert(ok, "the decoder is asked for a TransferMessage1_1")
	VerifDecodedNodes = append(VerifDecodedNodes, node)
	return verifDecoded()
}

func verifArbitraryDecodedRequest(label string) *TransferRequest1_1 {
	r := &TransferRequest1_1{}
	zz.Symbolic(r, label)
	return r
}

func verifArbitraryDecodedResponse(label string) *TransferResponse1_1 {
	r := &TransferResponse1_1{}
	zz.Symbolic(r, label)
	return r
}

// verifReader is an io.Reader nobody reads from (the decoder is stubbed).
type verifReader struct{}

func (verifReader) Read(p []byte) (int, error) { return 0, io.EOF }

// ---- argument generators -----------------------------------------------------------------------

// verifVoucherArg: nil, a typed voucher holding an arbitrary non-null node, or (shape 2) a typed
// voucher without a node.
func verifVoucherArg(label string) *datatransfer.TypedVoucher {
	switch zz.Choice(label+".shape", 3) {
	case 0:
		return nil
	case 1:
		return &datatransfer.TypedVoucher{Voucher: zz.Node(label + ".node"), Type: datatransfer.TypeIdentifier(zz.String(label + ".type"))}
	}
	return &datatransfer.TypedVoucher{Type: datatransfer.TypeIdentifier(zz.String(label + ".type"))}
}

// verifVoucherCarried: (typ, node, err) read back from a message are exactly the argument.
func verifVoucherCarried(arg *datatransfer.TypedVoucher, typ datatransfer.TypeIdentifier, empty bool, n datamodel.Node, err error) bool {
	if arg == nil {
		// nil voucher: the empty type identifier and the IPLD null node
		return typ == datatransfer.EmptyTypeIdentifier && empty && err == nil && n == ipld.Null
	}
	if typ != arg.Type || empty != (arg.Type == datatransfer.EmptyTypeIdentifier) {
		return false
	}
	if arg.Voucher == nil {
		return err != nil && n == nil // a missing node is reported, not invented
	}
	return err == nil && n == arg.Voucher
}

// ---- kind classification -----------------------------------------------------------------------

// verifRequestKindIs: r answers the kind predicates exactly like a request of type k
// (IsVoucher is documented to hold for both New and Voucher requests).
func verifRequestKindIs(r datatransfer.Request, k types.MessageType) bool {
	return r.IsRequest() &&
		r.IsNew() == (k == types.NewMessage) &&
		r.IsUpdate() == (k == types.UpdateMessage) &&
		r.IsCancel() == (k == types.CancelMessage) &&
		r.IsRestart() == (k == types.RestartMessage) &&
		r.IsRestartExistingChannelRequest() == (k == types.RestartExistingChannelRequestMessage) &&
		r.IsVoucher() == (k == types.VoucherMessage || k == types.NewMessage)
}

// verifResponseKindIs: r answers the kind predicates exactly like a response of type k
// (IsValidationResult is documented to cover VoucherResult, New, Complete and Restart).
func verifResponseKindIs(r datatransfer.Response, k types.MessageType) bool {
	return !r.IsRequest() &&
		r.IsNew() == (k == types.NewMessage) &&
		r.IsUpdate() == (k == types.UpdateMessage) &&
		r.IsCancel() == (k == types.CancelMessage) &&
		r.IsRestart() == (k == types.RestartMessage) &&
		r.IsComplete() == (k == types.CompleteMessage) &&
		r.IsValidationResult() == (k == types.VoucherResultMessage || k == types.NewMessage || k == types.CompleteMessage || k == types.RestartMessage)
}

func verifB(b bool) int {
	if b {
		return 1
	}
	return 0
}

// verifRequestKinds counts the kinds a request claims (voucher-only = IsVoucher but not IsNew).
func verifRequestKinds(r datatransfer.Request) int {
	return verifB(r.IsNew()) + verifB(r.IsUpdate()) + verifB(r.IsCancel()) + verifB(r.IsRestart()) +
		verifB(r.IsRestartExistingChannelRequest()) + verifB(r.IsVoucher() && !r.IsNew())
}

// verifResponseKinds counts the kinds a response claims (voucher-result-only = a validation result
// that is none of New / Complete / Restart).
func verifResponseKinds(r datatransfer.Response) int {
	return verifB(r.IsNew()) + verifB(r.IsUpdate()) + verifB(r.IsCancel()) + verifB(r.IsRestart()) + verifB(r.IsComplete()) +
		verifB(r.IsValidationResult() && !r.IsNew() && !r.IsComplete() && !r.IsRestart())
}

// ---- (a) constructors ---------------------------------------------------------------------------

// verifRequestRest: the fields a constructor was NOT given stay empty.
type verifReqExpect struct {
	kind       types.MessageType
	id         datatransfer.TransferID
	pull       bool
	paused     bool
	base       cid.Cid
	selector   datamodel.Node // nil: none
	voucher    *datatransfer.TypedVoucher
	hasVoucher bool // the constructor takes a voucher argument at all
	restart    datatransfer.ChannelID
}

func verifCheckRequest(r datatransfer.Request, e verifReqExpect) {
	zz.Assert(r != nil, "constructor returns a message")
	zz.Assert(verifRequestKindIs(r, e.kind), "request lands in exactly its kind")
	zz.Assert(verifRequestKinds(r) == 1, "request is classified as exactly one kind")
	zz.Assert(r.TransferID() == e.id, "transfer ID intact over the full uint64 range")
	if tr, ok := r.(*TransferRequest1_1); ok {
		// bindnode encodes by Go kind: a signed field would put IDs >= 2^63 on the wire as negative
		// integers, which the published schema binding (unsigned) rejects
		zz.Assert(zz.TypeName(tr.TransferId) == "uint64", "the wire struct carries the transfer ID as an unsigned 64-bit integer")
	}
	zz.Assert(r.IsPull() == e.pull && r.IsPaused() == e.paused, "flags intact")
	zz.Assert(r.BaseCid() == e.base, "base CID intact")
	sel, serr := r.Selector()
	if e.selector == nil {
		zz.Assert(sel == nil && serr != nil, "no selector: reported, not invented")
	} else {
		zz.Assert(serr == nil && sel == e.selector, "selector intact")
	}
	n, verr := r.Voucher()
	tr, _ := r.(*TransferRequest1_1)
	zz.Assert(tr != nil, "request is the 1.1 request type")
	if e.hasVoucher {
		zz.Assert(verifVoucherCarried(e.voucher, r.VoucherType(), tr.EmptyVoucher(), n, verr), "voucher and type identifier intact")
		tv, tverr := r.TypedVoucher()
		zz.Assert((tverr == nil) == (verr == nil) && (tverr != nil || (tv.Voucher == n && tv.Type == r.VoucherType())), "TypedVoucher agrees with Voucher and VoucherType")
	} else {
		zz.Assert(n == nil && verr != nil && r.VoucherType() == datatransfer.EmptyTypeIdentifier && tr.EmptyVoucher(), "no voucher: reported, not invented")
	}
	rc, rerr := r.RestartChannelId()
	if e.kind == types.RestartExistingChannelRequestMessage {
		zz.Assert(rerr == nil && rc == e.restart, "restart channel ID intact")
	} else {
		zz.Assert(rerr != nil && rc == (datatransfer.ChannelID{}), "only a restart-existing-channel request carries a channel ID")
	}
	zz.Assert(!tr.IsPartial(), "partial flag is never set by a constructor")
	same, perr := r.MessageForProtocol(datatransfer.ProtocolDataTransfer1_2)
	zz.Assert(perr == nil && same == datatransfer.Message(r), "the message is its own 1.2 protocol form")
}

type verifRespExpect struct {
	kind      types.MessageType
	id        datatransfer.TransferID
	accepted  bool
	paused    bool
	result    *datatransfer.TypedVoucher
	hasResult bool
}

func verifCheckResponse(r datatransfer.Response, e verifRespExpect) {
	zz.Assert(r != nil, "constructor returns a message")
	zz.Assert(verifResponseKindIs(r, e.kind), "response lands in exactly its kind")
	zz.Assert(verifResponseKinds(r) == 1, "response is classified as exactly one kind")
	zz.Assert(r.TransferID() == e.id, "transfer ID intact over the full uint64 range")
	if tr, ok := r.(*TransferResponse1_1); ok {
		zz.Assert(zz.TypeName(tr.TransferId) == "uint64", "the wire struct carries the transfer ID as an unsigned 64-bit integer")
	}
	zz.Assert(r.Accepted() == e.accepted && r.IsPaused() == e.paused, "flags intact")
	n, verr := r.VoucherResult()
	if e.hasResult {
		zz.Assert(verifVoucherCarried(e.result, r.VoucherResultType(), r.EmptyVoucherResult(), n, verr), "voucher result and type identifier intact")
	} else {
		zz.Assert(n == nil && verr != nil && r.VoucherResultType() == datatransfer.EmptyTypeIdentifier && r.EmptyVoucherResult(), "no voucher result: reported, not invented")
	}
	same, perr := r.MessageForProtocol(datatransfer.ProtocolDataTransfer1_2)
	zz.Assert(perr == nil && same == datatransfer.Message(r), "the message is its own 1.2 protocol form")
}

// VerifC12_Constructors: every constructor of message.go, arbitrary arguments (transfer ID over the
// whole uint64 range, every flag, any CID, any selector/voucher node, nil or non-nil voucher pointer).
func VerifC12_Constructors() {
	id := datatransfer.TransferID(zz.Uint64("id"))
	switch zz.Choice("ctor", 12) {
	case 0: // NewRequest (new or restart)
		isRestart, isPull := zz.Bool("isRestart"), zz.Bool("isPull")
		v := verifVoucherArg("voucher")
		base := zz.Cid("base")
		var sel datamodel.Node
		if zz.Bool("hasSelector") {
			sel = zz.Node("selector")
		}
		r, err := NewRequest(id, isRestart, isPull, v, base, sel)
		if base == cid.Undef {
			zz.Assert(err != nil && r == nil, "an undefined base CID is refused")
			zz.Reach("NewRequest refused: undefined base CID")
			return
		}
		zz.Assert(err == nil, "NewRequest succeeds with a defined base CID")
		kind := types.NewMessage
		if isRestart {
			kind = types.RestartMessage
			zz.Reach("NewRequest restart")
		}
		verifCheckRequest(r, verifReqExpect{kind: kind, id: id, pull: isPull, base: base, selector: sel, voucher: v, hasVoucher: true})
		if v == nil {
			zz.Reach("NewRequest nil voucher")
		} else if v.Voucher != nil {
			zz.Reach("NewRequest with voucher")
		}
	case 1:
		var chid datatransfer.ChannelID
		zz.Symbolic(&chid, "chid")
		r := RestartExistingChannelRequest(chid)
		verifCheckRequest(r, verifReqExpect{kind: types.RestartExistingChannelRequestMessage, base: cid.Undef, restart: chid})
		zz.Reach("RestartExistingChannelRequest")
	case 2:
		verifCheckRequest(CancelRequest(id), verifReqExpect{kind: types.CancelMessage, id: id, base: cid.Undef})
		zz.Reach("CancelRequest")
	case 3:
		p := zz.Bool("isPaused")
		verifCheckRequest(UpdateRequest(id, p), verifReqExpect{kind: types.UpdateMessage, id: id, paused: p, base: cid.Undef})
		zz.Reach("UpdateRequest")
	case 4:
		v := verifVoucherArg("voucher")
		r, err := VoucherRequest(id, v)
		zz.Assert(err == nil, "VoucherRequest succeeds")
		verifCheckRequest(r, verifReqExpect{kind: types.VoucherMessage, id: id, base: cid.Undef, voucher: v, hasVoucher: true})
		zz.Reach("VoucherRequest")
	case 5:
		a, p, v := zz.Bool("accepted"), zz.Bool("isPaused"), verifVoucherArg("result")
		r, err := RestartResponse(id, a, p, v)
		zz.Assert(err == nil, "RestartResponse succeeds")
		verifCheckResponse(r, verifRespExpect{kind: types.RestartMessage, id: id, accepted: a, paused: p, result: v, hasResult: true})
		zz.Reach("RestartResponse")
	case 6:
		a, p, v := zz.Bool("accepted"), zz.Bool("isPaused"), verifVoucherArg("result")
		r, err := NewResponse(id, a, p, v)
		zz.Assert(err == nil, "NewResponse succeeds")
		verifCheckResponse(r, verifRespExpect{kind: types.NewMessage, id: id, accepted: a, paused: p, result: v, hasResult: true})
		zz.Reach("NewResponse")
	case 7:
		a, p, v := zz.Bool("accepted"), zz.Bool("isPaused"), verifVoucherArg("result")
		r, err := VoucherResultResponse(id, a, p, v)
		zz.Assert(err == nil, "VoucherResultResponse succeeds")
		verifCheckResponse(r, verifRespExpect{kind: types.VoucherResultMessage, id: id, accepted: a, paused: p, result: v, hasResult: true})
		if v != nil && v.Voucher != nil {
			zz.Reach("VoucherResultResponse with result")
		}
	case 8:
		p := zz.Bool("isPaused")
		verifCheckResponse(UpdateResponse(id, p), verifRespExpect{kind: types.UpdateMessage, id: id, paused: p})
		zz.Reach("UpdateResponse")
	case 9:
		verifCheckResponse(CancelResponse(id), verifRespExpect{kind: types.CancelMessage, id: id})
		zz.Reach("CancelResponse")
	case 10:
		a, p, v := zz.Bool("accepted"), zz.Bool("isPaused"), verifVoucherArg("result")
		r, err := CompleteResponse(id, a, p, v)
		zz.Assert(err == nil, "CompleteResponse succeeds")
		verifCheckResponse(r, verifRespExpect{kind: types.CompleteMessage, id: id, accepted: a, paused: p, result: v, hasResult: true})
		zz.Reach("CompleteResponse")
	case 11: // ValidationResultResponse used as a constructor for each of its four kinds
		kinds := [4]types.MessageType{types.NewMessage, types.RestartMessage, types.VoucherResultMessage, types.CompleteMessage}
		k := kinds[zz.Choice("vrKind", 4)]
		res, verr := verifArbitraryValidation("val")
		p := zz.Bool("isPaused")
		r, err := ValidationResultResponse(k, id, res, verr, p)
		zz.Assert(err == nil, "ValidationResultResponse succeeds")
		verifCheckResponse(r, verifRespExpect{kind: k, id: id, accepted: verr == nil && res.Accepted, paused: p, result: res.VoucherResult, hasResult: true})
		zz.Reach("ValidationResultResponse")
	}
}

// verifArbitraryValidation: an arbitrary validation outcome (result + nil or non-nil error).
func verifArbitraryValidation(label string) (datatransfer.ValidationResult, error) {
	var res datatransfer.ValidationResult
	zz.Symbolic(&res, label)
	res.VoucherResult = verifVoucherArg(label + ".VoucherResult")
	var err error
	if zz.Bool(label + ".errs") {
		err = zz.Error(label + ".err")
	}
	return res, err
}

// ---- (b) kind partition -------------------------------------------------------------------------

// VerifC12_KindPartition: for an ARBITRARY decoded request / response (message type any uint64)
// the kind predicates are mutually exclusive apart from the documented overlaps, they are tied to
// the published type numbers 0..7, and every type a peer can legitimately send has exactly one kind.
func VerifC12_KindPartition() {
	// published numbers (appending only: changing one breaks every deployed peer)
	zz.Assert(types.NewMessage == 0 && types.UpdateMessage == 1 && types.CancelMessage == 2 && types.CompleteMessage == 3 &&
		types.VoucherMessage == 4 && types.VoucherResultMessage == 5 && types.RestartMessage == 6 &&
		types.RestartExistingChannelRequestMessage == 7, "message type constants keep their published numbers")
	if zz.Bool("isRequest") {
		r := verifArbitraryDecodedRequest("req")
		t := r.MessageType
		zz.Assert(r.IsRequest(), "a request is a request")
		zz.Assert(r.IsNew() == (t == 0) && r.IsUpdate() == (t == 1) && r.IsCancel() == (t == 2) && r.IsRestart() == (t == 6) &&
			r.IsRestartExistingChannelRequest() == (t == 7) && r.IsVoucher() == (t == 4 || t == 0), "request predicates follow the published numbers")
		n := verifRequestKinds(r)
		zz.Assert(n <= 1, "request kinds are mutually exclusive")
		zz.Assert((n == 1) == (t == 0 || t == 1 || t == 2 || t == 4 || t == 6 || t == 7), "every request type has exactly one kind")
		zz.Assert(!r.IsNew() || r.IsVoucher(), "documented overlap: a new request also carries a voucher")
		if t < 8 {
			zz.Assert(verifRequestKindIs(r, types.MessageType(t)) || t == 3 || t == 5, "classification agrees with the type constants")
		}
		if n == 1 {
			zz.Reach("request with one kind")
		} else {
			zz.Reach("request with unknown type has no kind")
		}
		return
	}
	r := verifArbitraryDecodedResponse("resp")
	t := r.MessageType
	zz.Assert(!r.IsRequest(), "a response is not a request")
	zz.Assert(r.IsNew() == (t == 0) && r.IsUpdate() == (t == 1) && r.IsCancel() == (t == 2) && r.IsComplete() == (t == 3) && r.IsRestart() == (t == 6) &&
		r.IsValidationResult() == (t == 5 || t == 0 || t == 3 || t == 6), "response predicates follow the published numbers")
	n := verifResponseKinds(r)
	zz.Assert(n <= 1, "response kinds are mutually exclusive")
	zz.Assert((n == 1) == (t == 0 || t == 1 || t == 2 || t == 3 || t == 5 || t == 6), "every response type has exactly one kind")
	if t < 8 {
		zz.Assert(verifResponseKindIs(r, types.MessageType(t)) || t == 4 || t == 7, "classification agrees with the type constants")
	}
	if n == 1 {
		zz.Reach("response with one kind")
	} else {
		zz.Reach("response with unknown type has no kind")
	}
}

// ---- (c) acceptance bit -------------------------------------------------------------------------

// VerifC12_AcceptanceBit: a validation response reports acceptance precisely when validation
// succeeded (no error) AND accepted; for every message type, result and error. The pause flag,
// transfer ID, voucher result and its type are carried through unchanged.
func VerifC12_AcceptanceBit() {
	mt := types.MessageType(zz.Uint64("messageType"))
	id := datatransfer.TransferID(zz.Uint64("id"))
	res, verr := verifArbitraryValidation("val")
	paused := zz.Bool("paused")
	r, err := ValidationResultResponse(mt, id, res, verr, paused)
	zz.Assert(err == nil && r != nil, "ValidationResultResponse succeeds")
	zz.Assert(r.Accepted() == (verr == nil && res.Accepted), "accepted exactly when validation succeeded and accepted")
	zz.Assert(r.IsPaused() == paused && r.TransferID() == id, "pause flag and transfer ID carried through")
	n, nerr := r.VoucherResult()
	zz.Assert(verifVoucherCarried(res.VoucherResult, r.VoucherResultType(), r.EmptyVoucherResult(), n, nerr), "voucher result and type carried through")
	zz.Assert(verifResponseKindIs(r, mt), "the response has the requested message type")
	if verr != nil && res.Accepted {
		zz.Assert(!r.Accepted(), "a validation error is never reported as acceptance")
		zz.Reach("validation error with Accepted set")
	}
	if r.Accepted() {
		zz.Reach("accepted")
	}
	if verr == nil && !res.Accepted {
		zz.Reach("rejected without error")
	}
}

// ---- (d) missing body ---------------------------------------------------------------------------

// verifCheckDecoded: (msg, err) is either an error without a message, or a message whose body is
// present, is the decoded body itself and whose direction matches the envelope.
func verifCheckDecoded(msg datatransfer.Message, err error) {
	zz.Assert(VerifDecodeCalls == 1, "the decoder ran once")
	if VerifLastDecodeErr != nil {
		zz.Assert(err == VerifLastDecodeErr && msg == nil, "a decoding error is passed on and no message is returned")
		zz.Reach("decode error")
		return
	}
	tm := VerifLastDecoded
	zz.Assert(tm != nil, "decoder contract")
	if err != nil {
		zz.Assert(msg == nil, "no message together with an error")
		zz.Assert((tm.IsRequest && tm.Request == nil) || (!tm.IsRequest && tm.Response == nil), "only a message whose body is missing is refused")
		zz.Reach("missing body refused")
		return
	}
	zz.Assert(msg != nil, "no error: a message is returned")
	zz.Assert(msg.IsRequest() == tm.IsRequest, "direction matches the envelope")
	switch m := msg.(type) {
	case *TransferRequest1_1:
		zz.Assert(m != nil, "request body present")
		zz.Assert(m == tm.Request && tm.IsRequest, "the decoded request body itself is returned")
		zz.Reach("request decoded")
	case *TransferResponse1_1:
		zz.Assert(m != nil, "response body present")
		zz.Assert(m == tm.Response && !tm.IsRequest, "the decoded response body itself is returned")
		zz.Reach("response decoded")
	default:
		zz.Fail("decoded message is neither a request nor a response")
	}
	_ = msg.TransferID() // would dereference a missing body
	_ = msg.IsNew()
}

// VerifC12_MissingBody: FromNet and FromIPLD over every decoder outcome.
// Native replay goes through the //verif:native-rewrite seam above.
func VerifC12_MissingBody() {
	VerifStubDecode(true)
	if zz.Bool("fromNet") {
		msg, err := FromNet(verifReader{})
		verifCheckDecoded(msg, err)
		zz.Reach("FromNet")
		return
	}
	var node datamodel.Node
	if zz.Bool("hasNode") {
		node = zz.Node("node")
	}
	msg, err := FromIPLD(node)
	zz.Assert(len(VerifDecodedNodes) == 1 && VerifDecodedNodes[0] == node, "the node handed in is the node decoded")
	verifCheckDecoded(msg, err)
	zz.Reach("FromIPLD")
}

var _ = peer.ID("")

// ---- published schema pin (native only) ---------------------------------------------------------
//
// "its bytes are exactly the DAG-CBOR map laid down by the published schema, so peers running
// other builds interoperate": the byte-level encoder is bindnode + dagcbor (a dependency, outside
// what the solver decides), and what it emits is determined by the schema it is bound to. The
// schema is embedded with go:embed (not visible to the SSA interpreter), so this conformance check
// runs natively only: the embedded schema, comments and spacing aside, is the published one.
// It is a pin, not a proof: any change of a field's name, rename, kind, optionality or order is
// reported and has to be acknowledged here.
const verifPublishedSchema = `type PeerID string
type TransferID int
type TypeIdentifier string
type ChannelID struct {
Initiator PeerID
Responder PeerID
ID TransferID
} representation tuple
type TransferRequest struct {
BaseCidPtr nullable Link (rename "BCid")
MessageType Int (rename "Type")
Pause Bool (rename "Paus")
Partial Bool (rename "Part")
Pull Bool (rename "Pull")
SelectorPtr nullable Any (rename "Stor")
VoucherPtr nullable Any (rename "Vouch")
VoucherTypeIdentifier TypeIdentifier (rename "VTyp")
TransferId Int (rename "XferID")
RestartChannel ChannelID
}
type TransferResponse struct {
MessageType Int (rename "Type")
RequestAccepted Bool (rename "Acpt")
Paused Bool (rename "Paus")
TransferId Int (rename "XferID")
VoucherResultPtr nullable Any (rename "VRes")
VoucherTypeIdentifier TypeIdentifier (rename "VTyp")
}
type TransferMessage1_1 struct {
IsRequest Bool (rename "IsRq")
Request nullable TransferRequest
Response nullable TransferResponse
}`

func verifNormalizeSchema(s string) string {
	var out []string
	for _, l := range strings.Split(s, "\n") {
		if i := strings.Index(l, "#"); i >= 0 {
			l = l[:i]
		}
		l = strings.Join(strings.Fields(l), " ")
		if l != "" {
			out = append(out, l)
		}
	}
	return strings.Join(out, "\n")
}

// VerifC12_PublishedSchemaPinned: see above.
//
//verif:opts nativeonly
func VerifC12_PublishedSchemaPinned() {
	zz.Reach("native-only schema pin")
	if zz.Engine() {
		return
	}
	zz.Assert(verifNormalizeSchema(string(embedSchema)) == verifPublishedSchema, "the embedded schema is the published one (comments and spacing aside)")
}

// VerifC15_TrailingBytesAreRejectedByTheDecoder is NOT a symbolic harness (native only): property
// C15's "a malformed stream is reset and reported without invoking a message handler" rests, for
// streams that START with a well-formed message, on the decoder's contract that FromNet reads ONE
// message and rejects anything that follows it before returning (handleNewStream dispatches only
// after FromNet succeeded - that part is decided symbolically by VerifC15_InboundMalformed with the
// decoder stubbed). Checked here on the real bindnode / dag-cbor decoder for a request and a
// response followed by a stray byte, a truncated second message, and text.
//
//verif:opts nativeonly
func VerifC15_TrailingBytesAreRejectedByTheDecoder() {
	zz.Reach("native-only decoder contract")
	if zz.Engine() {
		return
	}
	req, err := NewRequest(7, false, true, nil, zz.CidFromAtom("base"), nil)
	zz.Assert(err == nil, "request built")
	resp, err := NewResponse(7, true, false, nil)
	zz.Assert(err == nil, "response built")
	n := 0
	for _, m := range []datatransfer.Message{req, resp, CancelRequest(9)} {
		var one bytes.Buffer
		zz.Assert(m.ToNet(&one) == nil, "encoded")
		clean, err := FromNet(bytes.NewReader(one.Bytes()))
		zz.Assert(err == nil && clean != nil, "a single well-formed message decodes")
		half := one.Bytes()[:one.Len()/2]
		for _, tail := range [][]byte{{0xff}, {0xfc, 0x00, 0x01}, half, []byte("GET / HTTP/1.1\r\n")} {
			stream := append(append([]byte{}, one.Bytes()...), tail...)
			got, err := FromNet(bytes.NewReader(stream))
			zz.Assert(err != nil && got == nil, "a well-formed message followed by anything else is rejected as a whole, before any message is handed out")
			n++
		}
	}
	zz.ModelValidated = n
}
