// Package toy holds engine self-test programs with known verdicts.
// Harness names: VerifC00_<name>; expected verdicts are in the name: _OK (no violation) or _BAD (violation expected).
package toy

import (
	"errors"
	"fmt"
	"sync"
	"sync/atomic"

	zz "github.com/filecoin-project/go-data-transfer/v2/zzverif"
)

// wrap-around arithmetic: x+1 > x fails at max
func VerifC00_Wrap_BAD() {
	x := zz.Uint64("x")
	zz.Assert(x+1 > x, "x+1 > x")
}

func VerifC00_WrapGuard_OK() {
	x := zz.Uint64("x")
	zz.Assume(x < 1<<63)
	zz.Assert(x+1 > x, "x+1 > x")
	zz.Reach("end")
}

type pt struct {
	a, b int64
	s    string
}

func (p *pt) swap() { p.a, p.b = p.b, p.a }

func VerifC00_Struct_OK() {
	var p pt
	zz.Symbolic(&p, "p")
	q := p
	q.swap()
	q.swap()
	zz.Assert(q == p, "swap twice is identity")
	m := map[pt]int{}
	m[p] = 1
	m[q] = 2
	zz.Assert(len(m) == 1 && m[p] == 2, "map with symbolic struct key")
}

func VerifC00_MapSym_BAD() {
	m := map[string]int{"a": 1, "b": 2}
	k := zz.String("k")
	v, ok := m[k]
	zz.Assert(!ok || v == 1, "lookup returns 1")
}

type shape interface{ area() uint64 }
type sq struct{ s uint64 }
type rc struct{ w, h uint64 }

func (s sq) area() uint64  { return s.s * s.s }
func (r *rc) area() uint64 { return r.w * r.h }

func VerifC00_Iface_OK() {
	var sh shape
	if zz.Bool("isSq") {
		sh = sq{zz.Uint64("s")}
	} else {
		sh = &rc{2, 3}
	}
	switch x := sh.(type) {
	case sq:
		zz.Assert(x.area() == x.s*x.s, "sq area")
		zz.Reach("sq")
	case *rc:
		zz.Assert(x.area() == 6, "rc area")
		zz.Reach("rc")
	}
}

var errA = errors.New("a")

func VerifC00_Errors_OK() {
	e := fmt.Errorf("wrap: %w", errA)
	zz.Assert(errors.Is(e, errA), "is")
	zz.Assert(!errors.Is(e, errors.New("a")), "distinct identity")
	var n error
	zz.Assert(n == nil, "nil")
}

func VerifC00_Defer_OK() {
	x := 0
	func() {
		defer func() { x += 2 }()
		defer func() { x *= 3 }()
		x = 1
	}()
	zz.Assert(x == 5, "defers LIFO")
}

func VerifC00_NilDeref_BAD() {
	var p *pt
	if zz.Bool("set") {
		p = &pt{}
	}
	p.a = 1
}

func VerifC00_Index_BAD() {
	xs := []int{1, 2, 3}
	i := zz.Int("i")
	zz.Assume(i >= 0 && i <= 3)
	_ = xs[i]
}

func VerifC00_Slices_OK() {
	var xs []uint64
	n := zz.Choice("n", 4)
	sum := uint64(0)
	for i := 0; i < n; i++ {
		v := zz.Uint64("v")
		zz.Assume(v < 1000)
		xs = append(xs, v)
		sum += v
	}
	t := uint64(0)
	for _, v := range xs {
		t += v
	}
	zz.Assert(t == sum && len(xs) == n, "sum")
}

// blocking select on nil channel with background ctx: deadlock
func VerifC00_Deadlock_BAD() {
	var ch chan int
	<-ch
}

func VerifC00_Chan_OK() {
	ch := make(chan int, 1)
	done := make(chan struct{})
	go func() {
		ch <- 7
		close(done)
	}()
	v := <-ch
	<-done
	zz.Assert(v == 7, "recv")
}

func VerifC00_Unbuffered_OK() {
	ch := make(chan int)
	go func() { ch <- 3 }()
	zz.Assert(<-ch == 3, "rendezvous")
}

func VerifC00_Mutex_OK() {
	var mu sync.Mutex
	x := 0
	var wg sync.WaitGroup
	for i := 0; i < 2; i++ {
		wg.Add(1)
		go func() {
			defer wg.Done()
			mu.Lock()
			x++
			mu.Unlock()
		}()
	}
	wg.Wait()
	zz.Assert(x == 2, "both increments")
}

// lost update under pre-emption
//
//verif:opts preempt
func VerifC00_LostUpdate_BAD() {
	var x int64
	done := make(chan struct{}, 2)
	inc := func() {
		v := atomic.LoadInt64(&x)
		atomic.StoreInt64(&x, v+1)
		done <- struct{}{}
	}
	go inc()
	go inc()
	<-done
	<-done
	zz.Assert(atomic.LoadInt64(&x) == 2, "no lost update")
}

//verif:opts preempt
func VerifC00_AtomicAdd_OK() {
	var x int64
	done := make(chan struct{}, 2)
	inc := func() {
		atomic.AddInt64(&x, 1)
		done <- struct{}{}
	}
	go inc()
	go inc()
	<-done
	<-done
	zz.Assert(atomic.LoadInt64(&x) == 2, "atomic add")
}

func VerifC00_Closure_OK() {
	mk := func(k uint64) func(uint64) uint64 { return func(x uint64) uint64 { return x + k } }
	f := mk(zz.Uint64("k"))
	x := zz.Uint64("x")
	zz.Assert(f(x)-x == f(0), "closure capture")
}

func VerifC00_Signed_BAD() {
	a := zz.Int64("a")
	zz.Assert(-a >= 0 || a > 0, "negation of min int")
}

func VerifC00_Vacuous_BAD() {
	x := zz.Uint64("x")
	zz.Assume(x > 5 && x < 3)
	zz.Reach("never")
}

type counter struct {
	mu sync.Mutex
	n  int
	m  map[string]int
}

func (c *counter) incLocked()   { c.mu.Lock(); c.n++; c.m["k"]++; c.mu.Unlock() }
func (c *counter) incUnlocked() { c.n++ }
func (c *counter) mapUnlocked() { c.m["k"]++ }
func (c *counter) get() int     { return c.n }
func (c *counter) set5()        { c.mu.Lock(); c.n = 5; c.mu.Unlock() }

//verif:opts race
func VerifC00_RaceField_BAD() {
	c := &counter{m: map[string]int{}}
	var wg sync.WaitGroup
	for i := 0; i < 2; i++ {
		wg.Add(1)
		go func() { defer wg.Done(); c.incUnlocked() }()
	}
	wg.Wait()
}

//verif:opts race
func VerifC00_RaceMap_BAD() {
	c := &counter{m: map[string]int{}}
	var wg sync.WaitGroup
	for i := 0; i < 2; i++ {
		wg.Add(1)
		go func() { defer wg.Done(); c.mapUnlocked() }()
	}
	wg.Wait()
}

//verif:opts race
func VerifC00_NoRaceMutex_OK() {
	c := &counter{m: map[string]int{}}
	var wg sync.WaitGroup
	for i := 0; i < 2; i++ {
		wg.Add(1)
		go func() { defer wg.Done(); c.incLocked() }()
	}
	wg.Wait()
	c.incUnlocked() // ordered after both by the WaitGroup
	zz.Assert(c.n == 3, "three increments")
}

//verif:opts race
func VerifC00_NoRaceChan_OK() {
	c := &counter{m: map[string]int{}}
	ch := make(chan struct{})
	go func() { c.incUnlocked(); ch <- struct{}{} }()
	<-ch
	c.incUnlocked()
	done := make(chan struct{})
	go func() { c.incUnlocked(); close(done) }()
	<-done
	c.incUnlocked()
	zz.Assert(c.n == 4, "four increments")
}

//verif:opts race
func VerifC00_RaceReadWrite_BAD() {
	c := &counter{m: map[string]int{}}
	done := make(chan struct{})
	go func() { c.set5(); close(done) }()
	_ = c.get() // unsynchronised read, possibly before the write
	<-done
}

// A race that exists only for the LAST alternative of a choice: detection must survive backtracking.
//
//verif:opts race preempt=sync sched=3
func VerifC00_RaceAfterBacktrack_BAD() {
	c := &counter{m: map[string]int{}}
	k := zz.Choice("k", 3)
	var wg sync.WaitGroup
	wg.Add(2)
	go func() { defer wg.Done(); c.incLocked() }()
	go func() {
		defer wg.Done()
		if k == 2 {
			c.incUnlocked()
		} else {
			c.incLocked()
		}
	}()
	wg.Wait()
}

type rwbox struct {
	mu sync.RWMutex
	n  int
}

func (b *rwbox) get() int      { b.mu.RLock(); defer b.mu.RUnlock(); return b.n }
func (b *rwbox) getTwice() int { b.mu.RLock(); defer b.mu.RUnlock(); return b.n + b.get() }
func (b *rwbox) set(v int)     { b.mu.Lock(); b.n = v; b.mu.Unlock() }

// A recursive read lock deadlocks when a writer arrives between the two RLocks (Go's RWMutex lets
// a pending writer exclude new readers).
//
//verif:opts preempt=sync pb=1 sched=3
func VerifC00_RecursiveRLock_BAD() {
	b := &rwbox{}
	var wg sync.WaitGroup
	wg.Add(2)
	go func() { defer wg.Done(); _ = b.getTwice() }()
	go func() { defer wg.Done(); b.set(1) }()
	wg.Wait()
}

//verif:opts preempt=sync pb=1 sched=3
func VerifC00_ReadersAndWriter_OK() {
	b := &rwbox{}
	var wg sync.WaitGroup
	wg.Add(3)
	go func() { defer wg.Done(); _ = b.get() }()
	go func() { defer wg.Done(); _ = b.get() }()
	go func() { defer wg.Done(); b.set(1) }()
	wg.Wait()
}
