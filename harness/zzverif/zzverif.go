// Package zzverif is the harness API of the verification machinery in /verif.
//
// It is injected into the repository with a build overlay and is never part of
// the repository itself. Two implementations exist: the symbolic executor
// (/verif/engine) intercepts every function of this package and gives it a
// symbolic meaning; this file is the *native* meaning, used when a
// counterexample found by the solver is replayed against the compiled code:
// nondeterministic inputs are read from the JSON file named by $VERIF_REPLAY.
package zzverif

import (
	"encoding/json"
	"fmt"
	"os"
	"reflect"
	"runtime"
	"strings"
	"sync"
	"time"
	"unsafe"

	"github.com/ipfs/go-cid"
	"github.com/ipld/go-ipld-prime/datamodel"
	"github.com/ipld/go-ipld-prime/node/basicnode"
)

type replayFile struct {
	Harness string                     `json:"harness"`
	Kind    string                     `json:"kind"`
	Msg     string                     `json:"msg"`
	Inputs  map[string]json.RawMessage `json:"inputs"`
	Atoms   []string                   `json:"atoms"`
}

var (
	mu       sync.Mutex
	replay   replayFile
	loaded   bool
	counters = map[string]int{}
	// Log of what happened natively, printed by the replay test.
	Reached  = map[string]int{}
	Observed []string
	// ModelValidated is set by native-only validation drivers: number of sequences compared.
	ModelValidated int
	// Trace is the sequence of assertion outcomes and witnesses of this run (translator validation).
	Trace []string
)

// Failure is the panic value raised by a failed Assert / Fail.
type Failure struct{ Msg string }

func (f Failure) Error() string { return "VERIF assertion failed: " + f.Msg }

// AssumptionFailed is raised when an Assume does not hold natively (the model
// returned by the solver does not reproduce: encoding or stub mismatch).
type AssumptionFailed struct{}

func load() {
	if loaded {
		return
	}
	loaded = true
	p := os.Getenv("VERIF_REPLAY")
	if p == "" {
		return
	}
	b, err := os.ReadFile(p)
	if err != nil {
		panic(err)
	}
	if err := json.Unmarshal(b, &replay); err != nil {
		panic(err)
	}
}

// Reset clears per-run state (labels are counted per harness run).
func Reset() {
	mu.Lock()
	defer mu.Unlock()
	counters = map[string]int{}
	Reached = map[string]int{}
	Observed = nil
	Trace = nil
}

func name(label string) string {
	n := counters[label]
	counters[label] = n + 1
	if n > 0 {
		return fmt.Sprintf("%s#%d", label, n)
	}
	return label
}

func raw(label string) (json.RawMessage, bool) {
	mu.Lock()
	defer mu.Unlock()
	load()
	n := name(label)
	r, ok := replay.Inputs[n]
	if os.Getenv("VERIF_DEBUG") != "" {
		fmt.Printf("VERIF-INPUT %s = %s (present=%v)\n", n, string(r), ok)
	}
	return r, ok
}

// Engine reports whether the harness is being executed symbolically.
func Engine() bool { return false }

func Bool(label string) bool {
	r, ok := raw(label)
	if !ok {
		return false
	}
	var b bool
	_ = json.Unmarshal(r, &b)
	return b
}

func Uint64(label string) uint64 {
	r, ok := raw(label)
	if !ok {
		return 0
	}
	var v uint64
	if err := json.Unmarshal(r, &v); err != nil {
		var f float64
		_ = json.Unmarshal(r, &f)
		v = uint64(f)
	}
	return v
}

func Int64(label string) int64   { return int64(Uint64(label)) }
func Int(label string) int       { return int(int64(Uint64(label))) }
func Uint32(label string) uint32 { return uint32(Uint64(label)) }

func Float64(label string) float64 {
	r, ok := raw(label)
	if !ok {
		return 0
	}
	var f float64
	_ = json.Unmarshal(r, &f)
	return f
}

// String returns an opaque identity: equal labels/values compare equal, contents carry no meaning.
func String(label string) string {
	r, ok := raw(label)
	if !ok {
		return ""
	}
	var a struct {
		Str  *string `json:"str"`
		Atom *int64  `json:"atom"`
	}
	_ = json.Unmarshal(r, &a)
	if a.Str != nil {
		return *a.Str
	}
	if a.Atom != nil {
		return fmt.Sprintf("@atom%d", *a.Atom)
	}
	return ""
}

// CidFromAtom maps an opaque identity to a valid CID ("" is cid.Undef).
func CidFromAtom(a string) cid.Cid {
	if a == "" {
		return cid.Undef
	}
	c, err := cid.V1Builder{Codec: cid.Raw, MhType: 0x12}.Sum([]byte(a))
	if err != nil {
		panic(err)
	}
	return c
}

// Cid returns an arbitrary CID (possibly cid.Undef): an opaque identity. When the code under test
// looked inside the CID the counterexample also fixes its codec and multihash identity
// (inputs <name>@codec / <name>@hash): two CIDs with the same hash identity but different codecs
// share their multihash, as the engine's model says.
func Cid(label string) cid.Cid {
	mu.Lock()
	load()
	nm := name(label + ".str")
	rs, okS := replay.Inputs[nm]
	rc, okC := replay.Inputs[nm+"@codec"]
	rh, okH := replay.Inputs[nm+"@hash"]
	mu.Unlock()
	if !okS {
		return cid.Undef
	}
	a := atomOf(rs)
	if !okC && !okH {
		return CidFromAtom(a)
	}
	if a == "" {
		return cid.Undef
	}
	codec := uint64(cid.Raw)
	if okC {
		_ = json.Unmarshal(rc, &codec)
	}
	h := a
	if okH {
		h = atomOf(rh)
	}
	c, err := cid.V1Builder{Codec: codec & 0xffff, MhType: 0x12}.Sum([]byte(h))
	if err != nil {
		panic(err)
	}
	return c
}

func atomOf(r json.RawMessage) string {
	var a struct {
		Str  *string `json:"str"`
		Atom *int64  `json:"atom"`
	}
	_ = json.Unmarshal(r, &a)
	if a.Str != nil {
		return *a.Str
	}
	if a.Atom != nil {
		return fmt.Sprintf("@atom%d", *a.Atom)
	}
	return ""
}

// Node returns an arbitrary non-null IPLD node: an opaque identity (natively a string node).
func Node(label string) datamodel.Node { return OpaqueNode(String(label)) }

// OpaqueNode is the native form of zz.Node: a string-kind IPLD node that is a comparable VALUE, so
// that `==` on datamodel.Node interfaces compares identities exactly as the engine does
// (basicnode.NewString returns a pointer, whose `==` is pointer identity).
type OpaqueNode string

func (n OpaqueNode) in() datamodel.Node                              { return basicnode.NewString(string(n)) }
func (n OpaqueNode) Kind() datamodel.Kind                            { return datamodel.Kind_String }
func (n OpaqueNode) LookupByString(k string) (datamodel.Node, error) { return n.in().LookupByString(k) }
func (n OpaqueNode) LookupByNode(k datamodel.Node) (datamodel.Node, error) {
	return n.in().LookupByNode(k)
}
func (n OpaqueNode) LookupByIndex(i int64) (datamodel.Node, error) { return n.in().LookupByIndex(i) }
func (n OpaqueNode) LookupBySegment(s datamodel.PathSegment) (datamodel.Node, error) {
	return n.in().LookupBySegment(s)
}
func (n OpaqueNode) MapIterator() datamodel.MapIterator   { return nil }
func (n OpaqueNode) ListIterator() datamodel.ListIterator { return nil }
func (n OpaqueNode) Length() int64                        { return -1 }
func (n OpaqueNode) IsAbsent() bool                       { return false }
func (n OpaqueNode) IsNull() bool                         { return false }
func (n OpaqueNode) AsBool() (bool, error)                { return n.in().AsBool() }
func (n OpaqueNode) AsInt() (int64, error)                { return n.in().AsInt() }
func (n OpaqueNode) AsFloat() (float64, error)            { return n.in().AsFloat() }
func (n OpaqueNode) AsString() (string, error)            { return string(n), nil }
func (n OpaqueNode) AsBytes() ([]byte, error)             { return n.in().AsBytes() }
func (n OpaqueNode) AsLink() (datamodel.Link, error)      { return n.in().AsLink() }
func (n OpaqueNode) Prototype() datamodel.NodePrototype   { return basicnode.Prototype.String }

// Ite is `if c { return a }; return b` without forking the symbolic path.
func Ite[T any](c bool, a, b T) T {
	if c {
		return a
	}
	return b
}

// Choice returns a value in [0,n); the engine explores every value.
func Choice(label string, n int) int {
	k := int(Uint64("choice:" + label))
	if k < 0 || k >= n {
		return 0
	}
	return k
}

func Assume(c bool) {
	if !c {
		panic(AssumptionFailed{})
	}
}

func Assert(c bool, msg string) {
	mu.Lock()
	Trace = append(Trace, fmt.Sprintf("assert:%s:%v", msg, c))
	mu.Unlock()
	if !c {
		panic(Failure{msg})
	}
}

func Fail(msg string) { panic(Failure{msg}) }

func Reach(label string) {
	mu.Lock()
	Reached[label]++
	Trace = append(Trace, "reach:"+label)
	mu.Unlock()
}

func Observe(label string, vs ...interface{}) {
	mu.Lock()
	Observed = append(Observed, fmt.Sprintf("%s=%v", label, vs))
	mu.Unlock()
}

func Note(v interface{}) {}

// Yield is a scheduling point in the engine; natively it lets other goroutines run.
func Yield() { runtime.Gosched() }

// Preempt is an explicit pre-emption point (engine); natively a Gosched.
func Preempt() { runtime.Gosched() }

// Settle lets every other task run until none can make progress.
func Settle() {
	for i := 0; i < 20; i++ {
		runtime.Gosched()
		time.Sleep(2 * time.Millisecond)
	}
}

// FireTimer asks the environment to fire one live timer (engine). Natively
// timers are real; harnesses use short durations.
func FireTimer() bool { time.Sleep(30 * time.Millisecond); return true }

func LiveTimers() int { return 0 }

// Error returns an opaque non-nil error with its own identity.
func Error(label string) error {
	return fmt.Errorf("verif-error[%s]:%s", label, String("errmsg:"+label))
}

// TypeName returns the dynamic type of x as written by %T.
func TypeName(x interface{}) string {
	if x == nil {
		return "<nil>"
	}
	return fmt.Sprintf("%T", x)
}

// Unexported reads field `field` of struct (or pointer to struct) x, exported or not.
func Unexported(x interface{}, field string) interface{} {
	v := reflect.ValueOf(x)
	if v.Kind() == reflect.Ptr {
		v = v.Elem()
	} else {
		// make addressable copy
		c := reflect.New(v.Type()).Elem()
		c.Set(v)
		v = c
	}
	f := v.FieldByName(field)
	if !f.IsValid() {
		panic("zzverif.Unexported: no field " + field)
	}
	f = reflect.NewAt(f.Type(), unsafe.Pointer(f.UnsafeAddr())).Elem()
	return f.Interface()
}

// Symbolic fills *ptr (a pointer to a struct or scalar) with nondeterministic
// values for every bool, integer, float and string reachable by value
// (exported or not). Pointers, slices, maps and interfaces are left untouched.
func Symbolic(ptr interface{}, label string) {
	v := reflect.ValueOf(ptr)
	if v.Kind() != reflect.Ptr {
		panic("zzverif.Symbolic: need pointer")
	}
	fill(v.Elem(), label)
}

// SetInt stores v into an integer field of whatever width / signedness the code under test
// currently gives it (harnesses stay compilable across such representation changes).
func SetInt[T ~int | ~int32 | ~int64 | ~uint | ~uint32 | ~uint64](p *T, v uint64) { *p = T(v) }

// FieldNames lists the field names of a struct value (or pointer to one), comma separated, in
// declaration order - for shape guards that must fail as a check result, not as a load error.
func FieldNames(v interface{}) string {
	t := reflect.TypeOf(v)
	if t.Kind() == reflect.Ptr {
		t = t.Elem()
	}
	var names []string
	for i := 0; i < t.NumField(); i++ {
		names = append(names, t.Field(i).Name)
	}
	return strings.Join(names, ",")
}

// SameScalars reports whether *a and *b (pointers to values of the same type) agree on every
// bool, integer, float and string reachable by value - the leaves Symbolic fills. Pointers,
// slices, maps and interfaces are skipped (compare those explicitly).
func SameScalars(a, b interface{}) bool {
	va, vb := reflect.ValueOf(a), reflect.ValueOf(b)
	if va.Kind() != reflect.Ptr || vb.Kind() != reflect.Ptr || va.Type() != vb.Type() {
		panic("zzverif.SameScalars: need two pointers of the same type")
	}
	return same(va.Elem(), vb.Elem())
}

func same(a, b reflect.Value) bool {
	switch a.Kind() {
	case reflect.Bool:
		return a.Bool() == b.Bool()
	case reflect.String:
		return a.String() == b.String()
	case reflect.Int, reflect.Int8, reflect.Int16, reflect.Int32, reflect.Int64:
		return a.Int() == b.Int()
	case reflect.Uint, reflect.Uint8, reflect.Uint16, reflect.Uint32, reflect.Uint64, reflect.Uintptr:
		return a.Uint() == b.Uint()
	case reflect.Float32, reflect.Float64:
		return a.Float() == b.Float()
	case reflect.Struct:
		for i := 0; i < a.NumField(); i++ {
			if !same(a.Field(i), b.Field(i)) {
				return false
			}
		}
	case reflect.Array:
		for i := 0; i < a.Len(); i++ {
			if !same(a.Index(i), b.Index(i)) {
				return false
			}
		}
	}
	return true
}

func fill(v reflect.Value, label string) {
	if !v.CanSet() && v.CanAddr() {
		v = reflect.NewAt(v.Type(), unsafe.Pointer(v.UnsafeAddr())).Elem()
	}
	if v.Type() == reflect.TypeOf(cid.Cid{}) {
		v.Set(reflect.ValueOf(Cid(label)))
		return
	}
	switch v.Kind() {
	case reflect.Bool:
		v.SetBool(Bool(label))
	case reflect.String:
		v.SetString(String(label))
	case reflect.Int, reflect.Int8, reflect.Int16, reflect.Int32, reflect.Int64:
		v.SetInt(int64(Uint64(label)))
	case reflect.Uint, reflect.Uint8, reflect.Uint16, reflect.Uint32, reflect.Uint64, reflect.Uintptr:
		v.SetUint(Uint64(label))
	case reflect.Float32, reflect.Float64:
		v.SetFloat(Float64(label))
	case reflect.Struct:
		for i := 0; i < v.NumField(); i++ {
			fill(v.Field(i), label+"."+v.Type().Field(i).Name)
		}
	case reflect.Array:
		for i := 0; i < v.Len(); i++ {
			fill(v.Index(i), fmt.Sprintf("%s[%d]", label, i))
		}
	}
}
