package extension

// C12 (graphsync extension part): GetTransferData picks the FIRST supported extension name the
// graphsync message carries, decodes exactly that extension's node with the decoder registered
// under that name, and returns nil,nil when none of the names is present. The result obeys the
// same "error or message with a body" rule as message.FromIPLD (see message1_1prime/c12.go; the
// byte/IPLD-level decoder of go-ipld-prime is stubbed there and is outside the claim).
//
// Assumption: the supported extension names are keys of ProtocolMap / decoders, which is what
// ToExtensionData demands ("unsupported protocol" otherwise) and what the transport's default is.

import (
	"github.com/ipfs/go-graphsync"
	"github.com/ipld/go-ipld-prime/datamodel"

	datatransfer "github.com/filecoin-project/go-data-transfer/v2"
	message1_1 "github.com/filecoin-project/go-data-transfer/v2/message/message1_1prime"
	zz "github.com/filecoin-project/go-data-transfer/v2/zzverif"
)

var verifKnownNames = [3]graphsync.ExtensionName{ExtensionIncomingRequest1_1, ExtensionOutgoingBlock1_1, ExtensionDataTransfer1_1}

// verifExtended is a GsExtended double: extension i is present iff present[i].
type verifExtended struct {
	present [3]bool
	nodes   [3]datamodel.Node
	asked   []graphsync.ExtensionName
}

func (e *verifExtended) Extension(name graphsync.ExtensionName) (datamodel.Node, bool) {
	e.asked = append(e.asked, name)
	for i, n := range verifKnownNames {
		if n == name {
			if e.present[i] {
				return e.nodes[i], true
			}
			return nil, false
		}
	}
	return nil, false
}

// VerifC12_ExtensionData: 0..2 supported names in any order, any subset of the three extensions present.
func VerifC12_ExtensionData() {
	message1_1.VerifStubDecode(true)
	for _, n := range verifKnownNames {
		zz.Assert(decoders[n] != nil, "every published extension name has a decoder")
		_, ok := ProtocolMap[n]
		zz.Assert(ok, "every published extension name has a protocol")
	}
	ext := &verifExtended{}
	for i := range ext.present {
		ext.present[i] = zz.Bool("present")
		ext.nodes[i] = zz.Node("data")
	}
	var names []graphsync.ExtensionName
	var idx []int
	nNames := zz.Choice("nNames", 3)
	for i := 0; i < nNames; i++ {
		k := zz.Choice("name", 3)
		names = append(names, verifKnownNames[k])
		idx = append(idx, k)
	}

	msg, err := GetTransferData(ext, names)

	first := -1
	for _, k := range idx {
		if ext.present[k] {
			first = k
			break
		}
	}
	if first < 0 {
		zz.Assert(msg == nil && err == nil, "no supported extension present: nil, nil")
		zz.Assert(message1_1.VerifDecodeCalls == 0, "nothing is decoded")
		zz.Reach("no extension present")
		return
	}
	zz.Assert(message1_1.VerifDecodeCalls == 1 && len(message1_1.VerifDecodedNodes) == 1, "exactly one extension is decoded")
	zz.Assert(message1_1.VerifDecodedNodes[0] == ext.nodes[first], "the first supported extension that is present is the one decoded")
	if message1_1.VerifLastDecodeErr != nil {
		zz.Assert(msg == nil && err == message1_1.VerifLastDecodeErr, "a decoding error is passed on without a message")
		zz.Reach("decode error")
		return
	}
	tm := message1_1.VerifLastDecoded
	if err != nil {
		zz.Assert(msg == nil, "no message together with an error")
		zz.Assert((tm.IsRequest && tm.Request == nil) || (!tm.IsRequest && tm.Response == nil), "only a message whose body is missing is refused")
		zz.Reach("missing body refused")
		return
	}
	zz.Assert(msg != nil && msg.IsRequest() == tm.IsRequest, "a message with the envelope's direction")
	if tm.IsRequest {
		zz.Assert(tm.Request != nil && msg == datatransfer.Message(tm.Request), "the decoded request body is returned")
		zz.Reach("request")
	} else {
		zz.Assert(tm.Response != nil && msg == datatransfer.Message(tm.Response), "the decoded response body is returned")
		zz.Reach("response")
	}
	_ = msg.TransferID()
	if len(idx) == 2 && idx[0] != first {
		zz.Reach("second name used because the first is absent")
	}
}
