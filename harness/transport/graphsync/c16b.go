package graphsync

import (
	"context"
	"errors"

	"github.com/ipfs/go-graphsync"
	ipld "github.com/ipld/go-ipld-prime"
	"github.com/libp2p/go-libp2p/core/peer"

	datatransfer "github.com/filecoin-project/go-data-transfer/v2"
	"github.com/filecoin-project/go-data-transfer/v2/transport/graphsync/extension"
	zz "github.com/filecoin-project/go-data-transfer/v2/zzverif"
)

// VerifC16_UpdateHooks: messages piggy-backed on an existing graphsync request (request
// update received by the responder, response received by the requester). The request ID
// selects the channel; the message inside is only delivered if the channel ID rebuilt from the
// authenticated peer and the message kind is that very channel ("received request on response
// channel" cross-check), otherwise the request is terminated and no event is produced.
func VerifC16_UpdateHooks() {
	w := verifNewWorld()
	rid := verifRid("rid")
	p := peer.ID(zz.String("p"))
	kind, node, msg := verifExtContent("content")
	outcome := verifOutcome(w.ev, "outcome")
	act := &verifActions{}
	owner, known := w.owner(rid)
	var tid datatransfer.TransferID
	if msg != nil {
		tid = msg.TransferID()
	}
	// a request inside is only acceptable on a channel the remote initiated, a response only on one we initiated
	rebuilt := datatransfer.ChannelID{Initiator: p, Responder: w.self, ID: tid}
	if kind == 3 {
		rebuilt = datatransfer.ChannelID{Initiator: w.self, Responder: p, ID: tid}
	}
	updated := zz.Bool("requestUpdated")
	name := extension.ExtensionDataTransfer1_1
	if updated {
		if kind == 2 && zz.Bool("withReply") {
			w.ev.Resp = verifArbitraryResponse("reply")
		}
		upd := verifReq(rid)
		if node != nil {
			upd.exts[name] = node
		}
		w.t.gsRequestUpdatedHook(p, verifReq(rid), upd, act)
	} else {
		// the response hook reads three extension names (two in a first pass, one in a second)
		switch zz.Choice("name", 3) {
		case 1:
			name = extension.ExtensionIncomingRequest1_1
		case 2:
			name = extension.ExtensionOutgoingBlock1_1
		}
		resp := &verifRespData{id: rid, exts: map[graphsync.ExtensionName]ipld.Node{}}
		if node != nil {
			resp.exts[name] = node
		}
		w.t.gsIncomingResponseHook(p, resp, act)
	}

	if !known || kind == 0 {
		zz.Assert(len(w.ev.Calls) == 0 && len(act.Log) == 0, "unknown request or no data-transfer extension: no event, no action")
		if known {
			zz.Reach("no extension")
		} else {
			zz.Reach("unknown request")
		}
		return
	}
	if kind == 1 {
		zz.Assert(len(w.ev.Calls) == 0, "undecodable extension: no event")
		zz.Assert(act.count(actTerminate) >= 1 && len(act.Log) == act.count(actTerminate), "undecodable extension: terminated")
		zz.Reach("decode error")
		return
	}
	if rebuilt != owner {
		zz.Assert(len(w.ev.Calls) == 0, "message for another channel than the request's: no event")
		zz.Assert(act.count(actTerminate) >= 1 && len(act.Log) == act.count(actTerminate), "message for another channel than the request's: terminated")
		if kind == 2 {
			zz.Reach("request on a channel the remote did not initiate")
		} else {
			zz.Reach("response on a channel we did not initiate")
		}
		return
	}
	zz.Assert(len(w.ev.Calls) == 1 && w.ev.Calls[0].Chid == owner && verifSameMsg(w.ev.Calls[0].Msg, msg), "the message is delivered once, to the channel that owns the request")
	zz.Assert(w.ev.Calls[0].Op == zz.Ite(kind == 2, evRequest, evResponse), "requests and responses are delivered as such")
	carrier := zz.Ite(updated, actSendExt, actUpdateReq)
	if w.ev.Resp != nil {
		zz.Assert(act.carried(carrier, w.t.supportedExtensions, w.ev.Resp), "the handler's reply is attached")
		zz.Reach("reply attached")
	} else {
		zz.Assert(act.count(carrier) == 0, "nothing attached without a reply")
	}
	wantTerm := outcome == 2 || (outcome == 1 && !updated)
	zz.Assert((act.count(actTerminate) >= 1) == wantTerm, "terminated iff the handler failed")
	zz.Assert(len(act.Log) == act.count(actTerminate)+act.count(carrier), "no other action")
	if kind == 2 {
		zz.Reach("request delivered")
	} else {
		zz.Reach("response delivered")
	}
}

// VerifC16_Completed: the responder-side completion listener with an arbitrary status code.
func VerifC16_Completed() {
	w := verifNewWorld()
	rid := verifRid("rid")
	p := peer.ID(zz.String("p"))
	status := graphsync.ResponseStatusCode(zz.Uint32("status"))
	verifOutcome(w.ev, "outcome")
	owner, known := w.owner(rid)
	w.t.gsCompletedResponseListener(p, verifReq(rid), status)
	if !known {
		zz.Assert(len(w.ev.Calls) == 0, "completion of an unknown request: no event")
		zz.Reach("unknown request")
		return
	}
	if status == graphsync.RequestCancelled {
		zz.Assert(len(w.ev.Calls) == 0, "a cancelled response is not a completion")
		zz.Reach("cancelled")
		return
	}
	zz.Assert(len(w.ev.Calls) == 1 && w.ev.Calls[0].Op == evCompleted && w.ev.Calls[0].Chid == owner, "completion is reported once, for the channel that owns the request")
	zz.Assert((w.ev.Calls[0].Err == nil) == (status == graphsync.RequestCompletedFull), "completion carries an error unless the response completed in full")
	if status == graphsync.RequestCompletedFull {
		zz.Reach("completed in full")
	}
	if status == graphsync.RequestCompletedPartial {
		zz.Reach("completed partially")
	}
	if status == graphsync.RequestFailedUnknown {
		zz.Reach("failed")
	}
	if status == graphsync.ResponseStatusCode(99) {
		zz.Reach("unlisted status code")
	}
}

const (
	errNone = iota
	errClientCancelled
	errResponderCancelled
	errOther
)

// VerifC16_CompletedRequest: the requester-side completion (executeGsRequest) for a request
// whose error channel delivers 0..2 errors before closing; the LAST one decides.
func VerifC16_CompletedRequest() {
	f := verifNewTransport()
	chid := verifChid("chid")
	verifOutcome(f.ev, "outcome")
	rc := make(chan graphsync.ResponseProgress, 1)
	if zz.Bool("progress") {
		rc <- graphsync.ResponseProgress{}
	}
	close(rc)
	n := zz.Choice("errors", 3)
	ec := make(chan error, 2)
	last := errNone
	var lastErr error
	for i := 0; i < n; i++ {
		last = 1 + zz.Choice("errKind", 3)
		switch last {
		case errClientCancelled:
			lastErr = graphsync.RequestClientCancelledErr{}
		case errResponderCancelled:
			lastErr = graphsync.RequestCancelledErr{}
		default:
			lastErr = zz.Error("gsErr")
		}
		ec <- lastErr
	}
	close(ec)
	completes := 0
	f.t.executeGsRequest(&gsReq{channelID: chid, responseChan: rc, errChan: ec, onComplete: func() { completes++ }})
	zz.Assert(completes == 1, "onComplete is called exactly once")
	switch last {
	case errClientCancelled:
		zz.Assert(len(f.ev.Calls) == 1 && f.ev.Calls[0].Op == evCancelled && f.ev.Calls[0].Chid == chid && f.ev.Calls[0].Err != nil, "cancelled by us: OnRequestCancelled only")
		zz.Reach("client cancelled")
	case errResponderCancelled:
		zz.Assert(len(f.ev.Calls) == 0, "cancelled by the responder: nothing is reported")
		zz.Reach("responder cancelled")
	default:
		zz.Assert(len(f.ev.Calls) == 1 && f.ev.Calls[0].Op == evCompleted && f.ev.Calls[0].Chid == chid, "otherwise exactly one OnChannelCompleted for the request's channel")
		got := f.ev.Calls[0].Err
		zz.Assert((got == nil) == (last == errNone), "completion error iff the request failed")
		if last == errOther {
			zz.Assert(errors.Is(got, lastErr), "the completion error wraps the last graphsync error")
			zz.Reach("failed")
		} else {
			zz.Reach("completed")
		}
	}
}

// verifCallback fires one graphsync callback of the given kind for request rid, with content
// that would produce an event if the request were mapped (kinds 6 and 7, the message-carrying
// update / response hooks, are built by the caller).
const verifNumCallbacks = 10

func verifCallback(t *Transport, kind int, p peer.ID, rid graphsync.RequestID, act *verifActions) {
	blk := verifArbitraryBlock()
	zz.Assume(blk.onWire != 0)
	switch kind {
	case 0:
		t.gsIncomingBlockHook(p, &verifRespData{id: rid}, blk, act)
	case 1:
		t.gsOutgoingBlockHook(p, verifReq(rid), blk, act)
	case 2:
		t.gsBlockSentHook(p, verifReq(rid), blk)
	case 3:
		t.gsRequestProcessingListener(p, verifReq(rid), 1)
	case 4:
		t.gsCompletedResponseListener(p, verifReq(rid), graphsync.RequestCompletedFull)
	case 5:
		t.gsNetworkSendErrorListener(p, verifReq(rid), zz.Error("netErr"))
	case 8:
		t.gsRequestorCancelledListener(p, verifReq(rid))
	case 9:
		t.gsNetworkReceiveErrorListener(p, zz.Error("netErr"))
	}
}

// VerifC16_AfterCleanup: channels are created through the real hooks (A: two incoming requests
// r0 then r1 = restart; B: one outgoing request r2), optionally with per-channel stores; then A
// is cleaned up. Afterwards no callback for r0 or r1 produces an event, B is still served, and
// A's store was unregistered exactly once, under the name it was registered with, iff it was
// registered.
func VerifC16_AfterCleanup() {
	f := verifNewTransport()
	pA, pB := peer.ID(zz.String("pA")), peer.ID(zz.String("pB"))
	r0, r1, r2 := verifRid("r0"), verifRid("r1"), verifRid("r2")
	zz.Assume(r0 != r1 && r0 != r2 && r1 != r2)
	tidA, tidB := datatransfer.TransferID(zz.Uint64("tidA")), datatransfer.TransferID(zz.Uint64("tidB"))
	chA := datatransfer.ChannelID{Initiator: pA, Responder: f.self, ID: tidA}
	chB := datatransfer.ChannelID{Initiator: f.self, Responder: pB, ID: tidB}
	zz.Assume(chA != chB)
	storeA, storeB := zz.Bool("storeA"), zz.Bool("storeB")
	f.gs.StoreErr = nil
	if storeA {
		if zz.Bool("storeA.fails") {
			f.gs.StoreErr = zz.Error("storeErr")
		}
		_ = f.t.UseStore(chA, ipld.LinkSystem{})
	}
	registeredA := storeA && f.gs.StoreErr == nil
	f.gs.StoreErr = nil
	if storeB {
		zz.Assert(f.t.UseStore(chB, ipld.LinkSystem{}) == nil, "store registered")
	}
	reqA := verifArbitraryRequest("reqA")
	zz.SetInt(&reqA.TransferId, uint64(tidA))
	reqB := verifArbitraryRequest("reqB")
	zz.SetInt(&reqB.TransferId, uint64(tidB))
	f.t.gsReqRecdHook(pA, verifReqWith(r0, reqA), &verifActions{})
	f.t.gsReqRecdHook(pA, verifReqWith(r1, reqA), &verifActions{})
	f.t.gsOutgoingRequestHook(pB, verifReqWith(r2, reqB), &verifActions{})
	for _, r := range []graphsync.RequestID{r0, r1} {
		got, ok := f.t.requestIDToChannelID.load(r)
		zz.Assert(ok && got == chA, "setup: both requests of A are mapped")
	}
	regs := f.gs.count(gsRegister)
	zz.Assert(f.gs.count(gsUnregister) == 0, "no store is unregistered while its channel lives")

	f.t.CleanupChannel(chA)

	_, ok0 := f.t.requestIDToChannelID.load(r0)
	_, ok1 := f.t.requestIDToChannelID.load(r1)
	gotB, ok2 := f.t.requestIDToChannelID.load(r2)
	zz.Assert(!ok0 && !ok1, "after cleanup no request ID is mapped to the channel any more")
	zz.Assert(ok2 && gotB == chB, "the other channel's request is still mapped")
	_, tracked := f.t.dtChannels[chA]
	zz.Assert(!tracked && f.t.dtChannels[chB] != nil, "only the cleaned-up channel is forgotten")
	// stores
	zz.Assert(f.gs.count(gsRegister) == regs, "cleanup registers nothing")
	zz.Assert(f.gs.count(gsUnregister) == zz.Ite(registeredA, 1, 0), "the channel's store is unregistered at cleanup iff it was registered")
	if registeredA {
		reg, unreg := f.gs.Calls[0], f.gs.Calls[f.gs.last(gsUnregister)]
		zz.Assert(reg.Op == gsRegister && reg.Name == unreg.Name, "the store is unregistered under the name it was registered with")
		zz.Reach("store unregistered at cleanup")
	} else if storeA {
		zz.Reach("store registration failed: nothing to unregister")
	}
	if storeB {
		zz.Reach("other channel keeps its store")
	}

	// any callback for any of the three request IDs
	f.ev.Calls = nil
	f.ev.Err = nil
	rid := verifRid("rid")
	zz.Assume(rid == r0 || rid == r1 || rid == r2)
	kind := zz.Choice("callback", verifNumCallbacks)
	p := zz.Ite(rid == r2, pB, pA)
	if kind == 9 {
		p = peer.ID(zz.String("anyPeer"))
	}
	act := &verifActions{}
	switch kind {
	case 6:
		upd := verifReqWith(rid, reqA) // a request is acceptable on A (remote initiated) only
		f.t.gsRequestUpdatedHook(p, verifReq(rid), upd, act)
	case 7:
		resp := &verifRespData{id: rid, exts: map[graphsync.ExtensionName]ipld.Node{}}
		respB := verifArbitraryResponse("respB") // a response is acceptable on B (we initiated) only
		zz.SetInt(&respB.TransferId, uint64(tidB))
		resp.exts[extension.ExtensionDataTransfer1_1] = respB.ToIPLD()
		f.t.gsIncomingResponseHook(p, resp, act)
	default:
		verifCallback(f.t, kind, p, rid, act)
	}
	zz.Assert(f.ev.noneFor(chA), "no event for a channel after its cleanup")
	zz.Assert(f.ev.onlyFor(chB), "events only for the surviving channel")
	if rid != r2 && kind != 9 {
		zz.Assert(len(f.ev.Calls) == 0 && len(act.Log) == 0, "a callback for a request of the cleaned-up channel does nothing")
		zz.Reach("callback for a cleaned-up channel ignored")
	}
	if rid == r2 && kind != 6 && kind != 8 && kind != 9 {
		zz.Assert(len(f.ev.Calls) == 1, "the surviving channel is still served")
		zz.Reach("surviving channel still served")
	}
	if kind == 9 && (p == pB || p == f.self) {
		zz.Assert(len(f.ev.Calls) == 1 && f.ev.Calls[0].Op == evRecvErr, "a receive error is reported for the surviving channel of that peer")
		zz.Reach("receive error reaches the surviving channel only")
	}
	if kind == 8 && rid == r2 {
		zz.Assert(f.t.dtChannels[chB].requesterCancelled, "requester-cancelled is recorded on the surviving channel")
	}
}

// VerifC16_PauseResumeCancelTarget: PauseChannel / ResumeChannel / CloseChannel act on the
// channel's CURRENT request; nothing is sent to graphsync when there is no current request or
// the requester cancelled it; a message passed to ResumeChannel while the requester is gone is
// queued and sent exactly once with the requester's next request.
func VerifC16_PauseResumeCancelTarget() {
	f := verifNewTransport()
	p := peer.ID(zz.String("p"))
	tid := datatransfer.TransferID(zz.Uint64("tid"))
	chid := datatransfer.ChannelID{Initiator: p, Responder: f.self, ID: tid}
	r0, r1, r2, r3 := verifRid("r0"), verifRid("r1"), verifRid("r2"), verifRid("r3")
	zz.Assume(r0 != r1 && r0 != r2 && r0 != r3 && r1 != r2 && r1 != r3 && r2 != r3)
	req := verifArbitraryRequest("req")
	zz.SetInt(&req.TransferId, uint64(tid))
	ctx := context.Background()

	// state: 0 = tracked, never requested; 1 = one request; 2 = restarted (second request)
	state := zz.Choice("state", 3)
	var current *graphsync.RequestID
	switch state {
	case 0:
		zz.Assert(f.t.UseStore(chid, ipld.LinkSystem{}) == nil, "tracked through UseStore")
	case 1:
		f.t.gsReqRecdHook(p, verifReqWith(r0, req), &verifActions{})
		current = &r0
	case 2:
		f.t.gsReqRecdHook(p, verifReqWith(r0, req), &verifActions{})
		f.t.gsReqRecdHook(p, verifReqWith(r1, req), &verifActions{})
		current = &r1
	}
	cancelled := false
	if state > 0 && zz.Bool("requesterCancelled") {
		// graphsync reports the cancel for either request ID of the channel
		f.t.gsRequestorCancelledListener(p, verifReq(zz.Ite(zz.Bool("cancelNamesOld"), r0, *current)))
		cancelled = true
	}
	live := current != nil && !cancelled
	f.gs.Calls = nil
	f.ev.Calls = nil
	ch := f.t.dtChannels[chid]
	zz.Assert(ch != nil, "channel tracked")

	switch zz.Choice("op", 3) {
	case 0:
		f.gs.PauseErr = verifMaybeErr("pauseErr")
		err := f.t.PauseChannel(ctx, chid)
		if live {
			zz.Assert(len(f.gs.Calls) == 1 && f.gs.Calls[0].Op == gsPause && f.gs.Calls[0].ID == *current, "pause targets the channel's current request")
			zz.Assert(err == f.gs.PauseErr, "pause reports graphsync's answer")
			zz.Reach("pause: current request")
		} else {
			zz.Assert(len(f.gs.Calls) == 0 && err == nil, "pause without a live request does nothing")
			zz.Reach("pause: nothing to pause")
		}
	case 1:
		var msg datatransfer.Message
		if zz.Bool("withMsg") {
			msg = verifArbitraryResponse("msg")
		}
		f.gs.UnpauseErr = verifMaybeErr("unpauseErr")
		err := f.t.ResumeChannel(ctx, msg, chid)
		if live {
			zz.Assert(len(f.gs.Calls) == 1 && f.gs.Calls[0].Op == gsUnpause && f.gs.Calls[0].ID == *current, "resume targets the channel's current request")
			zz.Assert(err == f.gs.UnpauseErr, "resume reports graphsync's answer")
			exts := f.gs.Calls[0].Exts
			if msg != nil {
				zz.Assert(len(exts) == 1 && exts[0].Name == extension.ExtensionDataTransfer1_1 && verifCarries(exts[0].Data, msg), "resume carries the message")
			} else {
				zz.Assert(len(exts) == 0, "resume without a message carries nothing")
			}
			zz.Reach("resume: current request")
			return
		}
		zz.Assert(len(f.gs.Calls) == 0 && err == nil, "resume without a live request sends nothing to graphsync")
		if !cancelled {
			zz.Assert(len(ch.pendingExtensions) == 0, "nothing is queued for a channel that has no request")
			zz.Reach("resume: nothing to resume")
			return
		}
		zz.Assert(len(ch.pendingExtensions) == zz.Ite(msg != nil, 1, 0), "the message is queued while the requester is gone")
		// the requester comes back with a new request
		act := &verifActions{}
		f.t.gsReqRecdHook(p, verifReqWith(r2, req), act)
		if msg != nil {
			zz.Assert(act.carried(actSendExt, f.t.supportedExtensions, msg), "the queued message is sent with the requester's next request")
			zz.Reach("queued message sent with the next request")
		} else {
			zz.Assert(act.count(actSendExt) == 0, "nothing queued, nothing sent")
		}
		zz.Assert(len(ch.pendingExtensions) == 0 && !ch.requesterCancelled, "the queue is cleared and the channel is live again")
		act2 := &verifActions{}
		f.t.gsReqRecdHook(p, verifReqWith(r3, req), act2)
		zz.Assert(act2.count(actSendExt) == 0, "the queued message is sent exactly once")
		zz.Assert(f.t.PauseChannel(ctx, chid) == nil && len(f.gs.Calls) == 1 && f.gs.Calls[0].Op == gsPause && f.gs.Calls[0].ID == r3, "later operations target the newest request")
		zz.Reach("newest request targeted after the requester returned")
	case 2:
		if current == nil {
			// CloseChannel without a current request: see VerifC09_CloseReturns (known defect)
			zz.Reach("close: no request (covered by C09)")
			return
		}
		f.gs.CancelErr = verifMaybeErr("cancelErr")
		err := f.t.CloseChannel(ctx, chid)
		zz.Settle()
		if live {
			zz.Assert(len(f.gs.Calls) == 1 && f.gs.Calls[0].Op == gsCancel && f.gs.Calls[0].ID == *current && f.gs.Calls[0].Returned, "close cancels the channel's current request")
			zz.Assert((err == nil) == (f.gs.CancelErr == nil), "close reports graphsync's answer")
			zz.Assert(ch.requestID == nil, "the channel has no current request after close")
			zz.Reach("close: current request cancelled")
		} else {
			zz.Assert(len(f.gs.Calls) == 0 && err == nil, "close of a requester-cancelled request sends nothing to graphsync")
			zz.Reach("close: requester already cancelled")
		}
	}
}

func verifMaybeErr(label string) error {
	if zz.Bool(label + ".set") {
		return zz.Error(label)
	}
	return nil
}

// VerifC16_Listeners: the callbacks that carry no data-transfer content (request processing
// started, network send error, requester cancelled, network receive error) with an arbitrary
// request ID / peer.
func VerifC16_Listeners() {
	w := verifNewWorld()
	rid := verifRid("rid")
	p := peer.ID(zz.String("p"))
	verifOutcome(w.ev, "outcome")
	owner, known := w.owner(rid)
	gserr := zz.Error("gsErr")
	kind := zz.Choice("listener", 4)
	switch kind {
	case 0:
		w.t.gsRequestProcessingListener(p, verifReq(rid), zz.Int("inProgress"))
	case 1:
		w.t.gsNetworkSendErrorListener(p, verifReq(rid), gserr)
	case 2:
		w.t.gsRequestorCancelledListener(p, verifReq(rid))
	case 3:
		w.t.gsNetworkReceiveErrorListener(p, gserr)
	}
	if kind == 3 {
		// not tied to a request: every channel that has a mapped request with that peer, no other
		partyA := w.chA.Initiator == p || w.chA.Responder == p
		partyB := w.chB.Initiator == p || w.chB.Responder == p
		for _, c := range w.ev.Calls {
			zz.Assert(c.Op == evRecvErr && c.Err == gserr, "receive error is reported as such")
			zz.Assert((c.Chid == w.chA && partyA) || (c.Chid == w.chB && partyB), "receive error only reaches channels of that peer")
		}
		zz.Assert(w.ev.noneFor(w.chA) == !partyA && w.ev.noneFor(w.chB) == !partyB, "receive error reaches every channel of that peer")
		if partyA && !partyB {
			zz.Reach("receive error: one channel")
		}
		if !partyA && !partyB {
			zz.Reach("receive error: peer without channels")
		}
		return
	}
	if !known {
		zz.Assert(len(w.ev.Calls) == 0, "listener for an unknown request: no event")
		zz.Assert(!w.t.dtChannels[w.chA].requesterCancelled && !w.t.dtChannels[w.chB].requesterCancelled, "listener for an unknown request: no channel is touched")
		zz.Reach("unknown request")
		return
	}
	switch kind {
	case 0:
		zz.Assert(len(w.ev.Calls) == 1 && w.ev.Calls[0].Op == evInitiated && w.ev.Calls[0].Chid == owner, "processing start is reported once, for the channel that owns the request")
		zz.Reach("transfer initiated")
	case 1:
		zz.Assert(len(w.ev.Calls) == 1 && w.ev.Calls[0].Op == evSendErr && w.ev.Calls[0].Chid == owner && w.ev.Calls[0].Err == gserr, "send error is reported once, for the channel that owns the request")
		zz.Reach("send error")
	case 2:
		zz.Assert(len(w.ev.Calls) == 0, "requester cancel produces no channel event")
		other := zz.Ite(owner == w.chA, w.chB, w.chA)
		zz.Assert(w.t.dtChannels[owner].requesterCancelled && !w.t.dtChannels[other].requesterCancelled, "requester cancel is recorded on the channel that owns the request, only")
		zz.Reach("requester cancelled")
	}
}
