package graphsync

import (
	"context"
	"errors"
	"strconv"

	"github.com/ipfs/go-graphsync"
	ipld "github.com/ipld/go-ipld-prime"
	"github.com/ipld/go-ipld-prime/datamodel"
	cidlink "github.com/ipld/go-ipld-prime/linking/cid"
	"github.com/ipld/go-ipld-prime/traversal"
	"github.com/libp2p/go-libp2p/core/peer"

	datatransfer "github.com/filecoin-project/go-data-transfer/v2"
	"github.com/filecoin-project/go-data-transfer/v2/message"
	message1_1 "github.com/filecoin-project/go-data-transfer/v2/message/message1_1prime"
	"github.com/filecoin-project/go-data-transfer/v2/transport/graphsync/extension"
	zz "github.com/filecoin-project/go-data-transfer/v2/zzverif"
)

// ---- codec seams ------------------------------------------------------------
//
// The data-transfer message <-> IPLD node codec is bindnode (reflection), which the engine
// does not interpret. In the engine an encoded message is an opaque node that remembers the
// message it encodes (injective, total on *TransferRequest1_1 / *TransferResponse1_1), and
// decoding is its inverse; a node that is not such an encoding fails to decode. Natively the
// stubs do not exist: the same harness code runs against the real bindnode codec.
//
// The fail-safe wait of dtChannel.open is one second; natively it is shortened so that a replay
// of the "timer fired" scenario fits the replay watchdog.
//
//verif:stub github.com/filecoin-project/go-data-transfer/v2/message/message1_1prime.FromIPLD verifFromIPLD
//verif:stub (*github.com/filecoin-project/go-data-transfer/v2/message/message1_1prime.TransferRequest1_1).ToIPLD verifReqToIPLD
//verif:stub (*github.com/filecoin-project/go-data-transfer/v2/message/message1_1prime.TransferResponse1_1).ToIPLD verifRespToIPLD
//verif:stub github.com/ipfs/go-graphsync/donotsendfirstblocks.EncodeDoNotSendFirstBlocks verifEncodeSkip
//verif:native-rewrite transport/graphsync/graphsync.go const maxGSCancelWait = time.Second => const maxGSCancelWait = 300 * time.Millisecond

// verifMsgNode is the engine's encoding of a data-transfer message (or of undecodable bytes).
type verifMsgNode struct {
	datamodel.Node
	msg datatransfer.Message
	err error
}

// verifIntNode is the engine's encoding of a do-not-send-first-blocks count.
type verifIntNode struct {
	datamodel.Node
	n int64
}

func verifFromIPLD(node datamodel.Node) (datatransfer.Message, error) {
	n, ok := node.(*verifMsgNode)
	if !ok {
		return nil, errors.New("verif: node is not a data-transfer message")
	}
	if n.err != nil {
		return nil, n.err
	}
	return n.msg, nil
}

func verifReqToIPLD(trq *message1_1.TransferRequest1_1) datamodel.Node {
	return &verifMsgNode{msg: trq}
}

func verifRespToIPLD(trsp *message1_1.TransferResponse1_1) datamodel.Node {
	return &verifMsgNode{msg: trsp}
}

func verifEncodeSkip(n int64) datamodel.Node { return &verifIntNode{n: n} }

// verifChidString: ChannelID.String is fmt.Sprintf (a fresh atom per call in the engine);
// the stub makes it a function of the channel ID, which is all the transport relies on.
func verifChidString(c datatransfer.ChannelID) string {
	return string(c.Initiator) + "-" + string(c.Responder) + "-" + strconv.Itoa(int(c.ID))
}

// verifBadNode is extension data that does not decode to a data-transfer message.
func verifBadNode() datamodel.Node {
	if zz.Engine() {
		return &verifMsgNode{err: zz.Error("decodeErr")}
	}
	return zz.Node("garbage")
}

// verifSkipCount decodes a do-not-send-first-blocks extension.
func verifSkipCount(n datamodel.Node) (int64, bool) {
	if zz.Engine() {
		in, ok := n.(*verifIntNode)
		if !ok {
			return 0, false
		}
		return in.n, true
	}
	v, err := n.AsInt()
	return v, err == nil
}

// verifSameMsg: the two messages are the same data-transfer message (kind and the fields the
// harnesses make arbitrary).
func verifSameMsg(a, b datatransfer.Message) bool {
	if a == nil || b == nil {
		return a == nil && b == nil
	}
	if a.IsRequest() != b.IsRequest() || a.TransferID() != b.TransferID() {
		return false
	}
	if a.IsRequest() {
		x, ok1 := a.(*message1_1.TransferRequest1_1)
		y, ok2 := b.(*message1_1.TransferRequest1_1)
		return ok1 && ok2 && x.MessageType == y.MessageType && x.Pull == y.Pull && x.Pause == y.Pause && x.Partial == y.Partial
	}
	x, ok1 := a.(*message1_1.TransferResponse1_1)
	y, ok2 := b.(*message1_1.TransferResponse1_1)
	return ok1 && ok2 && x.MessageType == y.MessageType && x.RequestAccepted == y.RequestAccepted && x.Paused == y.Paused
}

// verifCarries: extension data `n` is the encoding of msg.
func verifCarries(n datamodel.Node, msg datatransfer.Message) bool {
	if n == nil {
		return false
	}
	got, err := message.FromIPLD(n)
	return err == nil && verifSameMsg(got, msg)
}

// verifArbitraryRequest / verifArbitraryResponse: decoded messages whose every scalar field
// (transfer ID, message type, flags, voucher type, embedded restart channel) is arbitrary.
func verifArbitraryRequest(label string) *message1_1.TransferRequest1_1 {
	r := &message1_1.TransferRequest1_1{}
	zz.Symbolic(r, label)
	return r
}

func verifArbitraryResponse(label string) *message1_1.TransferResponse1_1 {
	r := &message1_1.TransferResponse1_1{}
	zz.Symbolic(r, label)
	return r
}

func verifLink(label string) ipld.Link { return cidlink.Link{Cid: zz.Cid(label)} }

func verifRid(label string) graphsync.RequestID {
	var id graphsync.RequestID
	zz.Symbolic(&id, label)
	return id
}

func verifChid(label string) datatransfer.ChannelID {
	var c datatransfer.ChannelID
	zz.Symbolic(&c, label)
	return c
}

// ---- EventsHandler double -----------------------------------------------------

const (
	evOpened     = "OnChannelOpened"
	evResponse   = "OnResponseReceived"
	evReceived   = "OnDataReceived"
	evQueued     = "OnDataQueued"
	evSent       = "OnDataSent"
	evInitiated  = "OnTransferInitiated"
	evRequest    = "OnRequestReceived"
	evCompleted  = "OnChannelCompleted"
	evCancelled  = "OnRequestCancelled"
	evDisconnect = "OnRequestDisconnected"
	evSendErr    = "OnSendDataError"
	evRecvErr    = "OnReceiveDataError"
	evCtxAugment = "OnContextAugment"
)

type verifEvCall struct {
	Op     string
	Chid   datatransfer.ChannelID
	Link   ipld.Link
	Size   uint64
	Index  int64
	Unique bool
	Err    error
	Msg    datatransfer.Message
}

// verifEvents records every EventsHandler call. Err / Resp are what the data and message
// callbacks answer (configured by the harness before the stimulus).
type verifEvents struct {
	Calls []verifEvCall
	Err   error                 // nil, datatransfer.ErrPause or another error
	Resp  datatransfer.Response // message returned by OnRequestReceived / OnDataQueued (may be nil)
	// OnReq, when set, runs inside OnRequestReceived: the manager applies the channel's transport
	// options (Transport.UseStore / MaxLinks) from inside that callback.
	OnReq func(chid datatransfer.ChannelID)
}

func (e *verifEvents) OnChannelOpened(chid datatransfer.ChannelID) error {
	e.Calls = append(e.Calls, verifEvCall{Op: evOpened, Chid: chid})
	return e.Err
}
func (e *verifEvents) OnResponseReceived(chid datatransfer.ChannelID, msg datatransfer.Response) error {
	e.Calls = append(e.Calls, verifEvCall{Op: evResponse, Chid: chid, Msg: msg})
	return e.Err
}
func (e *verifEvents) OnDataReceived(chid datatransfer.ChannelID, link ipld.Link, size uint64, index int64, unique bool) error {
	e.Calls = append(e.Calls, verifEvCall{Op: evReceived, Chid: chid, Link: link, Size: size, Index: index, Unique: unique})
	return e.Err
}
func (e *verifEvents) OnDataQueued(chid datatransfer.ChannelID, link ipld.Link, size uint64, index int64, unique bool) (datatransfer.Message, error) {
	e.Calls = append(e.Calls, verifEvCall{Op: evQueued, Chid: chid, Link: link, Size: size, Index: index, Unique: unique})
	if e.Resp == nil {
		return nil, e.Err
	}
	return e.Resp, e.Err
}
func (e *verifEvents) OnDataSent(chid datatransfer.ChannelID, link ipld.Link, size uint64, index int64, unique bool) error {
	e.Calls = append(e.Calls, verifEvCall{Op: evSent, Chid: chid, Link: link, Size: size, Index: index, Unique: unique})
	return e.Err
}
func (e *verifEvents) OnTransferInitiated(chid datatransfer.ChannelID) {
	e.Calls = append(e.Calls, verifEvCall{Op: evInitiated, Chid: chid})
}
func (e *verifEvents) OnRequestReceived(chid datatransfer.ChannelID, msg datatransfer.Request) (datatransfer.Response, error) {
	e.Calls = append(e.Calls, verifEvCall{Op: evRequest, Chid: chid, Msg: msg})
	if e.OnReq != nil {
		e.OnReq(chid)
	}
	return e.Resp, e.Err
}
func (e *verifEvents) OnChannelCompleted(chid datatransfer.ChannelID, err error) error {
	e.Calls = append(e.Calls, verifEvCall{Op: evCompleted, Chid: chid, Err: err})
	return e.Err
}
func (e *verifEvents) OnRequestCancelled(chid datatransfer.ChannelID, err error) error {
	e.Calls = append(e.Calls, verifEvCall{Op: evCancelled, Chid: chid, Err: err})
	return e.Err
}
func (e *verifEvents) OnRequestDisconnected(chid datatransfer.ChannelID, err error) error {
	e.Calls = append(e.Calls, verifEvCall{Op: evDisconnect, Chid: chid, Err: err})
	return e.Err
}
func (e *verifEvents) OnSendDataError(chid datatransfer.ChannelID, err error) error {
	e.Calls = append(e.Calls, verifEvCall{Op: evSendErr, Chid: chid, Err: err})
	return e.Err
}
func (e *verifEvents) OnReceiveDataError(chid datatransfer.ChannelID, err error) error {
	e.Calls = append(e.Calls, verifEvCall{Op: evRecvErr, Chid: chid, Err: err})
	return e.Err
}
func (e *verifEvents) OnContextAugment(chid datatransfer.ChannelID) func(context.Context) context.Context {
	e.Calls = append(e.Calls, verifEvCall{Op: evCtxAugment, Chid: chid})
	return func(ctx context.Context) context.Context { return ctx }
}

func (e *verifEvents) count(op string) int {
	n := 0
	for _, c := range e.Calls {
		if c.Op == op {
			n++
		}
	}
	return n
}

// onlyFor: every recorded call names channel chid.
func (e *verifEvents) onlyFor(chid datatransfer.ChannelID) bool {
	for _, c := range e.Calls {
		if c.Chid != chid {
			return false
		}
	}
	return true
}

// noneFor: no recorded call names channel chid.
func (e *verifEvents) noneFor(chid datatransfer.ChannelID) bool {
	for _, c := range e.Calls {
		if c.Chid == chid {
			return false
		}
	}
	return true
}

// verifOutcome configures what the events double answers: nil / ErrPause / another error.
func verifOutcome(e *verifEvents, label string) (kind int) {
	kind = zz.Choice(label, 3)
	switch kind {
	case 1:
		e.Err = datatransfer.ErrPause
	case 2:
		e.Err = zz.Error("handlerErr")
	}
	return kind
}

// ---- GraphExchange double -----------------------------------------------------

const (
	gsRequest    = "Request"
	gsCancel     = "Cancel"
	gsPause      = "Pause"
	gsUnpause    = "Unpause"
	gsRegister   = "RegisterPersistenceOption"
	gsUnregister = "UnregisterPersistenceOption"
)

type verifGsCall struct {
	Op       string
	ID       graphsync.RequestID
	Peer     peer.ID
	Name     string
	Exts     []graphsync.ExtensionData
	Returned bool // Cancel: the call has returned
	Mark     bool // Request: snapshot of verifGS.MarkNext when the call was made
}

// verifGS is a recording GraphExchange. Methods the transport never calls are left to the
// embedded nil interface.
type verifGS struct {
	graphsync.GraphExchange
	Calls      []verifGsCall
	Hooks      int // number of Register*Hook / Register*Listener calls
	CancelErr  error
	PauseErr   error
	UnpauseErr error
	StoreErr   error // returned by RegisterPersistenceOption
	// CancelGate, when non-nil, makes Cancel wait for a value before it returns.
	CancelGate chan struct{}
	// OnCancel, when set, runs inside Cancel before it returns: graphsync serialises a local cancel
	// behind the callbacks already in progress on its loop (requester-cancelled listener, incoming
	// request hook, ...), so Cancel may complete only after such a callback has returned.
	OnCancel func(id graphsync.RequestID)
	// OnRequest, when set, plays graphsync's part of Request: it runs the outgoing-request
	// hook for the new request and returns the progress / error channels.
	OnRequest func(p peer.ID, exts []graphsync.ExtensionData) (<-chan graphsync.ResponseProgress, <-chan error)
	MarkNext  bool
}

func (g *verifGS) Request(ctx context.Context, p peer.ID, root ipld.Link, selector ipld.Node, exts ...graphsync.ExtensionData) (<-chan graphsync.ResponseProgress, <-chan error) {
	g.Calls = append(g.Calls, verifGsCall{Op: gsRequest, Peer: p, Exts: exts, Mark: g.MarkNext})
	if g.OnRequest != nil {
		return g.OnRequest(p, exts)
	}
	rc := make(chan graphsync.ResponseProgress)
	ec := make(chan error)
	close(rc)
	close(ec)
	return rc, ec
}
func (g *verifGS) RegisterPersistenceOption(name string, lsys ipld.LinkSystem) error {
	g.Calls = append(g.Calls, verifGsCall{Op: gsRegister, Name: name})
	return g.StoreErr
}
func (g *verifGS) UnregisterPersistenceOption(name string) error {
	g.Calls = append(g.Calls, verifGsCall{Op: gsUnregister, Name: name})
	return nil
}
func (g *verifGS) Pause(ctx context.Context, id graphsync.RequestID) error {
	g.Calls = append(g.Calls, verifGsCall{Op: gsPause, ID: id})
	return g.PauseErr
}
func (g *verifGS) Unpause(ctx context.Context, id graphsync.RequestID, exts ...graphsync.ExtensionData) error {
	g.Calls = append(g.Calls, verifGsCall{Op: gsUnpause, ID: id, Exts: exts})
	return g.UnpauseErr
}
func (g *verifGS) Cancel(ctx context.Context, id graphsync.RequestID) error {
	i := len(g.Calls)
	g.Calls = append(g.Calls, verifGsCall{Op: gsCancel, ID: id})
	if g.CancelGate != nil {
		<-g.CancelGate
	}
	if h := g.OnCancel; h != nil {
		g.OnCancel = nil
		h(id)
	}
	g.Calls[i].Returned = true
	return g.CancelErr
}

func (g *verifGS) unreg() graphsync.UnregisterHookFunc { g.Hooks++; return func() {} }

func (g *verifGS) RegisterIncomingRequestHook(graphsync.OnIncomingRequestHook) graphsync.UnregisterHookFunc {
	return g.unreg()
}
func (g *verifGS) RegisterIncomingResponseHook(graphsync.OnIncomingResponseHook) graphsync.UnregisterHookFunc {
	return g.unreg()
}
func (g *verifGS) RegisterIncomingBlockHook(graphsync.OnIncomingBlockHook) graphsync.UnregisterHookFunc {
	return g.unreg()
}
func (g *verifGS) RegisterOutgoingRequestHook(graphsync.OnOutgoingRequestHook) graphsync.UnregisterHookFunc {
	return g.unreg()
}
func (g *verifGS) RegisterOutgoingBlockHook(graphsync.OnOutgoingBlockHook) graphsync.UnregisterHookFunc {
	return g.unreg()
}
func (g *verifGS) RegisterRequestUpdatedHook(graphsync.OnRequestUpdatedHook) graphsync.UnregisterHookFunc {
	return g.unreg()
}
func (g *verifGS) RegisterOutgoingRequestProcessingListener(graphsync.OnRequestProcessingListener) graphsync.UnregisterHookFunc {
	return g.unreg()
}
func (g *verifGS) RegisterIncomingRequestProcessingListener(graphsync.OnRequestProcessingListener) graphsync.UnregisterHookFunc {
	return g.unreg()
}
func (g *verifGS) RegisterCompletedResponseListener(graphsync.OnResponseCompletedListener) graphsync.UnregisterHookFunc {
	return g.unreg()
}
func (g *verifGS) RegisterRequestorCancelledListener(graphsync.OnRequestorCancelledListener) graphsync.UnregisterHookFunc {
	return g.unreg()
}
func (g *verifGS) RegisterBlockSentListener(graphsync.OnBlockSentListener) graphsync.UnregisterHookFunc {
	return g.unreg()
}
func (g *verifGS) RegisterNetworkErrorListener(graphsync.OnNetworkErrorListener) graphsync.UnregisterHookFunc {
	return g.unreg()
}
func (g *verifGS) RegisterReceiverNetworkErrorListener(graphsync.OnReceiverNetworkErrorListener) graphsync.UnregisterHookFunc {
	return g.unreg()
}

func (g *verifGS) count(op string) int {
	n := 0
	for _, c := range g.Calls {
		if c.Op == op {
			n++
		}
	}
	return n
}

// last returns the index of the last call of kind op, or -1.
func (g *verifGS) last(op string) int {
	k := -1
	for i, c := range g.Calls {
		if c.Op == op {
			k = i
		}
	}
	return k
}

// ---- request / response / block doubles ---------------------------------------

// verifReqData is a graphsync.RequestData with a request ID and extension data.
type verifReqData struct {
	graphsync.RequestData
	id   graphsync.RequestID
	exts map[graphsync.ExtensionName]datamodel.Node
}

func (r *verifReqData) ID() graphsync.RequestID { return r.id }
func (r *verifReqData) Extension(name graphsync.ExtensionName) (datamodel.Node, bool) {
	n, ok := r.exts[name]
	return n, ok
}

// verifRespData is a graphsync.ResponseData with a request ID and extension data.
type verifRespData struct {
	graphsync.ResponseData
	id   graphsync.RequestID
	exts map[graphsync.ExtensionName]datamodel.Node
}

func (r *verifRespData) RequestID() graphsync.RequestID { return r.id }
func (r *verifRespData) Extension(name graphsync.ExtensionName) (datamodel.Node, bool) {
	n, ok := r.exts[name]
	return n, ok
}

func verifReq(id graphsync.RequestID) *verifReqData {
	return &verifReqData{id: id, exts: map[graphsync.ExtensionName]datamodel.Node{}}
}

// verifReqWith: a request whose data-transfer extension (default name) encodes msg.
func verifReqWith(id graphsync.RequestID, msg datatransfer.Message) *verifReqData {
	r := verifReq(id)
	r.exts[extension.ExtensionDataTransfer1_1] = msg.ToIPLD()
	return r
}

type verifBlock struct {
	link   ipld.Link
	size   uint64
	onWire uint64
	index  int64
}

func (b *verifBlock) Link() ipld.Link         { return b.link }
func (b *verifBlock) BlockSize() uint64       { return b.size }
func (b *verifBlock) BlockSizeOnWire() uint64 { return b.onWire }
func (b *verifBlock) Index() int64            { return b.index }

func verifArbitraryBlock() *verifBlock {
	return &verifBlock{link: verifLink("blk.link"), size: zz.Uint64("blk.size"), onWire: zz.Uint64("blk.onWire"), index: zz.Int64("blk.index")}
}

// ---- hook-action double (implements all six hook-action interfaces) -----------

const (
	actAugment     = "AugmentContext"
	actSendExt     = "SendExtensionData"
	actPersistence = "UsePersistenceOption"
	actChooser     = "UseLinkTargetNodePrototypeChooser"
	actTerminate   = "TerminateWithError"
	actValidate    = "ValidateRequest"
	actPauseResp   = "PauseResponse"
	actPauseReq    = "PauseRequest"
	actUnpauseResp = "UnpauseResponse"
	actMaxLinks    = "MaxLinks"
	actUpdateReq   = "UpdateRequestWithExtensions"
)

type verifAct struct {
	Op   string
	Ext  graphsync.ExtensionData
	Err  error
	Name string
	N    uint64
}

type verifActions struct{ Log []verifAct }

func (a *verifActions) AugmentContext(func(context.Context) context.Context) {
	a.Log = append(a.Log, verifAct{Op: actAugment})
}
func (a *verifActions) SendExtensionData(e graphsync.ExtensionData) {
	a.Log = append(a.Log, verifAct{Op: actSendExt, Ext: e})
}
func (a *verifActions) UsePersistenceOption(name string) {
	a.Log = append(a.Log, verifAct{Op: actPersistence, Name: name})
}
func (a *verifActions) UseLinkTargetNodePrototypeChooser(traversal.LinkTargetNodePrototypeChooser) {
	a.Log = append(a.Log, verifAct{Op: actChooser})
}
func (a *verifActions) TerminateWithError(err error) {
	a.Log = append(a.Log, verifAct{Op: actTerminate, Err: err})
}
func (a *verifActions) ValidateRequest() { a.Log = append(a.Log, verifAct{Op: actValidate}) }
func (a *verifActions) PauseResponse()   { a.Log = append(a.Log, verifAct{Op: actPauseResp}) }
func (a *verifActions) PauseRequest()    { a.Log = append(a.Log, verifAct{Op: actPauseReq}) }
func (a *verifActions) UnpauseResponse() { a.Log = append(a.Log, verifAct{Op: actUnpauseResp}) }
func (a *verifActions) MaxLinks(n uint64) {
	a.Log = append(a.Log, verifAct{Op: actMaxLinks, N: n})
}
func (a *verifActions) UpdateRequestWithExtensions(es ...graphsync.ExtensionData) {
	for _, e := range es {
		a.Log = append(a.Log, verifAct{Op: actUpdateReq, Ext: e})
	}
}

func (a *verifActions) count(op string) int {
	n := 0
	for _, c := range a.Log {
		if c.Op == op {
			n++
		}
	}
	return n
}

// carried: the extension-carrying actions of kind op attach exactly one encoding of msg per
// name in names, in order, and nothing else.
func (a *verifActions) carried(op string, names []graphsync.ExtensionName, msg datatransfer.Message) bool {
	k := 0
	for _, c := range a.Log {
		if c.Op != op {
			continue
		}
		if k >= len(names) || c.Ext.Name != names[k] || !verifCarries(c.Ext.Data, msg) {
			return false
		}
		k++
	}
	return k == len(names)
}

// ---- transport fixture ---------------------------------------------------------

type verifFix struct {
	t    *Transport
	gs   *verifGS
	ev   *verifEvents
	self peer.ID
}

func verifNewTransport() *verifFix {
	f := &verifFix{gs: &verifGS{}, ev: &verifEvents{}, self: peer.ID(zz.String("self"))}
	f.t = NewTransport(f.self, f.gs)
	zz.Assert(f.t.SetEventHandler(f.ev) == nil, "event handler installed")
	zz.Assert(f.gs.Hooks == 13, "every graphsync hook and listener is registered")
	return f
}

// verifTrack installs request rid for channel chid directly in the transport state, as
// gsReqOpened (sending=false) / gsDataRequestRcvd (sending=true) leave it.
func (f *verifFix) verifTrack(chid datatransfer.ChannelID, rid graphsync.RequestID, sending bool) *dtChannel {
	ch := f.t.trackDTChannel(chid)
	f.t.requestIDToChannelID.set(rid, sending, chid)
	id := rid
	ch.requestID = &id
	ch.isOpen = true
	return ch
}

// verifWorld is the common pre-state: two distinct channels; channel A owns requests r0
// (superseded by a restart) and r1 (current); channel B owns r2.
type verifWorld struct {
	*verifFix
	chA, chB   datatransfer.ChannelID
	r0, r1, r2 graphsync.RequestID
}

func verifNewWorld() *verifWorld {
	w := &verifWorld{verifFix: verifNewTransport()}
	w.chA, w.chB = verifChid("chA"), verifChid("chB")
	zz.Assume(w.chA != w.chB)
	w.r0, w.r1, w.r2 = verifRid("r0"), verifRid("r1"), verifRid("r2")
	zz.Assume(w.r0 != w.r1 && w.r0 != w.r2 && w.r1 != w.r2)
	w.verifTrack(w.chA, w.r0, zz.Bool("r0.sending"))
	w.verifTrack(w.chA, w.r1, zz.Bool("r1.sending"))
	w.verifTrack(w.chB, w.r2, zz.Bool("r2.sending"))
	return w
}

// owner: the channel that owns rid in a verifWorld, if any (ghost; does not fork).
func (w *verifWorld) owner(rid graphsync.RequestID) (datatransfer.ChannelID, bool) {
	known := rid == w.r0 || rid == w.r1 || rid == w.r2
	return zz.Ite(rid == w.r2, w.chB, w.chA), known
}
