package graphsync

import (
	ipld "github.com/ipld/go-ipld-prime"
	"github.com/ipld/go-ipld-prime/datamodel"
	"github.com/libp2p/go-libp2p/core/peer"

	datatransfer "github.com/filecoin-project/go-data-transfer/v2"
	"github.com/filecoin-project/go-data-transfer/v2/transport/graphsync/extension"
	zz "github.com/filecoin-project/go-data-transfer/v2/zzverif"
)

// Property C16 — "Transport routes each graphsync event to its channel; none after cleanup".

// verifSameBlockCall: the recorded data callback names this channel and reports exactly the
// block's link, size and index.
func verifSameBlockCall(c verifEvCall, op string, chid datatransfer.ChannelID, b *verifBlock) bool {
	return c.Op == op && c.Chid == chid && c.Link == b.link && c.Size == b.size && c.Index == b.index
}

// VerifC16_BlockHooks: the three block callbacks (block received, block queued for sending,
// block sent) with an arbitrary request ID (one of the three known requests or none), an
// arbitrary block (on-wire size zero or not) and every handler answer (nil / ErrPause /
// another error, with or without a message to attach).
func VerifC16_BlockHooks() { verifBlockHooks() }

// VerifC07_NotOnWireNotAccounted: the transport half of property C07 ("blocks that were not put
// on the wire produce no queued or sent accounting", "a report is made for the owning channel
// with the block's size, position and on-wire flag"): the same harness under C07's name, so that
// C07's own check covers the filter in front of the accounting.
func VerifC07_NotOnWireNotAccounted() { verifBlockHooks() }

func verifBlockHooks() {
	w := verifNewWorld()
	rid := verifRid("rid")
	p := peer.ID(zz.String("p"))
	blk := verifArbitraryBlock()
	outcome := verifOutcome(w.ev, "outcome")
	if zz.Bool("withMsg") {
		w.ev.Resp = verifArbitraryResponse("resp")
	}
	want, known := w.owner(rid)
	act := &verifActions{}
	onWire := blk.onWire != 0

	hook := zz.Choice("hook", 3)
	switch hook {
	case 0: // a block was received (requester side)
		w.t.gsIncomingBlockHook(p, &verifRespData{id: rid}, blk, act)
		if !known {
			zz.Assert(len(w.ev.Calls) == 0 && len(act.Log) == 0, "received block of an unknown request: no event, no action")
			zz.Reach("received: unknown request")
			return
		}
		zz.Assert(len(w.ev.Calls) == 1 && verifSameBlockCall(w.ev.Calls[0], evReceived, want, blk), "received block is reported once, for the channel that owns the request")
		zz.Assert(w.ev.Calls[0].Unique == onWire, "a received block is flagged unique iff it came over the wire")
		switch outcome {
		case 0:
			zz.Assert(len(act.Log) == 0, "received, handler ok: no action")
			zz.Reach("received: routed")
		case 1:
			zz.Assert(len(act.Log) == 1 && act.Log[0].Op == actPauseReq, "received, ErrPause: the request is paused")
			zz.Reach("received: pause")
		case 2:
			zz.Assert(len(act.Log) == 1 && act.Log[0].Op == actTerminate && act.Log[0].Err == w.ev.Err, "received, error: the request is terminated with that error")
			zz.Reach("received: terminate")
		}
		if !onWire {
			zz.Reach("received: local block")
		}
	case 1: // a block is queued for sending (responder side)
		w.t.gsOutgoingBlockHook(p, &verifReqData{id: rid}, blk, act)
		if !known || !onWire {
			zz.Assert(len(w.ev.Calls) == 0 && len(act.Log) == 0, "queued block of an unknown request or not put on the wire: no accounting, no action")
			if known {
				zz.Reach("queued: not on the wire")
			} else {
				zz.Reach("queued: unknown request")
			}
			return
		}
		zz.Assert(len(w.ev.Calls) == 1 && verifSameBlockCall(w.ev.Calls[0], evQueued, want, blk) && w.ev.Calls[0].Unique, "queued block is reported once, for the channel that owns the request")
		if outcome == 2 {
			zz.Assert(len(act.Log) == 1 && act.Log[0].Op == actTerminate && act.Log[0].Err == w.ev.Err, "queued, error: the response is terminated with that error")
			zz.Reach("queued: terminate")
			return
		}
		zz.Assert(act.count(actTerminate) == 0, "queued, no error: not terminated")
		zz.Assert(act.count(actPauseResp) == zz.Ite(outcome == 1, 1, 0), "queued: the response is paused iff the handler answered ErrPause")
		if w.ev.Resp != nil {
			zz.Assert(act.carried(actSendExt, outgoingBlkExtensions, w.ev.Resp), "queued: the returned message is attached as extension data")
			zz.Reach("queued: message attached")
		} else {
			zz.Assert(act.count(actSendExt) == 0, "queued: nothing attached without a message")
		}
		zz.Assert(len(act.Log) == act.count(actPauseResp)+act.count(actSendExt), "queued: no other action")
		if outcome == 1 {
			zz.Reach("queued: pause")
		} else {
			zz.Reach("queued: routed")
		}
	case 2: // a block was sent (responder side)
		w.t.gsBlockSentHook(p, &verifReqData{id: rid}, blk)
		if !known || !onWire {
			zz.Assert(len(w.ev.Calls) == 0, "sent block of an unknown request or not put on the wire: no accounting")
			if known {
				zz.Reach("sent: not on the wire")
			} else {
				zz.Reach("sent: unknown request")
			}
			return
		}
		zz.Assert(len(w.ev.Calls) == 1 && verifSameBlockCall(w.ev.Calls[0], evSent, want, blk) && w.ev.Calls[0].Unique, "sent block is reported once, for the channel that owns the request")
		zz.Reach("sent: routed")
	}
	if known && rid == w.r0 {
		zz.Reach("routed by a superseded request ID of a restarted channel")
	}
	if known && rid == w.r2 {
		zz.Reach("routed to the second channel")
	}
}

// verifExtContent chooses the content of a graphsync message's data-transfer extension:
// absent, undecodable, a request message or a response message (every scalar field arbitrary,
// including the channel ID embedded in a request). Returns the node (nil if absent) and the
// decoded message (nil if absent / undecodable).
func verifExtContent(label string) (kind int, node datamodel.Node, msg datatransfer.Message) {
	kind = zz.Choice(label, 4)
	switch kind {
	case 1:
		node = verifBadNode()
	case 2:
		m := verifArbitraryRequest("xreq")
		msg, node = m, m.ToIPLD()
	case 3:
		m := verifArbitraryResponse("xresp")
		msg, node = m, m.ToIPLD()
	}
	return
}

// VerifC16_RequestHooks: the two callbacks that create the request-to-channel mapping, with
// arbitrary extension content, from a transport that may already track the channel.
//   - incoming graphsync request (gsReqRecdHook): a data-transfer REQUEST inside means the
//     remote peer pulls: channel (p, self, id); a RESPONSE inside means the remote accepted
//     our push: channel (self, p, id).
//   - outgoing graphsync request (gsOutgoingRequestHook): a REQUEST inside means we pull:
//     (self, p, id); a RESPONSE inside means we accept a push: (p, self, id).
//
// p is the peer graphsync authenticated; nothing else in the message may decide the channel.
func VerifC16_RequestHooks() {
	f := verifNewTransport()
	p := peer.ID(zz.String("p"))
	rid := verifRid("rid")
	kind, node, msg := verifExtContent("content")
	req := verifReq(rid)
	// the extension travels under the default name or under a name these two hooks do not read
	underDefault := zz.Bool("underDefaultName")
	if node != nil {
		if underDefault {
			req.exts[extension.ExtensionDataTransfer1_1] = node
		} else {
			req.exts[extension.ExtensionOutgoingBlock1_1] = node
		}
	}
	present := node != nil && underDefault
	outcome := verifOutcome(f.ev, "outcome")
	act := &verifActions{}
	incoming := zz.Bool("incomingRequest")

	var tid datatransfer.TransferID
	if msg != nil {
		tid = msg.TransferID()
	}
	pulls := datatransfer.ChannelID{Initiator: p, Responder: f.self, ID: tid}  // remote initiated
	pushes := datatransfer.ChannelID{Initiator: f.self, Responder: p, ID: tid} // we initiated

	// optionally the channel is already tracked (restart, or UseStore before the request)
	var pre *dtChannel
	var want datatransfer.ChannelID
	preOpen, preStarted := false, false
	if kind >= 2 && present {
		if incoming == (kind == 2) {
			want = pulls
		} else {
			want = pushes
		}
		if zz.Bool("alreadyTracked") {
			pre = f.t.trackDTChannel(want)
			preOpen, preStarted = zz.Bool("pre.isOpen"), zz.Bool("pre.xferStarted")
			pre.isOpen, pre.xferStarted = preOpen, preStarted
			if zz.Bool("pre.store") {
				zz.Assert(f.t.UseStore(want, ipld.LinkSystem{}) == nil, "store registered")
			}
		}
	}
	if incoming && kind == 2 && zz.Bool("withReply") {
		f.ev.Resp = verifArbitraryResponse("reply")
	}

	if incoming {
		f.t.gsReqRecdHook(p, req, act)
	} else {
		f.t.gsOutgoingRequestHook(p, req, act)
	}
	got, mapped := f.t.requestIDToChannelID.load(rid)

	if !present || kind == 1 {
		zz.Assert(len(f.ev.Calls) == 0, "no (decodable) data-transfer extension: no channel event")
		zz.Assert(!mapped && len(f.t.dtChannels) == 0, "no (decodable) data-transfer extension: nothing is tracked")
		if present && incoming {
			zz.Assert(len(act.Log) == 1 && act.Log[0].Op == actTerminate && act.Log[0].Err != nil, "undecodable extension on an incoming request: the request is terminated")
			zz.Reach("incoming: decode error")
		} else {
			zz.Assert(len(act.Log) == 0, "not our request: no action")
			if present {
				zz.Reach("outgoing: decode error ignored")
			} else if node != nil {
				zz.Reach("extension under a name this hook does not read")
			} else {
				zz.Reach("no extension")
			}
		}
		return
	}

	zz.Assert(f.ev.onlyFor(want), "every event names the channel built from the authenticated peer and the message kind")
	zz.Assert(len(f.ev.Calls) >= 1, "the message is reported")
	first := f.ev.Calls[0]
	if !incoming {
		zz.Assert(first.Op == evOpened && len(f.ev.Calls) == 1, "outgoing request: exactly OnChannelOpened")
		if outcome != 0 {
			zz.Assert(!mapped, "channel refused by the handler: request not mapped")
			_, still := f.t.dtChannels[want]
			zz.Assert(!still, "channel refused by the handler: channel cleaned up")
			zz.Reach("outgoing: refused")
			return
		}
		zz.Assert(mapped && got == want, "outgoing request: the new request ID is mapped to the channel")
		ch := f.t.dtChannels[want]
		zz.Assert(ch != nil && (pre == nil || ch == pre), "outgoing request: the channel is tracked (once)")
		zz.Assert(len(ch.opened) == 1, "outgoing request: the opener is told the request ID")
		zz.Assert(act.count(actPersistence) == zz.Ite(ch.storeRegistered, 1, 0) && act.count(actMaxLinks) == 1, "outgoing request: store and link limit are applied")
		if kind == 2 {
			zz.Reach("outgoing: pull request -> (self, p, id)")
		} else {
			zz.Reach("outgoing: push response -> (p, self, id)")
		}
		return
	}

	// incoming graphsync request
	if kind == 2 {
		zz.Assert(first.Op == evRequest && verifSameMsg(first.Msg, msg), "incoming pull: OnRequestReceived with the decoded request")
	} else {
		zz.Assert(first.Op == evResponse && verifSameMsg(first.Msg, msg), "incoming push-accept: OnResponseReceived with the decoded response")
	}
	zz.Assert(f.ev.count(evRequest)+f.ev.count(evResponse) == 1, "the message is reported once")
	if f.ev.Resp != nil {
		zz.Assert(act.carried(actSendExt, incomingReqExtensions, f.ev.Resp), "incoming: the handler's reply is attached as extension data")
		zz.Reach("incoming: reply attached")
	} else {
		zz.Assert(act.count(actSendExt) == 0, "incoming: nothing attached without a reply")
	}
	if outcome == 2 {
		zz.Assert(act.count(actTerminate) == 1 && act.Log[len(act.Log)-1].Err == f.ev.Err, "incoming, error: terminated with the handler's error")
		zz.Assert(!mapped && act.count(actValidate) == 0, "incoming, error: request neither mapped nor validated")
		zz.Reach("incoming: refused")
		return
	}
	zz.Assert(mapped && got == want, "incoming request: the new request ID is mapped to the channel")
	ch := f.t.dtChannels[want]
	zz.Assert(ch != nil && (pre == nil || ch == pre) && len(f.t.dtChannels) == 1, "incoming request: the channel is tracked (once)")
	zz.Assert(ch.requestID != nil && *ch.requestID == rid && ch.isOpen, "incoming request: it becomes the channel's current request")
	zz.Assert(act.count(actTerminate) == 0 && act.count(actValidate) == 1, "incoming request: validated")
	zz.Assert(act.count(actPersistence) == zz.Ite(ch.storeRegistered, 1, 0) && act.count(actMaxLinks) == 1 && act.count(actAugment) == 1, "incoming request: store, link limit and context are applied")
	pauses := outcome == 1 || (preOpen && !preStarted)
	zz.Assert(act.count(actPauseResp) == zz.Ite(pauses, 1, 0), "incoming: the response starts paused iff the handler asked for it or a restarted transfer has not started yet")
	zz.Assert(ch.xferStarted == (preStarted || !pauses), "incoming: an un-paused response marks the transfer started")
	if outcome == 1 {
		zz.Reach("incoming: paused by handler")
	} else if pauses {
		zz.Reach("incoming: paused after restart")
	}
	if kind == 2 {
		zz.Reach("incoming: pull request -> (p, self, id)")
	} else {
		zz.Reach("incoming: push response -> (self, p, id)")
	}
}
