package graphsync

import (
	"context"
	"sync"

	"github.com/ipfs/go-graphsync"
	ipld "github.com/ipld/go-ipld-prime"
	"github.com/libp2p/go-libp2p/core/peer"

	datatransfer "github.com/filecoin-project/go-data-transfer/v2"
	"github.com/filecoin-project/go-data-transfer/v2/transport/graphsync/extension"
	zz "github.com/filecoin-project/go-data-transfer/v2/zzverif"
)

// ---- property C20 at the transport: API + graphsync callback surface, concurrently --------
//
// Pre-state (concrete roles; races and lock order do not depend on the data): channel A is a
// pull we initiated (outgoing graphsync request rA, we receive), channel B is a pull the
// remote initiated (incoming graphsync request rB, we send). Two goroutines each perform one
// operation of the menu; the happens-before detector of the engine (opts race) watches every
// access made by code outside the harness, the scheduler explores lock acquisition orders and
// reports a path on which the harness entry cannot return as a deadlock.

type verifWorld20 struct {
	*verifOpenFix
	chA, chB, chC datatransfer.ChannelID
	rA, rB, rC    graphsync.RequestID
	other         peer.ID
}

func verifNewWorld20() *verifWorld20 {
	rA, rB, rC, rD := verifRid("rA"), verifRid("rB"), verifRid("rC"), verifRid("rD")
	zz.Assume(rA != rB && rA != rC && rB != rC && rD != rA && rD != rB && rD != rC)
	w := &verifWorld20{verifOpenFix: verifNewOpenFix(rC, rD), rA: rA, rB: rB, rC: rC, other: peer.ID("other")}
	w.chA = datatransfer.ChannelID{Initiator: w.self, Responder: w.other, ID: 1}
	w.chB = datatransfer.ChannelID{Initiator: w.other, Responder: w.self, ID: 2}
	w.chC = datatransfer.ChannelID{Initiator: w.self, Responder: w.other, ID: 3}
	w.verifTrack(w.chA, rA, false)
	w.verifTrack(w.chB, rB, true)
	// like the manager, the events handler applies the channel's transport options from inside
	// OnRequestReceived (impl/receiving_requests.go: transportOptions.ApplyOptions)
	w.ev.OnReq = func(chid datatransfer.ChannelID) { w.t.MaxLinks(chid, 7) }
	return w
}

const verifNumOps20 = 21

func (w *verifWorld20) op(k int, label string) {
	ctx := context.Background()
	p := w.other
	switch k {
	case 0:
		zz.Note("op OpenChannel(chC)")
		req := verifArbitraryRequest(label + ".open")
		zz.SetInt(&req.TransferId, 3)
		_ = w.t.OpenChannel(ctx, p, w.chC, verifLink(label+".root"), zz.Node(label+".sel"), nil, req)
		zz.Reach("opened")
	case 1:
		zz.Note("op PauseChannel")
		_ = w.t.PauseChannel(ctx, zz.Ite(zz.Bool(label+".onB"), w.chB, w.chA))
	case 2:
		zz.Note("op ResumeChannel")
		var msg datatransfer.Message
		if zz.Bool(label + ".withMsg") {
			msg = verifArbitraryResponse(label + ".msg")
		}
		_ = w.t.ResumeChannel(ctx, msg, zz.Ite(zz.Bool(label+".onB"), w.chB, w.chA))
	case 3:
		zz.Note("op CloseChannel")
		_ = w.t.CloseChannel(ctx, zz.Ite(zz.Bool(label+".onB"), w.chB, w.chA))
	case 4:
		which := zz.Choice(label+".which", 3)
		zz.Note([]string{"op CleanupChannel(chA)", "op CleanupChannel(chB)", "op CleanupChannel(chC)"}[which])
		w.t.CleanupChannel([]datatransfer.ChannelID{w.chA, w.chB, w.chC}[which])
	case 5:
		zz.Note("op UseStore(chA)")
		_ = w.t.UseStore(w.chA, ipld.LinkSystem{})
	case 6:
		zz.Note("op MaxLinks(chA)")
		w.t.MaxLinks(w.chA, zz.Uint64(label+".max"))
	case 7:
		zz.Note("op ChannelsForPeer")
		_ = w.t.ChannelsForPeer(p)
	case 8:
		zz.Note("op UseStore(chB)")
		// (the outgoing-request hook is only ever run by graphsync from inside Request: see op 0)
		_ = w.t.UseStore(w.chB, ipld.LinkSystem{})
	case 9:
		zz.Note("op gsIncomingBlockHook(rA)")
		w.t.gsIncomingBlockHook(p, &verifRespData{id: w.rA}, verifArbitraryBlock(), &verifActions{})
	case 10:
		zz.Note("op gsBlockSentHook(rB)")
		w.t.gsBlockSentHook(p, &verifReqData{id: w.rB}, verifArbitraryBlock())
	case 11:
		zz.Note("op gsOutgoingBlockHook(rB)")
		w.t.gsOutgoingBlockHook(p, &verifReqData{id: w.rB}, verifArbitraryBlock(), &verifActions{})
	case 12:
		zz.Note("op gsReqRecdHook(restart of chB)")
		// the remote restarts its pull: a new graphsync request for channel B
		req := verifArbitraryRequest(label + ".ireq")
		zz.SetInt(&req.TransferId, 2)
		w.t.gsReqRecdHook(p, verifReqWith(w.rC, req), &verifActions{})
	case 13:
		zz.Note("op gsCompletedResponseListener(rB)")
		w.t.gsCompletedResponseListener(p, verifReq(w.rB), graphsync.ResponseStatusCode(zz.Uint32(label+".status")))
	case 14:
		zz.Note("op gsRequestUpdatedHook(rB)")
		upd := verifReq(w.rB)
		req := verifArbitraryRequest(label + ".ureq")
		zz.SetInt(&req.TransferId, 2)
		upd.exts[extension.ExtensionDataTransfer1_1] = verifReqToIPLD(req)
		w.t.gsRequestUpdatedHook(p, verifReq(w.rB), upd, &verifActions{})
	case 15:
		zz.Note("op gsIncomingResponseHook(rA)")
		resp := &verifRespData{id: w.rA, exts: map[graphsync.ExtensionName]ipld.Node{}}
		r := verifArbitraryResponse(label + ".resp")
		zz.SetInt(&r.TransferId, 1)
		resp.exts[extension.ExtensionDataTransfer1_1] = verifRespToIPLD(r)
		w.t.gsIncomingResponseHook(p, resp, &verifActions{})
	case 16:
		zz.Note("op gsRequestorCancelledListener(rB)")
		w.t.gsRequestorCancelledListener(p, verifReq(w.rB))
	case 17:
		zz.Note("op gsNetworkSendErrorListener(rB)")
		w.t.gsNetworkSendErrorListener(p, verifReq(w.rB), zz.Error(label+".gserr"))
	case 18:
		zz.Note("op gsNetworkReceiveErrorListener")
		w.t.gsNetworkReceiveErrorListener(p, zz.Error(label+".gserr"))
	case 19:
		zz.Note("op gsRequestProcessingListener(rB)")
		w.t.gsRequestProcessingListener(p, verifReq(w.rB), zz.Int(label+".n"))
	case 20:
		zz.Note("op Shutdown")
		_ = w.t.Shutdown(ctx)
	}
}

func verifConcurrent20(handlerFails bool) {
	w := verifNewWorld20()
	if handlerFails {
		verifOutcome(w.ev, "outcome")
	}
	a, b := zz.Choice("opA", verifNumOps20), zz.Choice("opB", verifNumOps20)
	var wg sync.WaitGroup
	wg.Add(2)
	go func() { defer wg.Done(); w.op(a, "a") }()
	go func() { defer wg.Done(); w.op(b, "b") }()
	wg.Wait()
	// let the graphsync requests opened on the way finish, as graphsync does when it is done
	for i := range w.resps {
		close(w.resps[i])
		close(w.errs[i])
	}
	zz.Settle()
	zz.Reach("both calls returned")
}

// VerifC20_TransportConcurrent: two concurrent operations out of the transport API and the
// graphsync callback surface; the events handler accepts everything.
//
//verif:opts race preempt=sync pb=1 sched=3 part0=8 part1=2 novalidate
func VerifC20_TransportConcurrent() { verifConcurrent20(false) }

// VerifC20_TransportConcurrentHandlerOutcomes: the same with the events handler answering
// nil / ErrPause / another error.
//
//verif:tier thorough
//verif:opts race preempt=sync pb=1 sched=3 part0=3 part1=8 novalidate
func VerifC20_TransportConcurrentHandlerOutcomes() { verifConcurrent20(true) }

// VerifC20_TransportSingleCallReturns: every single call (whatever the handler answers)
// returns; in particular a callback invoked by graphsync from inside Request does.
//
//verif:opts race preempt=sync pb=1 sched=2 novalidate
func VerifC20_TransportSingleCallReturns() {
	w := verifNewWorld20()
	verifOutcome(w.ev, "outcome")
	w.op(zz.Choice("op", verifNumOps20), "a")
	for i := range w.resps {
		close(w.resps[i])
		close(w.errs[i])
	}
	zz.Settle()
	zz.Reach("call returned")
}
