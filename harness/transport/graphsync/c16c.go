package graphsync

import (
	ipld "github.com/ipld/go-ipld-prime"
	"github.com/libp2p/go-libp2p/core/peer"

	datatransfer "github.com/filecoin-project/go-data-transfer/v2"
	zz "github.com/filecoin-project/go-data-transfer/v2/zzverif"
)

// VerifC16_StoreLifetimeAcrossRestart: per-channel stores are registered for the channel's
// lifetime only, also when the channel is restarted in-process: the manager re-runs the transport
// configurer on every restart, so UseStore is called again for the same channel and graphsync
// refuses the duplicate name. The store registered by the first call must still be unregistered
// exactly once at cleanup, and requests opened after the restart must still use it.
func VerifC16_StoreLifetimeAcrossRestart() {
	f := verifNewTransport()
	p := peer.ID(zz.String("p"))
	chid := datatransfer.ChannelID{Initiator: f.self, Responder: p, ID: datatransfer.TransferID(zz.Uint64("tid"))}
	zz.Assert(f.t.UseStore(chid, ipld.LinkSystem{}) == nil, "store registered")
	again := zz.Choice("restarts", 3)
	for i := 0; i < again; i++ {
		// graphsync: "persistence option already registered"
		f.gs.StoreErr = zz.Error("duplicate")
		_ = f.t.UseStore(chid, ipld.LinkSystem{})
		f.gs.StoreErr = nil
	}
	ch := f.t.dtChannels[chid]
	zz.Assert(ch != nil && ch.hasStore(), "the channel still uses its store after a restart")
	f.t.CleanupChannel(chid)
	zz.Assert(f.gs.count(gsUnregister) == 1, "the store registered for the channel is unregistered exactly once at cleanup")
	zz.Assert(f.gs.count(gsRegister) == 1+again, "registration attempts")
	reg, unreg := f.gs.Calls[0], f.gs.Calls[f.gs.last(gsUnregister)]
	zz.Assert(reg.Op == gsRegister && reg.Name == unreg.Name, "under the name it was registered with")
	if again > 0 {
		zz.Reach("restarted in-process")
	}
}

// VerifC01_TransportCompletionError (lemma L3 of C01 under C01's own name): the transport reports
// a finished response / request to the manager WITHOUT error only if graphsync completed it in
// full (RequestCompletedFull; an error-free request) - so "own transport finished" means the
// payload really went through (same bodies as VerifC16_Completed / VerifC16_CompletedRequest).
func VerifC01_TransportCompletionError() {
	if zz.Bool("requesterSide") {
		VerifC16_CompletedRequest()
	} else {
		VerifC16_Completed()
	}
}
