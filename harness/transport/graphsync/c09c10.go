package graphsync

import (
	"context"
	"time"

	"github.com/ipfs/go-graphsync"
	ipld "github.com/ipld/go-ipld-prime"
	"github.com/ipld/go-ipld-prime/datamodel"
	"github.com/libp2p/go-libp2p/core/peer"

	datatransfer "github.com/filecoin-project/go-data-transfer/v2"
	"github.com/filecoin-project/go-data-transfer/v2/transport/graphsync/extension"
	zz "github.com/filecoin-project/go-data-transfer/v2/zzverif"
)

// VerifC09_CloseReturns — property C09 clause: "Closing a channel returns promptly whatever
// the state of the underlying transport request - never started, already cancelled, or
// cancelled by the remote". CloseChannel is called with a context that is never cancelled on a
// tracked channel in each request state; the call must return (a call that blocks forever is
// reported by the engine as a deadlock), and graphsync's Cancel is issued at most once and only
// for a live request that the requester has not cancelled.
func VerifC09_CloseReturns() {
	f := verifNewTransport()
	p := peer.ID(zz.String("p"))
	tid := datatransfer.TransferID(zz.Uint64("tid"))
	chid := datatransfer.ChannelID{Initiator: p, Responder: f.self, ID: tid}
	rid := verifRid("rid")
	req := verifArbitraryRequest("req")
	zz.SetInt(&req.TransferId, uint64(tid))
	ctx := context.Background()

	// request state
	const (
		neverStarted    = iota // tracked (UseStore) but no graphsync request yet
		closedBefore           // request already cancelled by an earlier CloseChannel
		remoteCancelled        // the requester cancelled its request
		live
	)
	state := zz.Choice("state", 4)
	switch state {
	case neverStarted:
		zz.Assert(f.t.UseStore(chid, ipld.LinkSystem{}) == nil, "tracked through UseStore")
	case closedBefore:
		f.t.gsReqRecdHook(p, verifReqWith(rid, req), &verifActions{})
		zz.Assert(f.t.CloseChannel(ctx, chid) == nil, "first close succeeds")
		zz.Settle()
		zz.Assert(f.gs.count(gsCancel) == 1, "first close cancels the live request")
	case remoteCancelled:
		f.t.gsReqRecdHook(p, verifReqWith(rid, req), &verifActions{})
		f.t.gsRequestorCancelledListener(p, verifReq(rid))
	case live:
		f.t.gsReqRecdHook(p, verifReqWith(rid, req), &verifActions{})
		switch zz.Choice("cancelAnswer", 3) {
		case 1:
			f.gs.CancelErr = graphsync.RequestNotFoundErr{}
		case 2:
			f.gs.CancelErr = zz.Error("cancelErr")
		}
	}
	f.gs.Calls = nil

	err := f.t.CloseChannel(ctx, chid) // must return
	zz.Settle()

	switch state {
	case neverStarted:
		zz.Assert(err == nil && len(f.gs.Calls) == 0, "closing a channel whose request never started: nothing to cancel")
		zz.Reach("returned: never started")
	case closedBefore:
		zz.Assert(err == nil && len(f.gs.Calls) == 0, "closing an already cancelled request: nothing to cancel")
		zz.Reach("returned: already cancelled")
	case remoteCancelled:
		zz.Assert(err == nil && len(f.gs.Calls) == 0, "closing a request the remote cancelled: nothing to cancel")
		zz.Reach("returned: cancelled by the remote")
	case live:
		zz.Assert(len(f.gs.Calls) == 1 && f.gs.Calls[0].Op == gsCancel && f.gs.Calls[0].ID == rid, "closing a live request cancels it exactly once")
		_, notFound := f.gs.CancelErr.(graphsync.RequestNotFoundErr)
		zz.Assert((err == nil) == (f.gs.CancelErr == nil || notFound), "close fails only if graphsync could not cancel a request it knows")
		if notFound {
			zz.Reach("returned: graphsync no longer knows the request")
		} else if err != nil {
			zz.Reach("returned: cancel failed")
		} else {
			zz.Reach("returned: live request cancelled")
		}
	}
}

// VerifC09_CloseWhileCallbackInProgress: graphsync runs its callbacks on its own loops and a local
// cancel is serialised behind the callbacks already in progress there, so gs.Cancel may only
// complete after such a callback - which needs the channel - has returned. Closing (by the user,
// the monitor or on a rejected request) must still return: it must not wait for the cancel while
// holding what the callback needs.
func VerifC09_CloseWhileCallbackInProgress() {
	f := verifNewTransport()
	p := peer.ID(zz.String("p"))
	tid := datatransfer.TransferID(zz.Uint64("tid"))
	chid := datatransfer.ChannelID{Initiator: p, Responder: f.self, ID: tid}
	r0, r1 := verifRid("r0"), verifRid("r1")
	zz.Assume(r0 != r1)
	req := verifArbitraryRequest("req")
	zz.SetInt(&req.TransferId, uint64(tid))
	f.t.gsReqRecdHook(p, verifReqWith(r0, req), &verifActions{})
	which := zz.Choice("callback", 4)
	f.gs.OnCancel = func(id graphsync.RequestID) {
		switch which {
		case 0:
			f.t.gsRequestorCancelledListener(p, verifReq(r0)) // the remote cancelled at the same time
		case 1:
			f.t.gsReqRecdHook(p, verifReqWith(r1, req), &verifActions{}) // the remote restarts at the same time
		case 2:
			f.t.gsBlockSentHook(p, &verifReqData{id: r0}, verifArbitraryBlock())
		case 3:
			f.t.gsCompletedResponseListener(p, verifReq(r0), graphsync.RequestCancelled)
		}
	}
	err := f.t.CloseChannel(context.Background(), chid) // must return
	zz.Settle()
	zz.Assert(f.gs.count(gsCancel) == 1 && f.gs.Calls[f.gs.last(gsCancel)].Returned, "the cancel went through once the callback had returned")
	_ = err
	zz.Reach("close returned although a callback for the channel was in progress")
}

// VerifC09_TransportReleasedAfterClose: whatever became of the channel's graphsync requests
// before the ending - never started, one live request, a request superseded by a restart plus the
// current one, closed locally (the transport forgets its current request at that point), or
// cancelled by the requester - the transport's cleanup releases everything it holds for the
// channel: no graphsync request maps to the channel any more, the channel is no longer tracked,
// its store is unregistered exactly once, and a late callback for any of its requests produces
// no event.
func VerifC09_TransportReleasedAfterClose() { verifReleasedAfterClose() }

// VerifC16_SilentAfterCloseAndCleanup: the same history seen from property C16: after close (or
// requester cancel, or restart) and cleanup, no graphsync callback for any of the channel's
// requests produces a channel event, and the channel's store registration ended with it.
func VerifC16_SilentAfterCloseAndCleanup() { verifReleasedAfterClose() }

func verifReleasedAfterClose() {
	f := verifNewTransport()
	p := peer.ID(zz.String("p"))
	tid := datatransfer.TransferID(zz.Uint64("tid"))
	chid := datatransfer.ChannelID{Initiator: p, Responder: f.self, ID: tid}
	r0, r1 := verifRid("r0"), verifRid("r1")
	zz.Assume(r0 != r1)
	req := verifArbitraryRequest("req")
	zz.SetInt(&req.TransferId, uint64(tid))
	ctx := context.Background()
	withStore := zz.Bool("withStore")
	if withStore {
		zz.Assert(f.t.UseStore(chid, ipld.LinkSystem{}) == nil, "store registered")
	}
	requests := zz.Choice("requests", 3) // 0: never started, 1: one request, 2: restarted (two requests)
	if requests == 0 && !withStore {
		f.t.trackDTChannel(chid)
	}
	if requests >= 1 {
		f.t.gsReqRecdHook(p, verifReqWith(r0, req), &verifActions{})
	}
	if requests == 2 {
		f.t.gsReqRecdHook(p, verifReqWith(r1, req), &verifActions{})
		zz.Reach("restarted channel")
	}
	switch zz.Choice("ending", 3) {
	case 1:
		zz.Assert(f.t.CloseChannel(ctx, chid) == nil, "closed locally")
		zz.Settle()
		zz.Reach("closed locally first")
	case 2:
		if requests >= 1 {
			f.t.gsRequestorCancelledListener(p, verifReq(zz.Ite(requests == 2, r1, r0)))
			zz.Reach("requester cancelled first")
		}
	}
	f.gs.Calls = nil

	f.t.CleanupChannel(chid)

	_, ok0 := f.t.requestIDToChannelID.load(r0)
	_, ok1 := f.t.requestIDToChannelID.load(r1)
	zz.Assert(!ok0 && !ok1, "after cleanup no graphsync request maps to the channel")
	_, tracked := f.t.dtChannels[chid]
	zz.Assert(!tracked, "the channel is no longer tracked")
	zz.Assert(f.gs.count(gsUnregister) == zz.Ite(withStore, 1, 0), "the store is unregistered exactly once iff one was registered")
	// late callbacks
	f.ev.Calls = nil
	rid := zz.Ite(zz.Bool("lateForOld"), r0, r1)
	switch zz.Choice("late", 4) {
	case 0:
		f.t.gsBlockSentHook(p, &verifReqData{id: rid}, verifArbitraryBlock())
	case 1:
		f.t.gsOutgoingBlockHook(p, &verifReqData{id: rid}, verifArbitraryBlock(), &verifActions{})
	case 2:
		f.t.gsCompletedResponseListener(p, verifReq(rid), graphsync.RequestCompletedFull)
	case 3:
		f.t.gsNetworkSendErrorListener(p, verifReq(rid), zz.Error("late.err"))
	}
	zz.Assert(len(f.ev.Calls) == 0, "a late graphsync callback for a released request produces no event")
	f.t.CleanupChannel(chid) // a second cleanup is harmless
	zz.Assert(f.gs.count(gsUnregister) == zz.Ite(withStore, 1, 0), "a repeated cleanup releases nothing twice")
	zz.Reach("released")
}

// ---- OpenChannel fixtures (property C10 clauses) -------------------------------

// verifOpenFix plays graphsync's part of Request: each call allocates the next request ID,
// runs the transport's outgoing-request hook (with the request's own extensions, as graphsync
// does) and hands back progress / error channels the harness controls.
type verifOpenFix struct {
	*verifFix
	rids  []graphsync.RequestID
	resps []chan graphsync.ResponseProgress
	errs  []chan error
	acts  []*verifActions
}

func verifNewOpenFix(rids ...graphsync.RequestID) *verifOpenFix {
	o := &verifOpenFix{verifFix: verifNewTransport(), rids: rids}
	o.gs.OnRequest = func(p peer.ID, exts []graphsync.ExtensionData) (<-chan graphsync.ResponseProgress, <-chan error) {
		k := len(o.resps)
		rc, ec := make(chan graphsync.ResponseProgress), make(chan error, 1)
		o.resps, o.errs = append(o.resps, rc), append(o.errs, ec)
		rd := verifReq(o.rids[k])
		for _, e := range exts {
			rd.exts[e.Name] = e.Data
		}
		act := &verifActions{}
		o.acts = append(o.acts, act)
		o.t.gsOutgoingRequestHook(p, rd, act)
		return rc, ec
	}
	return o
}

// verifChanState is a ChannelState of which only the received-block count is consulted.
type verifChanState struct {
	datatransfer.ChannelState
	received int64
}

func (c *verifChanState) ReceivedCidsTotal() int64 { return c.received }

// VerifC10_SkipExtension: OpenChannel hands graphsync the data-transfer message plus, for a
// restart (channel state given), exactly one do-not-send-first-blocks extension encoding the
// number of blocks already received; none for a fresh channel.
func VerifC10_SkipExtension() {
	rid := verifRid("rid")
	o := verifNewOpenFix(rid)
	sender := peer.ID(zz.String("sender"))
	tid := datatransfer.TransferID(zz.Uint64("tid"))
	var msg datatransfer.Message
	var chid datatransfer.ChannelID
	if zz.Bool("pull") {
		r := verifArbitraryRequest("req") // we pull: we initiated
		zz.SetInt(&r.TransferId, uint64(tid))
		msg, chid = r, datatransfer.ChannelID{Initiator: o.self, Responder: sender, ID: tid}
	} else {
		r := verifArbitraryResponse("resp") // we accept a push: the sender initiated
		zz.SetInt(&r.TransferId, uint64(tid))
		msg, chid = r, datatransfer.ChannelID{Initiator: sender, Responder: o.self, ID: tid}
	}
	var state datatransfer.ChannelState
	restart := zz.Bool("restart")
	received := zz.Int64("received")
	if restart {
		state = &verifChanState{received: received}
	}
	root, stor := verifLink("root"), zz.Node("selector")

	err := o.t.OpenChannel(context.Background(), sender, chid, root, stor, state, msg)
	zz.Assert(err == nil, "OpenChannel succeeds")
	zz.Assert(len(o.gs.Calls) == 1 && o.gs.Calls[0].Op == gsRequest && o.gs.Calls[0].Peer == sender, "exactly one graphsync request, to the data sender")
	exts := o.gs.Calls[0].Exts
	skips, dts := 0, 0
	for _, e := range exts {
		switch e.Name {
		case graphsync.ExtensionsDoNotSendFirstBlocks:
			n, ok := verifSkipCount(e.Data)
			zz.Assert(ok && n == received, "the skip extension encodes the number of blocks already received")
			skips++
		case extension.ExtensionDataTransfer1_1:
			zz.Assert(verifCarries(e.Data, msg), "the data-transfer extension carries the message")
			dts++
		}
	}
	zz.Assert(dts == 1 && skips == zz.Ite(restart, 1, 0) && len(exts) == dts+skips, "one data-transfer extension, plus exactly one skip extension iff restarting")
	if restart {
		zz.Reach("restart: skip extension")
	} else {
		zz.Reach("fresh: no skip extension")
	}
	// the request was opened for this channel and became its current request
	ch := o.t.dtChannels[chid]
	zz.Assert(ch != nil && ch.requestID != nil && *ch.requestID == rid && ch.isOpen, "the new request is the channel's current request")
	got, ok := o.t.requestIDToChannelID.load(rid)
	zz.Assert(ok && got == chid, "the new request is mapped to the channel")
	// let the response finish: exactly one completion for this channel
	close(o.resps[0])
	close(o.errs[0])
	zz.Settle()
	zz.Assert(o.ev.count(evCompleted) == 1 && o.ev.onlyFor(chid), "the finished request completes this channel once")
}

// VerifC10_CancelBeforeReopen: re-opening a channel that has a live graphsync request (restart)
// first cancels the old request; the new gs.Request is issued only after BOTH gs.Cancel(old)
// has returned AND the old request's completion was observed (or the fail-safe timer fired),
// in whichever order those two happen.
func VerifC10_CancelBeforeReopen() {
	r1, r2 := verifRid("r1"), verifRid("r2")
	zz.Assume(r1 != r2)
	o := verifNewOpenFix(r1, r2)
	sender := peer.ID(zz.String("sender"))
	tid := datatransfer.TransferID(zz.Uint64("tid"))
	req := verifArbitraryRequest("req")
	zz.SetInt(&req.TransferId, uint64(tid))
	chid := datatransfer.ChannelID{Initiator: o.self, Responder: sender, ID: tid}
	root, stor := verifLink("root"), zz.Node("selector")
	ctx := context.Background()

	zz.Assert(o.t.OpenChannel(ctx, sender, chid, root, stor, nil, req) == nil, "first open succeeds")
	zz.Settle()
	ch := o.t.dtChannels[chid]
	zz.Assert(ch != nil && ch.requestID != nil && *ch.requestID == r1, "first request is live")
	zz.Assert(len(o.ev.Calls) == 1 && o.ev.Calls[0].Op == evOpened, "only the open was reported so far")

	// restart
	gate := make(chan struct{})
	o.gs.CancelGate = gate
	var reopenErr error
	reopened := false
	go func() {
		reopenErr = o.t.OpenChannel(ctx, sender, chid, root, stor, &verifChanState{received: zz.Int64("received")}, req)
		reopened = true
	}()
	zz.Settle()
	zz.Assert(o.gs.count(gsRequest) == 1, "no new request before the old one is dealt with")
	ci := o.gs.last(gsCancel)
	zz.Assert(o.gs.count(gsCancel) == 1 && o.gs.Calls[ci].ID == r1 && !o.gs.Calls[ci].Returned, "the old request is being cancelled")

	byTimer := zz.Bool("failSafeTimer")
	complete := func() {
		if byTimer {
			zz.FireTimer()
			if !zz.Engine() {
				time.Sleep(400 * time.Millisecond)
			}
		} else {
			// graphsync ends the old request: its channels close, the request goroutine completes
			o.errs[0] <- graphsync.RequestClientCancelledErr{}
			close(o.resps[0])
			close(o.errs[0])
		}
	}
	if zz.Bool("completionFirst") {
		complete()
		zz.Settle()
		zz.Assert(o.gs.count(gsRequest) == 1 && !reopened, "no new request while gs.Cancel has not returned")
		zz.Reach("completion observed first")
		gate <- struct{}{}
	} else {
		gate <- struct{}{}
		zz.Settle()
		zz.Assert(o.gs.Calls[ci].Returned, "gs.Cancel returned")
		zz.Assert(o.gs.count(gsRequest) == 1 && !reopened, "no new request before the old request completed or the fail-safe fired")
		zz.Reach("cancel returned first")
		complete()
	}
	zz.Settle()
	zz.Assert(reopened && reopenErr == nil, "the restart goes through")
	ri := o.gs.last(gsRequest)
	zz.Assert(o.gs.count(gsRequest) == 2 && o.gs.count(gsCancel) == 1 && ci < ri && o.gs.Calls[ci].Returned, "gs.Cancel(old) was called and returned before gs.Request")
	zz.Assert(ch.requestID != nil && *ch.requestID == r2, "the new request is the channel's current request")
	if byTimer {
		zz.Reach("fail-safe timer")
	} else {
		zz.Assert(o.ev.count(evCancelled) == 1, "the old request reported its cancellation")
		zz.Reach("completed hook")
	}
	var _ datamodel.Node = stor
}

// VerifC10_NoSecondRequestWhileOldOneMayLive: if graphsync cannot cancel the channel's previous
// request (gs.Cancel returns an error other than "request not found"), re-opening the channel
// fails and NO new graphsync request is issued - two requests must never run for one channel.
// When graphsync no longer knows the old request the restart goes through.
func VerifC10_NoSecondRequestWhileOldOneMayLive() {
	r1, r2 := verifRid("r1"), verifRid("r2")
	zz.Assume(r1 != r2)
	o := verifNewOpenFix(r1, r2)
	sender := peer.ID(zz.String("sender"))
	tid := datatransfer.TransferID(zz.Uint64("tid"))
	req := verifArbitraryRequest("req")
	zz.SetInt(&req.TransferId, uint64(tid))
	chid := datatransfer.ChannelID{Initiator: o.self, Responder: sender, ID: tid}
	root, stor := verifLink("root"), zz.Node("selector")
	ctx := context.Background()
	zz.Assert(o.t.OpenChannel(ctx, sender, chid, root, stor, nil, req) == nil, "first open succeeds")
	zz.Settle()
	notFound := zz.Bool("graphsyncForgotTheRequest")
	if notFound {
		o.gs.CancelErr = graphsync.RequestNotFoundErr{}
	} else {
		o.gs.CancelErr = zz.Error("cancelErr")
	}
	// the old request ends on graphsync's side (or the fail-safe timer fires while waiting)
	if zz.Bool("oldRequestEnds") {
		close(o.resps[0])
		close(o.errs[0])
		zz.Settle()
	}
	var reopenErr error
	reopened := false
	go func() {
		reopenErr = o.t.OpenChannel(ctx, sender, chid, root, stor, &verifChanState{received: zz.Int64("received")}, req)
		reopened = true
	}()
	zz.Settle()
	for i := 0; i < 2 && !reopened; i++ {
		zz.FireTimer()
		if !zz.Engine() {
			time.Sleep(400 * time.Millisecond)
		}
		zz.Settle()
	}
	zz.Assert(reopened, "the re-open returns")
	if notFound {
		zz.Assert(reopenErr == nil && o.gs.count(gsRequest) == 2, "graphsync no longer knows the old request: the restart goes through")
		zz.Reach("old request already gone")
	} else {
		zz.Assert(reopenErr != nil, "the old request could not be cancelled: the re-open fails")
		zz.Assert(o.gs.count(gsRequest) == 1, "and no second graphsync request is started for the channel")
		zz.Reach("cancel failed")
	}
}
