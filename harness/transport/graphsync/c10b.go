package graphsync

import (
	"context"
	"github.com/ipfs/go-graphsync"

	"github.com/libp2p/go-libp2p/core/peer"

	datatransfer "github.com/filecoin-project/go-data-transfer/v2"
	zz "github.com/filecoin-project/go-data-transfer/v2/zzverif"
)

// VerifC10_PendingExtensions: messages queued while the requester was away (its graphsync request
// was cancelled, e.g. by a restart or a connection bounce) are ALL delivered, in order, exactly
// once, with the requester's next request, and nothing is delivered a second time.
// 0..3 messages are queued; resumes without a message queue nothing.
func VerifC10_PendingExtensions() {
	f := verifNewTransport()
	p := peer.ID(zz.String("p"))
	tid := datatransfer.TransferID(zz.Uint64("tid"))
	chid := datatransfer.ChannelID{Initiator: p, Responder: f.self, ID: tid}
	r0, r1, r2 := verifRid("r0"), verifRid("r1"), verifRid("r2")
	zz.Assume(r0 != r1 && r0 != r2 && r1 != r2)
	req := verifArbitraryRequest("req")
	zz.SetInt(&req.TransferId, uint64(tid))
	ctx := context.Background()
	f.t.gsReqRecdHook(p, verifReqWith(r0, req), &verifActions{})
	f.t.gsRequestorCancelledListener(p, verifReq(r0))
	ch := f.t.dtChannels[chid]
	zz.Assert(ch != nil && ch.requesterCancelled, "requester is away")
	f.gs.Calls = nil

	n := zz.Choice("queued", 4)
	var msgs []datatransfer.Message
	for i := 0; i < n; i++ {
		var m datatransfer.Message
		if zz.Bool("withMsg") {
			m = verifArbitraryResponse("msg")
			msgs = append(msgs, m)
		}
		zz.Assert(f.t.ResumeChannel(ctx, m, chid) == nil, "resume while the requester is away succeeds")
	}
	zz.Assert(len(f.gs.Calls) == 0, "nothing is sent to graphsync while the requester is away")

	// the requester comes back
	act := &verifActions{}
	f.t.gsReqRecdHook(p, verifReqWith(r1, req), act)
	sent := act.sentExts()
	zz.Assert(len(sent) == len(msgs)*len(f.t.supportedExtensions), "every queued message is delivered with the next request")
	for i, m := range msgs {
		zz.Assert(verifCarries(sent[i*len(f.t.supportedExtensions)].Data, m), "queued messages are delivered in order, none lost or replaced")
	}
	if len(msgs) >= 2 {
		zz.Reach("several messages queued")
	}
	zz.Assert(len(ch.pendingExtensions) == 0 && !ch.requesterCancelled, "the queue is cleared")
	// a further request delivers nothing again
	act2 := &verifActions{}
	f.t.gsReqRecdHook(p, verifReqWith(r2, req), act2)
	zz.Assert(len(act2.sentExts()) == 0, "each queued message is delivered exactly once")
	zz.Reach("delivered once")
}

// sentExts lists the extension data attached with SendExtensionData, in order.
func (a *verifActions) sentExts() []graphsync.ExtensionData {
	var out []graphsync.ExtensionData
	for _, c := range a.Log {
		if c.Op == actSendExt {
			out = append(out, c.Ext)
		}
	}
	return out
}
