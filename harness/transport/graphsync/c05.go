package graphsync

// VerifC05_ExtensionCrossCheck: role-confused messages piggy-backed on a graphsync request
// (a request on a channel the sender did not initiate, a response on a channel the sender
// initiated), under any of the three data-transfer extension names and in both passes of the
// response hook, reach no channel: the request is terminated and no event is produced.
// (Same harness body as VerifC16_UpdateHooks; registered under C05 because the clause is C05's.)
func VerifC05_ExtensionCrossCheck() { VerifC16_UpdateHooks() }
