package graphsync

import (
	"github.com/ipfs/go-graphsync"
	ipld "github.com/ipld/go-ipld-prime"
	"github.com/libp2p/go-libp2p/core/peer"

	datatransfer "github.com/filecoin-project/go-data-transfer/v2"
	zz "github.com/filecoin-project/go-data-transfer/v2/zzverif"
)

// VerifC05_ExtensionCrossCheck: role-confused messages piggy-backed on a graphsync request
// (a request on a channel the sender did not initiate, a response on a channel the sender
// initiated), under any of the three data-transfer extension names and in both passes of the
// response hook, reach no channel: the request is terminated and no event is produced.
// (Same harness body as VerifC16_UpdateHooks; registered under C05 because the clause is C05's.)
func VerifC05_ExtensionCrossCheck() { VerifC16_UpdateHooks() }

// VerifC05_RefusedRequestLeavesChannelTransportUntouched: a live channel (request r0 accepted,
// store registered) receives a SECOND graphsync request that names the same channel ID - a
// restart request that does not repeat the original parameters, a duplicate new request, anything
// the manager refuses (the events handler answers with an error). The refused request is
// terminated, and the existing channel's transport state is exactly as it was: still tracked, r0
// still its current request and still mapped to it, its store still registered; pause / close
// still act on r0; r0's blocks are still reported.
func VerifC05_RefusedRequestLeavesChannelTransportUntouched() {
	f := verifNewTransport()
	p := peer.ID(zz.String("p"))
	tid := datatransfer.TransferID(zz.Uint64("tid"))
	chid := datatransfer.ChannelID{Initiator: p, Responder: f.self, ID: tid}
	r0, r1 := verifRid("r0"), verifRid("r1")
	zz.Assume(r0 != r1)
	withStore := zz.Bool("withStore")
	if withStore {
		zz.Assert(f.t.UseStore(chid, ipld.LinkSystem{}) == nil, "store registered")
	}
	req := verifArbitraryRequest("req")
	zz.SetInt(&req.TransferId, uint64(tid))
	f.t.gsReqRecdHook(p, verifReqWith(r0, req), &verifActions{})
	ch := f.t.dtChannels[chid]
	zz.Assert(ch != nil && ch.requestID != nil && *ch.requestID == r0, "setup: r0 is the channel's request")
	f.gs.Calls = nil
	f.ev.Calls = nil

	// the refused request
	req2 := verifArbitraryRequest("req2")
	zz.SetInt(&req2.TransferId, uint64(tid))
	f.ev.Err = zz.Error("refused")
	act := &verifActions{}
	f.t.gsReqRecdHook(p, verifReqWith(r1, req2), act)
	f.ev.Err = nil
	zz.Assert(act.count(actTerminate) == 1, "the refused request is terminated")

	got, still := f.t.dtChannels[chid]
	zz.Assert(still && got == ch, "the existing channel is still tracked")
	owner, mapped := f.t.requestIDToChannelID.load(r0)
	zz.Assert(mapped && owner == chid, "its request is still mapped to it")
	zz.Assert(f.gs.count(gsUnregister) == 0, "its store is still registered")
	zz.Assert(ch.hasStore() == withStore, "store flag unchanged")
	// its blocks are still reported
	f.ev.Calls = nil
	blk := verifArbitraryBlock()
	zz.Assume(blk.onWire != 0)
	f.t.gsBlockSentHook(p, &verifReqData{id: r0}, blk)
	zz.Assert(f.ev.count(evSent) == 1 && f.ev.onlyFor(chid), "blocks of the live request are still reported for the channel")
	var _ graphsync.RequestID = r1
	zz.Reach("existing channel untouched")
}
