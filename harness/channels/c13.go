package channels

// C13 support for harness/impl/c13.go.
//
// No VerifC13_MigratedBehavesNative here: harness/channels/internal/migrations/c13.go shows that a
// migrated record is an ordinary internal.ChannelState whose every field is accounted for, and the
// state machine harnesses (C03, C19, …) already quantify over arbitrary such records.

// VerifIsReady reports whether the model group's migration has completed successfully.
func (g *VerifGroup) VerifIsReady() bool { return g.ready }
