package channels

import (
	"github.com/ipfs/go-cid"

	datatransfer "github.com/filecoin-project/go-data-transfer/v2"
	"github.com/filecoin-project/go-data-transfer/v2/channels/internal"
	zz "github.com/filecoin-project/go-data-transfer/v2/zzverif"
)

const (
	dirQueued = iota
	dirSent
	dirReceived
)

func verifReport(c *Channels, dir int, chid datatransfer.ChannelID, delta uint64, index int64, unique bool) error {
	switch dir {
	case dirQueued:
		return c.DataQueued(chid, cid.Undef, delta, index, unique)
	case dirSent:
		return c.DataSent(chid, cid.Undef, delta, index, unique)
	}
	return c.DataReceived(chid, cid.Undef, delta, index, unique)
}

func verifBytes(st *internal.ChannelState, dir int) uint64 {
	switch dir {
	case dirQueued:
		return st.Queued
	case dirSent:
		return st.Sent
	}
	return st.Received
}

func verifIndex(st *internal.ChannelState, dir int) int64 {
	switch dir {
	case dirQueued:
		return st.QueuedBlocksTotal
	case dirSent:
		return st.SentBlocksTotal
	}
	return st.ReceivedBlocksTotal
}

// verifDropCaches models a process restart: the in-memory caches are gone, the record stays.
func verifDropCaches(c *Channels) {
	c.blockIndexCache = newBlockIndexCache()
	c.progressCache = newProgressCache()
}

// VerifC07_OneStep: from an arbitrary record (cache not yet seeded, i.e. right after a process
// start), one arbitrary block report in one direction, then a second one (cache seeded).
// Byte totals grow exactly by the size of a unique block at a position above the high-water
// mark, block indexes become the maximum, nothing ever decreases, the other directions are
// untouched, and a progress event is announced iff bytes changed.
func VerifC07_OneStep() {
	f := verifFixtureWith(1, 0)
	dir := zz.Choice("dir", 3)
	pre := f.pre
	zz.Assume(pre.DataLimit == 0) // limits are C08's subject
	zz.Assume(!IsChannelCleaningUp(pre.Status))
	bytes := verifBytes(&pre, dir)
	zz.Assume(verifIndex(&pre, dir) >= 0)
	for step := 0; step < 2; step++ {
		delta, index, unique := zz.Uint64("delta"), zz.Int64("index"), zz.Bool("unique")
		zz.Assume(bytes+delta >= bytes) // no wrap of the byte total (stated bound)
		zz.Assume(index >= 0)
		before := *f.g.VerifPeek(f.chid)
		// a report is FRESH (a position above every position reported so far) or a REPLAY of a
		// position at or below the highest one already recorded
		fresh := index > verifIndex(&before, dir)
		notesBefore := len(f.notes.Log)
		err := verifReport(f.c, dir, f.chid, delta, index, unique)
		after := f.g.VerifPeek(f.chid)
		zz.Assert(verifBytes(after, dir) >= verifBytes(&before, dir) && verifIndex(after, dir) >= verifIndex(&before, dir), "totals and indexes never decrease")
		for d := 0; d < 3; d++ {
			if d != dir {
				zz.Assert(verifBytes(after, d) == verifBytes(&before, d) && verifIndex(after, d) == verifIndex(&before, d), "other directions untouched")
			}
		}
		zz.Assert(after.Status == before.Status && VerifSameFlags(&before, after) && VerifSameLogs(&before, after) && VerifSameIdentity(&before, after), "a block report changes only its counters")
		if IsChannelTerminated(before.Status) {
			zz.Assert(VerifSameRecord(&before, after), "terminated channel untouched")
			continue
		}
		if !before.Status.Transferring() {
			continue // block reports are not applicable in this status; only monotonicity is claimed
		}
		counted := unique && fresh
		zz.Assert(err == nil, "report accepted")
		if counted {
			zz.Assert(verifBytes(after, dir) == bytes+delta, "a unique block at a new position is counted once")
			bytes += delta
			zz.Reach("counted")
		} else {
			zz.Assert(verifBytes(after, dir) == bytes, "a re-reported position or a non-unique block is not counted")
			zz.Reach("not counted")
		}
		progressed := false
		for _, n := range f.notes.Log[notesBefore:] {
			if n.Code == datatransfer.DataQueuedProgress || n.Code == datatransfer.DataSentProgress || n.Code == datatransfer.DataReceivedProgress {
				progressed = true
			}
		}
		zz.Assert(progressed == counted, "a progress event is announced iff bytes were counted")
		want := verifIndex(&before, dir)
		if index > want {
			want = index
		}
		zz.Assert(verifIndex(after, dir) == want, "block index is the highest position reported")
	}
}

// VerifC07_History: k reports on one direction of an Ongoing channel, each either FRESH (a
// position above every earlier one) or a REPLAY of an earlier report (same position and size,
// uniqueness kept or cleared: what a transport or process restart re-delivers), with an optional
// process restart (caches dropped) before any report. The byte total equals the sum of the sizes
// of the fresh unique reports and the block index equals the highest position.
//
//verif:opts quick.paths=0
func VerifC07_History() { verifHistory(3) }

//verif:tier thorough
func VerifC07_History5() { verifHistory(5) }

func verifHistory(k int) {
	f := verifFixtureWith(1, 0)
	zz.Assume(f.pre.Status == datatransfer.Ongoing && f.pre.DataLimit == 0)
	dir := zz.Choice("dir", 3)
	base := verifBytes(&f.pre, dir)
	maxIdx := verifIndex(&f.pre, dir)
	sum := uint64(0)
	type rep struct {
		delta  uint64
		index  int64
		unique bool
	}
	var hist []rep
	for i := 0; i < k; i++ {
		if zz.Bool("restartBefore") {
			verifDropCaches(f.c)
			zz.Reach("process restart")
		}
		var r rep
		j := zz.Choice("replayOf", len(hist)+1)
		if j == len(hist) {
			r = rep{zz.Uint64("delta"), zz.Int64("index"), zz.Bool("unique")}
			zz.Assume(r.index > maxIdx)
			zz.Assume(r.delta < 1<<40)
			maxIdx = r.index
			if r.unique {
				sum += r.delta
			}
			hist = append(hist, r)
		} else {
			r = hist[j]
			r.unique = r.unique && zz.Bool("stillUnique")
			zz.Reach("replay")
		}
		_ = verifReport(f.c, dir, f.chid, r.delta, r.index, r.unique)
	}
	zz.Assume(base < 1<<60)
	post := f.g.VerifPeek(f.chid)
	zz.Assert(verifBytes(post, dir) == base+sum, "byte total = sum of the unique blocks at distinct positions")
	zz.Assert(verifIndex(post, dir) == maxIdx, "block index = highest position reported")
}

// VerifC07_ConcurrentCAS: two reporters race on the lock-free high-water mark (pre-emption at
// every atomic operation). Equal positions are counted at most once, the mark ends at the
// maximum, and a report wins only if it advanced the mark.
//
//verif:opts preempt sched=12 fuel=8 preemptfn=(*github.com/filecoin-project/go-data-transfer/v2/channels.blockIndexCache).updateIfGreater
func VerifC07_ConcurrentCAS() {
	bic := newBlockIndexCache()
	chid := datatransfer.ChannelID{Initiator: peerID("a"), Responder: peerID("b"), ID: 1}
	seed := zz.Int64("seed")
	read := func(datatransfer.ChannelID) (int64, error) { return seed, nil }
	// seed the cache first (the seeding path is lock-protected)
	_, _ = bic.updateIfGreater(datatransfer.DataSent, chid, seed, read)
	i1, i2 := zz.Int64("i1"), zz.Int64("i2")
	var r1, r2 bool
	done := make(chan struct{}, 2)
	go func() { r1, _ = bic.updateIfGreater(datatransfer.DataSent, chid, i1, read); done <- struct{}{} }()
	go func() { r2, _ = bic.updateIfGreater(datatransfer.DataSent, chid, i2, read); done <- struct{}{} }()
	<-done
	<-done
	final, _ := bic.getValue(datatransfer.DataSent, chid, read)
	max := seed
	if i1 > max {
		max = i1
	}
	if i2 > max {
		max = i2
	}
	zz.Assert(*final == max, "high-water mark ends at the maximum")
	zz.Assert(!(i1 == i2 && r1 && r2), "equal positions are counted at most once")
	zz.Assert(!r1 || i1 > seed, "a report wins only if it is above the seed")
	zz.Assert(!r2 || i2 > seed, "a report wins only if it is above the seed")
	zz.Assert(max == seed || r1 || r2, "some report that advanced the mark wins")
	if r1 && r2 {
		zz.Reach("both advanced")
	}
}

// VerifC07_ConcurrentFirstReports: two reporters race on a cache that has NOT been seeded yet
// (start of a transfer, or right after a process restart): the lazy seeding from the durable
// index (double-checked under the cache lock) must hand both the same counter, so equal positions
// are still counted at most once and the mark ends at the maximum.
//
//verif:opts preempt=sync sched=9 fuel=8 preemptfn=(*github.com/filecoin-project/go-data-transfer/v2/channels.blockIndexCache).updateIfGreater,(*github.com/filecoin-project/go-data-transfer/v2/channels.blockIndexCache).getValue
func VerifC07_ConcurrentFirstReports() {
	bic := newBlockIndexCache()
	chid := datatransfer.ChannelID{Initiator: peerID("a"), Responder: peerID("b"), ID: 1}
	seed := zz.Int64("seed")
	reads := 0
	read := func(datatransfer.ChannelID) (int64, error) { reads++; zz.Preempt(); return seed, nil }
	i1, i2 := zz.Int64("i1"), zz.Int64("i2")
	var r1, r2 bool
	done := make(chan struct{}, 2)
	go func() { r1, _ = bic.updateIfGreater(datatransfer.DataSent, chid, i1, read); done <- struct{}{} }()
	go func() { r2, _ = bic.updateIfGreater(datatransfer.DataSent, chid, i2, read); done <- struct{}{} }()
	<-done
	<-done
	final, _ := bic.getValue(datatransfer.DataSent, chid, read)
	max := seed
	if i1 > max {
		max = i1
	}
	if i2 > max {
		max = i2
	}
	zz.Assert(*final == max, "high-water mark ends at the maximum")
	zz.Assert(!(i1 == i2 && r1 && r2), "equal positions are counted at most once, also while the cache is being seeded")
	zz.Assert(!r1 || i1 > seed, "a report wins only if it is above the durable index")
	zz.Assert(!r2 || i2 > seed, "a report wins only if it is above the durable index")
	zz.Assert(max == seed || r1 || r2, "some report that advanced the mark wins")
	zz.Reach("done")
}

// VerifC07_ConcurrentCAS3 (thorough): three racing reporters on a seeded cache.
//
//verif:tier thorough
//verif:opts preempt sched=6 fuel=10 part0=8 part1=2 preemptfn=(*github.com/filecoin-project/go-data-transfer/v2/channels.blockIndexCache).updateIfGreater
func VerifC07_ConcurrentCAS3() {
	bic := newBlockIndexCache()
	chid := datatransfer.ChannelID{Initiator: peerID("a"), Responder: peerID("b"), ID: 1}
	seed := zz.Int64("seed")
	read := func(datatransfer.ChannelID) (int64, error) { return seed, nil }
	_, _ = bic.updateIfGreater(datatransfer.DataSent, chid, seed, read)
	idx := [3]int64{zz.Int64("i1"), zz.Int64("i2"), zz.Int64("i3")}
	var res [3]bool
	done := make(chan struct{}, 3)
	for k := 0; k < 3; k++ {
		k := k
		go func() { res[k], _ = bic.updateIfGreater(datatransfer.DataSent, chid, idx[k], read); done <- struct{}{} }()
	}
	<-done
	<-done
	<-done
	final, _ := bic.getValue(datatransfer.DataSent, chid, read)
	max := seed
	for k := 0; k < 3; k++ {
		if idx[k] > max {
			max = idx[k]
		}
	}
	zz.Assert(*final == max, "high-water mark ends at the maximum")
	for a := 0; a < 3; a++ {
		zz.Assert(!res[a] || idx[a] > seed, "a report wins only if it is above the seed")
		for b := a + 1; b < 3; b++ {
			zz.Assert(!(idx[a] == idx[b] && res[a] && res[b]), "equal positions are counted at most once")
		}
	}
	zz.Assert(max == seed || res[0] || res[1] || res[2], "some report that advanced the mark wins")
	zz.Reach("done")
}

// VerifC01_AccountingNeverMovesBackwards: the accounting step of C07 under C01's name ("Received
// total equals Queued total equals the unique payload size ... for transfers healed by a
// restart" needs totals and block indexes that never move backwards, whatever is replayed).
func VerifC01_AccountingNeverMovesBackwards() { VerifC07_OneStep() }
