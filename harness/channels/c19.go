package channels

import (
	datatransfer "github.com/filecoin-project/go-data-transfer/v2"
	"github.com/filecoin-project/go-data-transfer/v2/channels/internal"
	zz "github.com/filecoin-project/go-data-transfer/v2/zzverif"
)

func verifCallAllAccessors(cs datatransfer.ChannelState) {
	_ = cs.TransferID()
	_ = cs.BaseCID()
	_ = cs.Selector()
	_ = cs.Voucher()
	_ = cs.Sender()
	_ = cs.Recipient()
	_ = cs.TotalSize()
	_ = cs.IsPull()
	_ = cs.ChannelID()
	_ = cs.OtherPeer()
	_ = cs.SelfPeer()
	_ = cs.Status()
	_ = cs.Sent()
	_ = cs.Received()
	_ = cs.Message()
	_ = cs.Vouchers()
	_ = cs.VoucherResults()
	_ = cs.LastVoucher()
	_ = cs.LastVoucherResult()
	_ = cs.ReceivedCidsTotal()
	_ = cs.QueuedCidsTotal()
	_ = cs.SentCidsTotal()
	_ = cs.Queued()
	_ = cs.DataLimit()
	_ = cs.RequiresFinalization()
	_ = cs.InitiatorPaused()
	_ = cs.ResponderPaused()
	_ = cs.BothPaused()
	_ = cs.SelfPaused()
	_ = cs.Stages()
}

// VerifC19_AccessorsTotal: for every channel state the library can hand out
// (any record with >= 1 voucher, as CreateNew guarantees, and 0..2 voucher
// results), every accessor returns without panicking and the 'last' accessors
// return the final entry or the empty value.
func VerifC19_AccessorsTotal() {
	nV := 1 + zz.Choice("nV", 2)
	nR := zz.Choice("nR", 3)
	st := VerifArbitraryRecord("st", nV, nR, false)
	cs := fromInternalChannelState(st)
	verifCallAllAccessors(cs)
	zz.Reach("all accessors returned")
	lv := cs.LastVoucher()
	zz.Assert(lv.Type == st.Vouchers[nV-1].Type && lv.Voucher == st.Vouchers[nV-1].Voucher.Node, "LastVoucher is the final entry")
	lr := cs.LastVoucherResult()
	if nR == 0 {
		zz.Assert(lr.Type == datatransfer.EmptyTypeIdentifier && lr.Voucher == nil, "LastVoucherResult is empty when there is none")
		zz.Reach("no voucher result yet")
	} else {
		zz.Assert(lr.Type == st.VoucherResults[nR-1].Type && lr.Voucher == st.VoucherResults[nR-1].VoucherResult.Node, "LastVoucherResult is the final entry")
	}
	v0 := cs.Voucher()
	zz.Assert(v0.Type == st.Vouchers[0].Type && v0.Voucher == st.Vouchers[0].Voucher.Node, "Voucher is the first entry")
	zz.Assert(len(cs.Vouchers()) == nV && len(cs.VoucherResults()) == nR, "log lengths")
	zz.Assert(cs.BothPaused() == (cs.InitiatorPaused() && cs.ResponderPaused()), "BothPaused is the conjunction")
}

// VerifC19_FreshChannelViews: a channel made by the real CreateNew (any
// direction, either role) has consistent derived views, and every accessor
// returns on it before any voucher result exists.
func VerifC19_FreshChannelViews() {
	env := &VerifEnv{Self: peerID(zz.String("self"))}
	notes := &VerifNotes{}
	c, _ := VerifNewChannels(notes.Notify, env, string(env.Self))
	other := peerID(zz.String("other"))
	zz.Assume(other != env.Self)
	tid := datatransfer.TransferID(zz.Uint64("tid"))
	base := zz.Cid("base")
	sel := zz.Node("selector")
	voucher := datatransfer.TypedVoucher{Voucher: zz.Node("voucher"), Type: datatransfer.TypeIdentifier(zz.String("vtype"))}
	selfInitiates := zz.Bool("selfInitiates")
	isPull := zz.Bool("isPull")
	initiator, responder := env.Self, other
	if !selfInitiates {
		initiator, responder = other, env.Self
	}
	sender, receiver := initiator, responder
	if isPull {
		sender, receiver = responder, initiator
	}
	chid, err := c.CreateNew(env.Self, tid, base, sel, voucher, initiator, sender, receiver)
	zz.Assert(err == nil, "CreateNew succeeds on an empty store")
	zz.Assert(chid == datatransfer.ChannelID{Initiator: initiator, Responder: responder, ID: tid}, "returned channel ID is (initiator, responder, transfer ID)")
	cs, err := c.GetByID(nil, chid)
	zz.Assert(err == nil, "created channel is readable")
	zz.Reach("created")
	zz.Assert(cs.IsPull() == isPull, "pull means the initiator is the recipient")
	zz.Assert(cs.ChannelID() == chid, "ChannelID view")
	zz.Assert(cs.SelfPeer() == env.Self && cs.OtherPeer() == other, "other peer is the party that is not self")
	zz.Assert(cs.Sender() == sender && cs.Recipient() == receiver, "sender/recipient")
	zz.Assert(cs.Voucher().Type == voucher.Type && cs.Voucher().Voucher == voucher.Voucher, "first voucher is the one the channel was opened with")
	zz.Assert(cs.BaseCID() == base && cs.Selector() == sel && cs.TransferID() == tid, "identity")
	zz.Assert(cs.Status() == datatransfer.Requested, "initial status")
	verifCallAllAccessors(cs)
	zz.Reach("all accessors returned on a fresh channel")
}

// VerifC19_AppendOnly: from an arbitrary record, one arbitrary event either
// appends exactly one entry to the matching log (NewVoucher / NewVoucherResult)
// or leaves both logs untouched; existing entries never change and the first
// voucher stays first.
func VerifC19_AppendOnly() {
	nV := 1 + zz.Choice("nV", 2)
	nR := zz.Choice("nR", 3)
	st := VerifArbitraryRecord("st", nV, nR, true)
	env := &VerifEnv{Self: st.SelfPeer}
	notes := &VerifNotes{}
	_, g := VerifNewChannels(notes.Notify, env, string(st.SelfPeer))
	chid := VerifChid(&st)
	g.VerifInstall(chid, &st)
	code := datatransfer.EventCode(zz.Choice("code", VerifNumEvents))
	var tv datatransfer.TypedVoucher
	var err error
	if code == datatransfer.NewVoucher || code == datatransfer.NewVoucherResult {
		tv = datatransfer.TypedVoucher{Voucher: zz.Node("new.node"), Type: datatransfer.TypeIdentifier(zz.String("new.type"))}
		err = g.Send(chid, code, tv)
	} else {
		err = VerifSendArbitrary(g, chid, code, "ev")
	}
	_ = err
	after := g.VerifPeek(chid)
	zz.Assert(after != nil, "record still present")
	terminal := IsChannelTerminated(st.Status)
	wantV, wantR := nV, nR
	if !terminal && code == datatransfer.NewVoucher {
		wantV++
	}
	if !terminal && code == datatransfer.NewVoucherResult {
		wantR++
	}
	zz.Assert(len(after.Vouchers) == wantV && len(after.VoucherResults) == wantR, "exactly the matching log grows, by one entry")
	prefix := *after
	prefix.Vouchers = after.Vouchers[:nV]
	prefix.VoucherResults = after.VoucherResults[:nR]
	zz.Assert(VerifSameLogs(&prefix, &st), "existing log entries are unchanged")
	if wantV > nV {
		e := after.Vouchers[nV]
		zz.Assert(e.Type == tv.Type && e.Voucher.Node == tv.Voucher, "appended voucher is the one sent")
		zz.Reach("voucher appended")
	}
	if wantR > nR {
		e := after.VoucherResults[nR]
		zz.Assert(e.Type == tv.Type && e.VoucherResult.Node == tv.Voucher, "appended result is the one sent")
		zz.Reach("result appended")
	}
	_ = internal.ChannelState{}
}

func VerifC00_InitCost_OK() { zz.Reach("x") }

// VerifC19_EmptyStateIsTotal: the exported "not present" value channels.EmptyChannelState is a
// channel state the library hands out (GetByID documents returning it): every accessor returns on
// it, and the 'last' accessors answer the empty value.
func VerifC19_EmptyStateIsTotal() {
	cs := EmptyChannelState
	verifCallAllAccessors(cs)
	lr := cs.LastVoucherResult()
	zz.Assert(lr.Type == datatransfer.EmptyTypeIdentifier && lr.Voucher == nil, "LastVoucherResult of the empty state is empty")
	lv := cs.LastVoucher()
	zz.Assert(lv.Type == datatransfer.EmptyTypeIdentifier && lv.Voucher == nil, "LastVoucher of the empty state is empty")
	zz.Assert(len(cs.Vouchers()) == 0 && len(cs.VoucherResults()) == 0, "no log entries")
	zz.Reach("empty state total")
}
