package channels

import (
	"bytes"
	"context"
	"errors"
	"fmt"
	"math/rand"
	"os"
	"strconv"
	"time"

	"github.com/ipfs/go-datastore"
	dsq "github.com/ipfs/go-datastore/query"
	dss "github.com/ipfs/go-datastore/sync"

	datatransfer "github.com/filecoin-project/go-data-transfer/v2"
	"github.com/filecoin-project/go-data-transfer/v2/channels/internal"
	zz "github.com/filecoin-project/go-data-transfer/v2/zzverif"
)

// verifUseRealFSM makes the native seam hand back the REAL versioned state machine group
// (go-ds-versioning + go-statemachine on a datastore) instead of the model.
var verifUseRealFSM bool

type verifSide struct {
	c     *Channels
	env   *VerifEnv
	codes []datatransfer.EventCode
	ds    datastore.Batching // the datastore the application supplied (real side)
}

// verifCheckDurable: the driver also checks, after every event, that the state a query returned
// is already in the datastore the application supplied (VerifC06_QueriedStateIsDurable).
var verifCheckDurable bool

// verifDurable: some value in the supplied datastore decodes to a record of this transfer whose
// views equal the queried ones.
func verifDurable(s *verifSide, tid datatransfer.TransferID, queried datatransfer.ChannelState) string {
	res, err := s.ds.Query(context.Background(), dsq.Query{})
	if err != nil {
		return "datastore query: " + err.Error()
	}
	defer res.Close()
	found := ""
	for e := range res.Next() {
		if e.Error != nil {
			continue
		}
		var rec internal.ChannelState
		if rec.UnmarshalCBOR(bytes.NewReader(e.Value)) != nil || rec.TransferID != tid {
			continue
		}
		d := verifSameViews(fromInternalChannelState(rec), queried)
		if d == "" {
			return ""
		}
		found = d
	}
	if found == "" {
		return "the queried channel is not in the application's datastore"
	}
	return "the application's datastore holds an older state than the query returned: " + found
}

func verifNewSide(real bool) *verifSide {
	s := &verifSide{env: &VerifEnv{Self: peerID("self")}}
	verifUseRealFSM = real
	var ds datastore.Batching
	if real {
		ds = dss.MutexWrap(datastore.NewMapDatastore())
		s.ds = ds
	}
	c, err := New(ds, func(evt datatransfer.Event, st datatransfer.ChannelState) { s.codes = append(s.codes, evt.Code) }, s.env, s.env.Self)
	verifUseRealFSM = false
	if err != nil {
		panic(err)
	}
	if err := c.Start(context.Background()); err != nil {
		panic(err)
	}
	s.c = c
	return s
}

func verifSameViews(a, b datatransfer.ChannelState) string {
	switch {
	case a.Status() != b.Status():
		return fmt.Sprintf("status %v vs %v", a.Status(), b.Status())
	case a.Queued() != b.Queued() || a.Sent() != b.Sent() || a.Received() != b.Received():
		return "byte totals"
	case a.QueuedCidsTotal() != b.QueuedCidsTotal() || a.SentCidsTotal() != b.SentCidsTotal() || a.ReceivedCidsTotal() != b.ReceivedCidsTotal():
		return "block indexes"
	case a.DataLimit() != b.DataLimit() || a.RequiresFinalization() != b.RequiresFinalization():
		return "limit/finalization"
	case a.InitiatorPaused() != b.InitiatorPaused() || a.ResponderPaused() != b.ResponderPaused():
		return "pause flags"
	case a.Message() != b.Message():
		return "message"
	case len(a.Vouchers()) != len(b.Vouchers()) || len(a.VoucherResults()) != len(b.VoucherResults()):
		return "voucher logs"
	}
	return ""
}

// VerifC03_ModelAgainstRealFSM is NOT a symbolic harness: it validates the one large stub. Natively,
// pseudo-random event sequences (all 36 event codes with well-typed arguments, from creation to
// past termination, seeded by VERIF_SEED) are applied to the REAL state-machine group
// (go-statemachine/go-ds-versioning on an in-memory datastore) and to the model of group.go, each
// behind the real channels.New; after every event the public views, the notifier streams and the
// cleanup calls of both are compared (the real group is asynchronous: comparison polls up to 2 s).
//
//verif:opts nativeonly
func VerifC03_ModelAgainstRealFSM() {
	if zz.Engine() {
		zz.Reach("native-only model validation")
		return
	}
	zz.Reach("native-only model validation")
	verifModelDriver(200)
}

// VerifC06_QueriedStateIsDurable is NOT a symbolic harness either: it checks, natively and on the
// REAL go-statemachine / go-ds-versioning / go-datastore stack that the model replaces everywhere
// else, the persistence assumption the C06 claim rests on: after every event of 60 pseudo-random
// histories, the state a query returned is already present, byte-decodable, in the very datastore
// the application handed to channels.New (no write-behind layer in between).
//
//verif:opts nativeonly
func VerifC06_QueriedStateIsDurable() {
	zz.Reach("native-only durability validation")
	if zz.Engine() {
		return
	}
	verifCheckDurable = true
	defer func() { verifCheckDurable = false }()
	verifModelDriver(60)
}

func verifModelDriver(nSeq int) {
	seed, _ := strconv.Atoi(os.Getenv("VERIF_SEED"))
	rng := rand.New(rand.NewSource(int64(seed) + 12345))
	sequences, events := 0, 0
	for n := 0; n < nSeq; n++ {
		real, model := verifNewSide(true), verifNewSide(false)
		tid := datatransfer.TransferID(rng.Uint64())
		pull := rng.Intn(2) == 0
		selfInit := rng.Intn(2) == 0
		self, other := peerID("self"), peerID("other")
		initiator, responder := self, other
		if !selfInit {
			initiator, responder = other, self
		}
		sender, receiver := initiator, responder
		if pull {
			sender, receiver = responder, initiator
		}
		v := datatransfer.TypedVoucher{Voucher: zz.OpaqueNode("v0"), Type: "t"}
		var chid datatransfer.ChannelID
		for _, s := range []*verifSide{real, model} {
			id, err := s.c.CreateNew(self, tid, zz.CidFromAtom("base"), zz.OpaqueNode("sel"), v, initiator, sender, receiver)
			if err != nil {
				panic(err)
			}
			chid = id
		}
		steps := 6 + rng.Intn(14)
		for i := 0; i < steps; i++ {
			code := datatransfer.EventCode(rng.Intn(VerifNumEvents))
			if i == 0 {
				code = datatransfer.Open
			}
			if code == datatransfer.CleanupComplete {
				continue
			}
			idx, amt, flag := int64(rng.Intn(50)), uint64(rng.Intn(1000)), rng.Intn(2) == 0
			errArg := errors.New(fmt.Sprintf("err%d", rng.Intn(5)))
			tv := datatransfer.TypedVoucher{Voucher: zz.OpaqueNode(fmt.Sprintf("n%d", rng.Intn(9))), Type: datatransfer.TypeIdentifier(fmt.Sprintf("t%d", rng.Intn(3)))}
			for _, s := range []*verifSide{real, model} {
				switch code {
				case datatransfer.DataReceived, datatransfer.DataSent, datatransfer.DataQueued:
					_ = s.c.stateMachines.Send(chid, code, idx)
				case datatransfer.DataReceivedProgress, datatransfer.DataSentProgress, datatransfer.DataQueuedProgress, datatransfer.SetDataLimit:
					_ = s.c.stateMachines.Send(chid, code, amt)
				case datatransfer.SetRequiresFinalization:
					_ = s.c.stateMachines.Send(chid, code, flag)
				case datatransfer.Disconnected, datatransfer.SendDataError, datatransfer.ReceiveDataError, datatransfer.RequestCancelled, datatransfer.Error:
					_ = s.c.stateMachines.Send(chid, code, errArg)
				case datatransfer.NewVoucher, datatransfer.NewVoucherResult:
					_ = s.c.stateMachines.Send(chid, code, tv)
				default:
					_ = s.c.stateMachines.Send(chid, code)
				}
			}
			events++
			// compare, polling the asynchronous real group
			deadline := time.Now().Add(2 * time.Second)
			for {
				a, errA := real.c.GetByID(context.Background(), chid)
				b, errB := model.c.GetByID(context.Background(), chid)
				diff := ""
				if errA != nil || errB != nil {
					diff = fmt.Sprintf("GetByID errors %v / %v", errA, errB)
				} else {
					diff = verifSameViews(a, b)
				}
				if diff == "" && len(real.codes) != len(model.codes) {
					diff = fmt.Sprintf("notifications %d vs %d", len(real.codes), len(model.codes))
				}
				if diff == "" && len(real.env.Cleanups) != len(model.env.Cleanups) {
					diff = "cleanup calls"
				}
				if diff == "" && verifCheckDurable {
					diff = verifDurable(real, tid, a)
				}
				if diff == "" {
					break
				}
				if time.Now().After(deadline) {
					zz.Fail(fmt.Sprintf("model and real state machine disagree after event %v (step %d of sequence %d, seed %d): %s", datatransfer.Events[code], i, n, seed, diff))
				}
				time.Sleep(2 * time.Millisecond)
			}
		}
		for i := range real.codes {
			if real.codes[i] != model.codes[i] {
				zz.Fail(fmt.Sprintf("notifier streams differ at %d: %v vs %v", i, real.codes[i], model.codes[i]))
			}
		}
		sequences++
		_ = real.c.Stop(context.Background())
	}
	zz.Observe("model-validation", sequences, events)
	zz.ModelValidated = sequences
}

// VerifUseRealFSM lets native-only harnesses of other packages run on the REAL state-machine
// group instead of the model.
func VerifUseRealFSM(on bool) { verifUseRealFSM = on }
