package channels

import (
	datatransfer "github.com/filecoin-project/go-data-transfer/v2"
	zz "github.com/filecoin-project/go-data-transfer/v2/zzverif"
)

// VerifC09_CleanupOnce: from an arbitrary record that is not yet terminal, ONE arbitrary event.
// Whenever the channel enters (or is found in) Cancelling, Failing or Completing, the transport
// resources are released and the peer un-protected exactly once, for exactly this channel and
// its counterparty, and the channel settles in the matching terminal status; a terminal status
// is never reached without that cleanup; and no other event triggers a cleanup.
func VerifC09_CleanupOnce() {
	f := verifFixtureWith(1, 0)
	pre := f.pre
	zz.Assume(!IsChannelTerminated(pre.Status))
	code := datatransfer.EventCode(zz.Choice("code", VerifNumEvents))
	// CleanupComplete is internal: only the cleanup entry function triggers it
	zz.Assume(code != datatransfer.CleanupComplete)
	_ = VerifSendArbitrary(f.g, f.chid, code, "ev")
	post := f.g.VerifPeek(f.chid)
	n := len(f.env.Cleanups)
	if IsChannelTerminated(post.Status) {
		zz.Assert(n == 1, "a terminal status is reached only through exactly one cleanup")
		zz.Assert(f.env.Cleanups[0] == f.chid, "the cleanup releases this channel's transport resources")
		other := pre.Initiator
		if other == f.env.Self {
			other = pre.Responder
		}
		zz.Assert(len(f.env.Unprotects) == 1 && f.env.Unprotects[0] == other, "and un-protects the counterparty exactly once")
		zz.Assert(f.env.UnprotectTags[0] == f.chid.String(), "with this channel's tag")
		zz.Reach("settled")
	} else {
		zz.Assert(n == 0 && len(f.env.Unprotects) == 0, "no cleanup without an ending")
		if !IsChannelCleaningUp(pre.Status) {
			zz.Assert(!IsChannelCleaningUp(post.Status), "a channel that enters a cleanup status settles without further input")
		}
		zz.Reach("no ending")
	}
	switch code {
	case datatransfer.Cancel:
		zz.Assert(post.Status == datatransfer.Cancelled, "cancel settles in Cancelled")
		zz.Reach("cancelled")
	case datatransfer.Error:
		zz.Assert(post.Status == datatransfer.Failed, "error settles in Failed")
		zz.Reach("failed")
	case datatransfer.Complete:
		zz.Assert(post.Status == datatransfer.Completed, "complete settles in Completed")
		zz.Reach("completed")
	}
	if IsChannelCleaningUp(pre.Status) && len(f.notes.Log) > 0 && code != datatransfer.Cancel && code != datatransfer.Error && code != datatransfer.Complete && code != datatransfer.Open &&
		code != datatransfer.BeginFinalizing && code != datatransfer.FinishTransfer && code != datatransfer.ResponderCompletes && code != datatransfer.ResponderBeginsFinalization {
		zz.Assert(post.Status == verifTerminalOf(pre.Status) || post.Status == pre.Status, "a channel persisted while cleaning up finishes THAT cleanup")
	}
}

// VerifC09_TwoSignalEnding: the normal two-signal completion of an initiator also cleans up exactly once.
func VerifC09_TwoSignalEnding() {
	f := verifFixtureWith(1, 0)
	first := zz.Bool("finishFirst")
	zz.Assume(f.pre.Status == datatransfer.Ongoing)
	if first {
		_ = f.c.FinishTransfer(f.chid)
		zz.Assert(len(f.env.Cleanups) == 0, "no cleanup after one signal")
		_ = f.c.ResponderCompletes(f.chid)
	} else {
		_ = f.c.ResponderCompletes(f.chid)
		zz.Assert(len(f.env.Cleanups) == 0, "no cleanup after one signal")
		_ = f.c.FinishTransfer(f.chid)
	}
	zz.Assert(f.g.VerifPeek(f.chid).Status == datatransfer.Completed && len(f.env.Cleanups) == 1 && len(f.env.Unprotects) == 1, "completed with exactly one cleanup")
	// later events never clean up again
	_ = f.c.Cancel(f.chid)
	_ = f.c.Error(f.chid, zz.Error("late"))
	zz.Assert(len(f.env.Cleanups) == 1 && f.g.VerifPeek(f.chid).Status == datatransfer.Completed, "no second cleanup after termination")
	zz.Reach("done")
}

// VerifC09_EventWhileCleaningUp: "exactly once" also when something happens while the cleanup is
// still running. The model group is in its queue mode (go-statemachine handles one event per step
// and queues what arrives while an entry function runs): a live channel ends (cancel, error or
// complete), and while the environment is releasing the transport ONE arbitrary further event is
// sent to the channel (a block hook graphsync had in flight, a disconnect, a message of the
// counterparty, a second ending, ...). Oracle: the transport is released and the peer un-protected
// exactly once per ENTERING of Cancelling / Failing / Completing (ghost counter of the model:
// applied transitions whose destination is one of the three; a second ending arriving meanwhile is
// a second entering), and a channel left in a cleanup status settles without further input.
// CompleteCleanupOnRestart is excluded: it is the explicit request to run the cleanup of a channel
// found in a cleanup status again.
//verif:opts viol=40
func VerifC09_EventWhileCleaningUp() {
	f := verifFixtureWith(1, 0)
	pre := f.pre
	zz.Assume(!IsChannelTerminated(pre.Status) && !IsChannelCleaningUp(pre.Status))
	f.g.QueueWhileBusy = true
	ending := []datatransfer.EventCode{datatransfer.Cancel, datatransfer.Error, datatransfer.Complete}[zz.Choice("ending", 3)]
	late := zz.Choice("late", VerifNumEvents)
	zz.Assume(datatransfer.EventCode(late) != datatransfer.CleanupComplete) // internal: only the cleanup triggers it
	zz.Assume(datatransfer.EventCode(late) != datatransfer.CompleteCleanupOnRestart)
	names := verifEventAtCleanupNames()
	zz.Assert(len(names) == VerifNumEvents, "name table covers every event code")
	fired := false
	f.env.CleanupHook = func() {
		if fired {
			return
		}
		fired = true
		zz.Note("event arriving while the cleanup runs:")
		zz.Note(names[late])
		_ = VerifSendArbitrary(f.g, f.chid, datatransfer.EventCode(late), "late")
	}
	_ = VerifSendArbitrary(f.g, f.chid, ending, "end")
	post := f.g.VerifPeek(f.chid)
	zz.Assert(fired, "every ending is taken from every live status and starts the cleanup")
	entered := f.g.CleanupEntries
	zz.Assert(entered >= 1, "the hook only runs inside a cleanup")
	zz.Assert(!IsChannelCleaningUp(post.Status), "without further input the channel settles")
	if entered == 1 && IsChannelTerminated(post.Status) {
		switch ending {
		case datatransfer.Cancel:
			zz.Assert(post.Status == datatransfer.Cancelled, "cancel settles in Cancelled")
		case datatransfer.Error:
			zz.Assert(post.Status == datatransfer.Failed, "error settles in Failed")
		case datatransfer.Complete:
			zz.Assert(post.Status == datatransfer.Completed, "complete settles in Completed")
		}
	}
	zz.Assert(len(f.env.Cleanups) == entered, "the transport resources are released exactly once per entering of a cleanup status, whatever arrives while the cleanup runs")
	zz.Assert(len(f.env.Unprotects) == entered, "the peer connection is un-protected exactly once per entering of a cleanup status, whatever arrives while the cleanup runs")
	if entered > 1 {
		zz.Reach("a second ending arrived while the first cleanup ran")
	}
	zz.Reach("settled after an event during the cleanup")
}

func verifEventAtCleanupNames() []string {
	return []string{"Open@cleanup", "Accept@cleanup", "Restart@cleanup", "DataReceived@cleanup", "DataSent@cleanup", "Cancel@cleanup", "Error@cleanup", "CleanupComplete@cleanup", "NewVoucher@cleanup", "NewVoucherResult@cleanup", "PauseInitiator@cleanup", "ResumeInitiator@cleanup", "PauseResponder@cleanup", "ResumeResponder@cleanup", "FinishTransfer@cleanup", "ResponderCompletes@cleanup", "ResponderBeginsFinalization@cleanup", "BeginFinalizing@cleanup", "Disconnected@cleanup", "Complete@cleanup", "CompleteCleanupOnRestart@cleanup", "DataQueued@cleanup", "DataQueuedProgress@cleanup", "DataSentProgress@cleanup", "DataReceivedProgress@cleanup", "RequestTimedOut@cleanup", "SendDataError@cleanup", "ReceiveDataError@cleanup", "TransferRequestQueued@cleanup", "RequestCancelled@cleanup", "Opened@cleanup", "SetDataLimit@cleanup", "SetRequiresFinalization@cleanup", "DataLimitExceeded@cleanup", "TransferInitiated@cleanup", "SendMessageError@cleanup"}
}

// VerifC09_TwoEventsWhileCleaningUp: as EventWhileCleaningUp, with TWO arbitrary events queued
// behind the running cleanup (handled in order before its CleanupComplete).
//
//verif:tier thorough
//verif:opts viol=40
func VerifC09_TwoEventsWhileCleaningUp() {
	f := verifFixtureWith(1, 0)
	pre := f.pre
	zz.Assume(!IsChannelTerminated(pre.Status) && !IsChannelCleaningUp(pre.Status))
	f.g.QueueWhileBusy = true
	ending := []datatransfer.EventCode{datatransfer.Cancel, datatransfer.Error, datatransfer.Complete}[zz.Choice("ending", 3)]
	late1, late2 := zz.Choice("late1", VerifNumEvents), zz.Choice("late2", VerifNumEvents)
	for _, l := range []int{late1, late2} {
		zz.Assume(datatransfer.EventCode(l) != datatransfer.CleanupComplete && datatransfer.EventCode(l) != datatransfer.CompleteCleanupOnRestart)
	}
	names := verifEventAtCleanupNames()
	fired := false
	f.env.CleanupHook = func() {
		if fired {
			return
		}
		fired = true
		zz.Note("events arriving while the cleanup runs:")
		zz.Note(names[late1])
		zz.Note(names[late2])
		_ = VerifSendArbitrary(f.g, f.chid, datatransfer.EventCode(late1), "late1")
		_ = VerifSendArbitrary(f.g, f.chid, datatransfer.EventCode(late2), "late2")
	}
	_ = VerifSendArbitrary(f.g, f.chid, ending, "end")
	post := f.g.VerifPeek(f.chid)
	zz.Assert(fired, "every ending is taken from every live status and starts the cleanup")
	entered := f.g.CleanupEntries
	zz.Assert(!IsChannelCleaningUp(post.Status), "without further input the channel settles")
	zz.Assert(len(f.env.Cleanups) == entered, "the transport resources are released exactly once per entering of a cleanup status, whatever arrives while the cleanup runs")
	zz.Assert(len(f.env.Unprotects) == entered, "the peer connection is un-protected exactly once per entering of a cleanup status, whatever arrives while the cleanup runs")
	zz.Reach("settled after two events during the cleanup")
}
