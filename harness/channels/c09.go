package channels

import (
	datatransfer "github.com/filecoin-project/go-data-transfer/v2"
	zz "github.com/filecoin-project/go-data-transfer/v2/zzverif"
)

// VerifC09_CleanupOnce: from an arbitrary record that is not yet terminal, ONE arbitrary event.
// Whenever the channel enters (or is found in) Cancelling, Failing or Completing, the transport
// resources are released and the peer un-protected exactly once, for exactly this channel and
// its counterparty, and the channel settles in the matching terminal status; a terminal status
// is never reached without that cleanup; and no other event triggers a cleanup.
func VerifC09_CleanupOnce() {
	f := verifFixtureWith(1, 0)
	pre := f.pre
	zz.Assume(!IsChannelTerminated(pre.Status))
	code := datatransfer.EventCode(zz.Choice("code", VerifNumEvents))
	// CleanupComplete is internal: only the cleanup entry function triggers it
	zz.Assume(code != datatransfer.CleanupComplete)
	_ = VerifSendArbitrary(f.g, f.chid, code, "ev")
	post := f.g.VerifPeek(f.chid)
	n := len(f.env.Cleanups)
	if IsChannelTerminated(post.Status) {
		zz.Assert(n == 1, "a terminal status is reached only through exactly one cleanup")
		zz.Assert(f.env.Cleanups[0] == f.chid, "the cleanup releases this channel's transport resources")
		other := pre.Initiator
		if other == f.env.Self {
			other = pre.Responder
		}
		zz.Assert(len(f.env.Unprotects) == 1 && f.env.Unprotects[0] == other, "and un-protects the counterparty exactly once")
		zz.Assert(f.env.UnprotectTags[0] == f.chid.String(), "with this channel's tag")
		zz.Reach("settled")
	} else {
		zz.Assert(n == 0 && len(f.env.Unprotects) == 0, "no cleanup without an ending")
		if !IsChannelCleaningUp(pre.Status) {
			zz.Assert(!IsChannelCleaningUp(post.Status), "a channel that enters a cleanup status settles without further input")
		}
		zz.Reach("no ending")
	}
	switch code {
	case datatransfer.Cancel:
		zz.Assert(post.Status == datatransfer.Cancelled, "cancel settles in Cancelled")
		zz.Reach("cancelled")
	case datatransfer.Error:
		zz.Assert(post.Status == datatransfer.Failed, "error settles in Failed")
		zz.Reach("failed")
	case datatransfer.Complete:
		zz.Assert(post.Status == datatransfer.Completed, "complete settles in Completed")
		zz.Reach("completed")
	}
	if IsChannelCleaningUp(pre.Status) && len(f.notes.Log) > 0 && code != datatransfer.Cancel && code != datatransfer.Error && code != datatransfer.Complete && code != datatransfer.Open &&
		code != datatransfer.BeginFinalizing && code != datatransfer.FinishTransfer && code != datatransfer.ResponderCompletes && code != datatransfer.ResponderBeginsFinalization {
		zz.Assert(post.Status == verifTerminalOf(pre.Status) || post.Status == pre.Status, "a channel persisted while cleaning up finishes THAT cleanup")
	}
}

// VerifC09_TwoSignalEnding: the normal two-signal completion of an initiator also cleans up exactly once.
func VerifC09_TwoSignalEnding() {
	f := verifFixtureWith(1, 0)
	first := zz.Bool("finishFirst")
	zz.Assume(f.pre.Status == datatransfer.Ongoing)
	if first {
		_ = f.c.FinishTransfer(f.chid)
		zz.Assert(len(f.env.Cleanups) == 0, "no cleanup after one signal")
		_ = f.c.ResponderCompletes(f.chid)
	} else {
		_ = f.c.ResponderCompletes(f.chid)
		zz.Assert(len(f.env.Cleanups) == 0, "no cleanup after one signal")
		_ = f.c.FinishTransfer(f.chid)
	}
	zz.Assert(f.g.VerifPeek(f.chid).Status == datatransfer.Completed && len(f.env.Cleanups) == 1 && len(f.env.Unprotects) == 1, "completed with exactly one cleanup")
	// later events never clean up again
	_ = f.c.Cancel(f.chid)
	_ = f.c.Error(f.chid, zz.Error("late"))
	zz.Assert(len(f.env.Cleanups) == 1 && f.g.VerifPeek(f.chid).Status == datatransfer.Completed, "no second cleanup after termination")
	zz.Reach("done")
}
