package channels

import (
	datatransfer "github.com/filecoin-project/go-data-transfer/v2"
	zz "github.com/filecoin-project/go-data-transfer/v2/zzverif"
)

// verifLimitedDir is the direction the data limit applies to: queued for a pull, received for a push.
func verifLimitedDir(isPull bool) int {
	if isPull {
		return dirQueued
	}
	return dirReceived
}

// VerifC08_ReportStep: a responder's channel in the transferring status with an arbitrary limit L
// and arbitrary progress P; the caches are unseeded (process just started) or were seeded by an
// earlier report. One block report on the limited direction returns the pause signal exactly when
// the block is counted and L != 0 and P+size >= L; then the responder is marked paused by a
// DataLimitExceeded event. No earlier report pauses, and with limit zero none ever does.
func VerifC08_ReportStep() {
	f := verifFixtureWith(1, 0)
	pre := f.pre
	zz.Assume(pre.Status == datatransfer.Ongoing)
	zz.Assume(pre.SelfPeer == pre.Responder) // limits exist on the responder
	isPull := pre.Initiator == pre.Recipient
	dir := verifLimitedDir(isPull)
	L := pre.DataLimit
	zz.Assume(verifIndex(&pre, dir) >= 0)
	steps := 1 + zz.Choice("steps", 2)
	for s := 0; s < steps; s++ {
		before := *f.g.VerifPeek(f.chid)
		P := verifBytes(&before, dir)
		delta, index, unique := zz.Uint64("delta"), zz.Int64("index"), zz.Bool("unique")
		zz.Assume(P+delta >= P && P < 1<<62 && delta < 1<<62) // no wrap (stated bound)
		zz.Assume(index >= 0)
		fresh := index > verifIndex(&before, dir)
		err := verifReport(f.c, dir, f.chid, delta, index, unique)
		after := f.g.VerifPeek(f.chid)
		counted := unique && fresh
		wantPause := counted && L != 0 && P+delta >= L
		if wantPause {
			zz.Assert(err == datatransfer.ErrPause, "the report that reaches the limit returns the pause signal")
			zz.Assert(after.ResponderPaused, "and marks the responder paused")
			sawLimit := false
			for _, n := range f.notes.Log {
				if n.Code == datatransfer.DataLimitExceeded {
					sawLimit = true
				}
			}
			zz.Assert(sawLimit, "with a DataLimitExceeded event")
			zz.Reach("limit reached")
			if P+delta == L {
				zz.Reach("exactly at the limit")
			}
		} else {
			zz.Assert(err == nil, "no earlier report returns the pause signal")
			zz.Assert(after.ResponderPaused == before.ResponderPaused, "and the pause flag is untouched")
			if L == 0 {
				zz.Reach("no limit")
			} else {
				zz.Reach("below the limit")
			}
		}
		zz.Assert(after.DataLimit == L, "a report never changes the limit")
	}
}

// VerifC08_OtherDirections: reports on directions the limit does not apply to never pause.
func VerifC08_OtherDirections() {
	f := verifFixtureWith(1, 0)
	pre := f.pre
	zz.Assume(pre.Status == datatransfer.Ongoing && pre.SelfPeer == pre.Responder)
	isPull := pre.Initiator == pre.Recipient
	dir := zz.Choice("dir", 3)
	zz.Assume(dir == dirSent || (isPull && dir == dirReceived) || (!isPull && dir == dirSent))
	err := verifReport(f.c, dir, f.chid, zz.Uint64("delta"), zz.Int64("index"), zz.Bool("unique"))
	if dir == dirSent {
		zz.Assert(err == nil, "sent-accounting never pauses")
		zz.Reach("sent")
	}
}

// VerifC08_LimitChangeAndRestart: the limit is raised (SetDataLimit) while cached, and/or the
// process restarts (caches dropped) at any point: the next report is judged against the NEW limit
// and the progress made so far.
func VerifC08_LimitChangeAndRestart() {
	f := verifFixtureWith(1, 0)
	pre := f.pre
	zz.Assume(pre.Status == datatransfer.Ongoing && pre.SelfPeer == pre.Responder)
	isPull := pre.Initiator == pre.Recipient
	dir := verifLimitedDir(isPull)
	zz.Assume(verifIndex(&pre, dir) >= 0 && verifIndex(&pre, dir) < 1<<62)
	P0 := verifBytes(&pre, dir)
	zz.Assume(P0 < 1<<60)
	// optionally seed the caches with a first counted report
	idx := verifIndex(&pre, dir)
	P := P0
	if zz.Bool("seedFirst") {
		d0 := zz.Uint64("d0")
		zz.Assume(d0 < 1<<60)
		idx++
		_ = verifReport(f.c, dir, f.chid, d0, idx, true)
		P += d0
		zz.Reach("cache seeded")
	}
	if zz.Bool("restart1") {
		verifDropCaches(f.c)
	}
	newL := zz.Uint64("newLimit")
	zz.Assert(f.c.SetDataLimit(f.chid, newL) == nil, "limit recorded")
	zz.Assert(f.g.VerifPeek(f.chid).DataLimit == newL, "the record holds the new limit")
	if zz.Bool("restart2") {
		verifDropCaches(f.c)
		zz.Reach("restart after limit change")
	}
	d := zz.Uint64("d")
	zz.Assume(d < 1<<60)
	idx++
	err := verifReport(f.c, dir, f.chid, d, idx, true)
	want := newL != 0 && P+d >= newL
	zz.Assert((err == datatransfer.ErrPause) == want, "the next report is judged against the new limit and the progress so far")
	zz.Assert(err == nil || err == datatransfer.ErrPause, "no other error")
	if want {
		zz.Reach("pauses at new limit")
	} else {
		zz.Reach("continues under new limit")
	}
	zz.Assert(verifBytes(f.g.VerifPeek(f.chid), dir) == P+d, "progress survives")
}
