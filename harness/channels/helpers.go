package channels

import (
	versioning "github.com/filecoin-project/go-ds-versioning/pkg"
	"github.com/ipld/go-ipld-prime/datamodel"
	peer "github.com/libp2p/go-libp2p/core/peer"

	datatransfer "github.com/filecoin-project/go-data-transfer/v2"
	"github.com/filecoin-project/go-data-transfer/v2/channels/internal"
	zz "github.com/filecoin-project/go-data-transfer/v2/zzverif"
)

//verif:stub github.com/filecoin-project/go-data-transfer/v2/channels/internal/migrations.GetChannelStateMigrations verifGetMigrations

// verifGetMigrations: the migration list is only handed to the (stubbed) versioned FSM constructor.
func verifGetMigrations(selfPeer peer.ID) (versioning.VersionedMigrationList, error) { return nil, nil }

func peerID(s string) peer.ID { return peer.ID(s) }

// VerifRecord lets harnesses outside channels/ name the internal record type.
type VerifRecord = internal.ChannelState

// VerifNumEvents is the number of event codes (0..VerifNumEvents-1).
const VerifNumEvents = int(datatransfer.SendMessageError) + 1

// VerifNumStatuses is the number of status codes.
const VerifNumStatuses = int(datatransfer.AwaitingAcceptance) + 1

// VerifEnv is a recording ChannelEnvironment double.
type VerifEnv struct {
	Self          peer.ID
	Cleanups      []datatransfer.ChannelID
	Unprotects    []peer.ID
	UnprotectTags []string
	Protects      int
	// CleanupHook, if set, runs inside CleanupChannel (i.e. while the cleanup entry function runs)
	CleanupHook func()
}

func (e *VerifEnv) Protect(id peer.ID, tag string) { e.Protects++ }
func (e *VerifEnv) Unprotect(id peer.ID, tag string) bool {
	e.Unprotects = append(e.Unprotects, id)
	e.UnprotectTags = append(e.UnprotectTags, tag)
	return false
}
func (e *VerifEnv) ID() peer.ID { return e.Self }
func (e *VerifEnv) CleanupChannel(chid datatransfer.ChannelID) {
	e.Cleanups = append(e.Cleanups, chid)
	if e.CleanupHook != nil {
		e.CleanupHook()
	}
}

// VerifNote is one notifier call.
type VerifNote struct {
	Code  datatransfer.EventCode
	State datatransfer.ChannelState
}

// VerifNotes records notifier calls.
type VerifNotes struct{ Log []VerifNote }

func (n *VerifNotes) Notify(evt datatransfer.Event, st datatransfer.ChannelState) {
	n.Log = append(n.Log, VerifNote{evt.Code, st})
}

// VerifArbitraryRecord returns a record whose scalar and identity fields are all
// arbitrary, with nV vouchers and nR voucher results.
// If created is true, the identities satisfy what Channels.CreateNew establishes:
// Initiator != Responder, SelfPeer is one of them, sender/recipient match the direction.
func VerifArbitraryRecord(label string, nV, nR int, created bool) internal.ChannelState {
	var st internal.ChannelState
	zz.Symbolic(&st, label)
	zz.Assume(uint64(st.Status) < uint64(VerifNumStatuses))
	st.Selector = internal.CborGenCompatibleNode{Node: zz.Node(label + ".Selector")}
	for i := 0; i < nV; i++ {
		st.Vouchers = append(st.Vouchers, internal.EncodedVoucher{
			Type:    datatransfer.TypeIdentifier(zz.String(label + ".Vouchers.Type")),
			Voucher: internal.CborGenCompatibleNode{Node: zz.Node(label + ".Vouchers.Voucher")},
		})
	}
	for i := 0; i < nR; i++ {
		st.VoucherResults = append(st.VoucherResults, internal.EncodedVoucherResult{
			Type:          datatransfer.TypeIdentifier(zz.String(label + ".VoucherResults.Type")),
			VoucherResult: internal.CborGenCompatibleNode{Node: zz.Node(label + ".VoucherResults.VoucherResult")},
		})
	}
	st.Stages = &datatransfer.ChannelStages{}
	if created {
		zz.Assume(st.Initiator != st.Responder)
		st.SelfPeer = zz.Ite(zz.Bool(label+".selfIsInitiator"), st.Initiator, st.Responder)
		pull := zz.Bool(label + ".isPull")
		st.Recipient = zz.Ite(pull, st.Initiator, st.Responder)
		st.Sender = zz.Ite(pull, st.Responder, st.Initiator)
	}
	return st
}

// VerifChid is the channel ID of a record.
func VerifChid(st *internal.ChannelState) datatransfer.ChannelID {
	return datatransfer.ChannelID{Initiator: st.Initiator, Responder: st.Responder, ID: st.TransferID}
}

// VerifSameRecord compares every field of two records (logs element-wise).
func VerifSameRecord(a, b *internal.ChannelState) bool {
	if !VerifSameExceptStatus(a, b) {
		return false
	}
	return a.Status == b.Status
}

// VerifSameExceptStatus compares every field except Status.
func VerifSameExceptStatus(a, b *internal.ChannelState) bool {
	return VerifSameIdentity(a, b) && VerifSameCounters(a, b) && VerifSameFlags(a, b) && VerifSameLogs(a, b) && a.Message == b.Message
}

// VerifSameIdentity compares the immutable identity fields.
func VerifSameIdentity(a, b *internal.ChannelState) bool {
	return a.SelfPeer == b.SelfPeer && a.TransferID == b.TransferID && a.Initiator == b.Initiator && a.Responder == b.Responder &&
		a.BaseCid == b.BaseCid && a.Selector.Node == b.Selector.Node && a.Sender == b.Sender && a.Recipient == b.Recipient &&
		a.TotalSize == b.TotalSize && a.Stages == b.Stages
}

// VerifSameCounters compares byte totals and block indexes.
func VerifSameCounters(a, b *internal.ChannelState) bool {
	return a.Queued == b.Queued && a.Sent == b.Sent && a.Received == b.Received &&
		a.ReceivedBlocksTotal == b.ReceivedBlocksTotal && a.QueuedBlocksTotal == b.QueuedBlocksTotal && a.SentBlocksTotal == b.SentBlocksTotal
}

// VerifSameFlags compares pause flags, limit and finalization flag.
func VerifSameFlags(a, b *internal.ChannelState) bool {
	return a.DataLimit == b.DataLimit && a.RequiresFinalization == b.RequiresFinalization &&
		a.ResponderPaused == b.ResponderPaused && a.InitiatorPaused == b.InitiatorPaused
}

// VerifSameLogs compares the voucher and voucher-result logs element-wise.
func VerifSameLogs(a, b *internal.ChannelState) bool {
	if len(a.Vouchers) != len(b.Vouchers) || len(a.VoucherResults) != len(b.VoucherResults) {
		return false
	}
	for i := range a.Vouchers {
		if a.Vouchers[i].Type != b.Vouchers[i].Type || a.Vouchers[i].Voucher.Node != b.Vouchers[i].Voucher.Node {
			return false
		}
	}
	for i := range a.VoucherResults {
		if a.VoucherResults[i].Type != b.VoucherResults[i].Type || a.VoucherResults[i].VoucherResult.Node != b.VoucherResults[i].VoucherResult.Node {
			return false
		}
	}
	return true
}

// VerifSendArbitrary sends event `code` with arbitrary well-typed arguments straight to the group.
func VerifSendArbitrary(g *VerifGroup, chid datatransfer.ChannelID, code datatransfer.EventCode, label string) error {
	switch code {
	case datatransfer.DataReceived, datatransfer.DataSent, datatransfer.DataQueued:
		return g.Send(chid, code, zz.Int64(label+".index"))
	case datatransfer.DataReceivedProgress, datatransfer.DataSentProgress, datatransfer.DataQueuedProgress, datatransfer.SetDataLimit:
		return g.Send(chid, code, zz.Uint64(label+".amount"))
	case datatransfer.SetRequiresFinalization:
		return g.Send(chid, code, zz.Bool(label+".flag"))
	case datatransfer.Disconnected, datatransfer.SendDataError, datatransfer.ReceiveDataError, datatransfer.RequestCancelled, datatransfer.Error:
		return g.Send(chid, code, zz.Error(label+".err"))
	case datatransfer.NewVoucher, datatransfer.NewVoucherResult:
		return g.Send(chid, code, datatransfer.TypedVoucher{Voucher: zz.Node(label + ".node"), Type: datatransfer.TypeIdentifier(zz.String(label + ".type"))})
	}
	return g.Send(chid, code)
}

// VerifView wraps a record in the public ChannelState view.
func VerifView(rec *internal.ChannelState) datatransfer.ChannelState {
	return fromInternalChannelState(*rec)
}

// VerifInitiatorInv is the inductive invariant of C03 (see c03.go verifInv), exported for impl-level steps.
func VerifInitiatorInv(s datatransfer.Status, F, R, L bool) bool { return verifInv(s, F, R, L) }

// VerifVoucher lets harnesses outside channels/ build voucher log entries.
type VerifVoucher = internal.EncodedVoucher

func VerifMakeVoucher(t string, n datamodel.Node) internal.EncodedVoucher {
	return internal.EncodedVoucher{Type: datatransfer.TypeIdentifier(t), Voucher: internal.CborGenCompatibleNode{Node: n}}
}
