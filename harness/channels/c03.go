package channels

import (
	datatransfer "github.com/filecoin-project/go-data-transfer/v2"
	"github.com/filecoin-project/go-data-transfer/v2/channels/internal"
	zz "github.com/filecoin-project/go-data-transfer/v2/zzverif"
)

// verifIsBookkeeping: events that report data, pauses, vouchers, limits and
// network-error notices, plus the codes that have no transition at all.
func verifIsBookkeeping(c datatransfer.EventCode) bool {
	switch c {
	case datatransfer.DataReceived, datatransfer.DataSent, datatransfer.DataQueued,
		datatransfer.DataReceivedProgress, datatransfer.DataSentProgress, datatransfer.DataQueuedProgress,
		datatransfer.PauseInitiator, datatransfer.ResumeInitiator, datatransfer.PauseResponder, datatransfer.ResumeResponder,
		datatransfer.NewVoucher, datatransfer.NewVoucherResult,
		datatransfer.SetDataLimit, datatransfer.SetRequiresFinalization, datatransfer.DataLimitExceeded,
		datatransfer.Disconnected, datatransfer.SendDataError, datatransfer.ReceiveDataError, datatransfer.RequestCancelled,
		datatransfer.Opened, datatransfer.Restart, datatransfer.CompleteCleanupOnRestart,
		datatransfer.RequestTimedOut, datatransfer.TransferRequestQueued, datatransfer.SendMessageError:
		return true
	}
	return false
}

func verifTerminalOf(s datatransfer.Status) datatransfer.Status {
	switch s {
	case datatransfer.Cancelling:
		return datatransfer.Cancelled
	case datatransfer.Failing:
		return datatransfer.Failed
	case datatransfer.Completing:
		return datatransfer.Completed
	}
	return s
}

type verifFixture struct {
	c     *Channels
	g     *VerifGroup
	env   *VerifEnv
	notes *VerifNotes
	chid  datatransfer.ChannelID
	pre   internal.ChannelState
}

// verifFixtureWith installs one arbitrary (creation-consistent) record in a fresh Channels.
func verifFixtureWith(nV, nR int) *verifFixture {
	f := &verifFixture{}
	f.pre = VerifArbitraryRecord("st", nV, nR, true)
	f.env = &VerifEnv{Self: f.pre.SelfPeer}
	f.notes = &VerifNotes{}
	f.c, f.g = VerifNewChannels(f.notes.Notify, f.env, string(f.pre.SelfPeer))
	f.chid = VerifChid(&f.pre)
	f.g.VerifInstall(f.chid, &f.pre)
	return f
}

// VerifC03_Classification: from an arbitrary record, ONE arbitrary event with arbitrary arguments.
// Bookkeeping events never change the lifecycle status (for a channel that is not already
// cleaning up, where any applied event merely lets the pending cleanup finish) and lifecycle
// events never change counters, block indexes, pause flags, limit, finalization flag or the
// voucher logs. No event ever changes the identity fields.
func VerifC03_Classification() {
	f := verifFixtureWith(1, zz.Choice("nR", 2))
	code := datatransfer.EventCode(zz.Choice("code", VerifNumEvents))
	_ = VerifSendArbitrary(f.g, f.chid, code, "ev")
	post := f.g.VerifPeek(f.chid)
	pre := &f.pre
	zz.Assert(VerifSameIdentity(pre, post), "identity fields never change")
	cleaning := IsChannelCleaningUp(pre.Status)
	terminal := IsChannelTerminated(pre.Status)
	if terminal {
		zz.Assert(VerifSameRecord(pre, post), "terminal record untouched")
		zz.Assert(len(f.notes.Log) == 0, "no notification for a terminal channel")
		zz.Reach("terminal pre-state")
		return
	}
	if verifIsBookkeeping(code) {
		if cleaning {
			zz.Assert(post.Status == pre.Status || post.Status == verifTerminalOf(pre.Status), "cleanup status only moves on to its own terminal status")
			zz.Reach("bookkeeping while cleaning up")
		} else if code == datatransfer.ResumeResponder && pre.Status == datatransfer.Finalizing {
			zz.Assert(post.Status == datatransfer.Completed, "ResumeResponder releases a finalizing responder, which completes")
			zz.Reach("release from Finalizing")
		} else {
			zz.Assert(post.Status == pre.Status, "bookkeeping events never change the lifecycle status")
			zz.Reach("bookkeeping")
		}
	} else {
		zz.Assert(VerifSameCounters(pre, post), "lifecycle events never change counters or block indexes")
		zz.Assert(VerifSameFlags(pre, post), "lifecycle events never change pause flags, limit or finalization flag")
		zz.Assert(VerifSameLogs(pre, post), "lifecycle events never change the voucher logs")
		zz.Reach("lifecycle")
	}
}

// initiator-side, normal-flow stimuli (no Open: it is only sent at creation; no Cancel/Error:
// not the normal flow; no BeginFinalizing/Complete: only a responder fires them).
func verifInitiatorStimulus(f *verifFixture, label string) (code datatransfer.EventCode) {
	k := zz.Choice(label, 7)
	switch k {
	case 0:
		code = datatransfer.FinishTransfer
	case 1:
		code = datatransfer.ResponderCompletes
	case 2:
		code = datatransfer.ResponderBeginsFinalization
	case 3:
		code = datatransfer.Accept
	case 4:
		code = datatransfer.TransferInitiated
	case 5:
		code = datatransfer.Restart
	default:
		// any bookkeeping event
		code = datatransfer.EventCode(zz.Choice(label+".bk", VerifNumEvents))
		zz.Assume(verifIsBookkeeping(code))
	}
	_ = VerifSendArbitrary(f.g, f.chid, code, label+".ev")
	return code
}

// verifInv is the inductive invariant of an initiator's channel in the normal flow.
// F: own transport finished was observed; R: an un-paused Complete was observed (sticky ghosts);
// L: completed through the local-only rule (AwaitingAcceptance + FinishTransfer).
func verifInv(s datatransfer.Status, F, R, L bool) bool {
	switch s {
	case datatransfer.TransferFinished, datatransfer.ResponderFinalizingTransferFinished:
		return F
	case datatransfer.ResponderCompleted:
		return R
	case datatransfer.Completing, datatransfer.Completed:
		return (F && R) || L
	case datatransfer.Finalizing, datatransfer.Failing, datatransfer.Failed, datatransfer.Cancelling, datatransfer.Cancelled:
		return false // not reachable for an initiator in the normal flow
	}
	return true
}

// VerifC03_InitiatorInvariant: one inductive step. From ANY record and ghost bits satisfying
// the invariant, any initiator-side normal-flow stimulus re-establishes it; in particular
// Completing/Completed (outside the local-only rule) implies both signals were seen.
func VerifC03_InitiatorInvariant() {
	f := verifFixtureWith(1, 0)
	F, R, L := zz.Bool("ghostF"), zz.Bool("ghostR"), zz.Bool("ghostL")
	pre := f.pre.Status
	zz.Assume(verifInv(pre, F, R, L))
	zz.Assume(!IsChannelTerminated(pre))
	code := verifInitiatorStimulus(f, "stim")
	if code == datatransfer.FinishTransfer {
		F = true
		if pre == datatransfer.AwaitingAcceptance {
			L = true
		}
	}
	if code == datatransfer.ResponderCompletes {
		R = true
	}
	post := f.g.VerifPeek(f.chid).Status
	zz.Assert(verifInv(post, F, R, L), "invariant re-established: success only with both signals")
	if post == datatransfer.Completed {
		zz.Reach("completed")
	}
	if post == datatransfer.TransferFinished {
		zz.Reach("waiting for responder")
	}
	if post == datatransfer.ResponderCompleted {
		zz.Reach("waiting for own transport")
	}
}

// VerifC03_IfDirection: the two signals in either order complete the channel; a paused
// Complete or bookkeeping in between does not; cleanup runs and the channel settles in Completed.
func VerifC03_IfDirection() {
	f := verifFixtureWith(1, 0)
	order := zz.Choice("order", 4)
	switch order {
	case 0: // finish then un-paused Complete
		zz.Assume(f.pre.Status == datatransfer.TransferFinished)
		zz.Assert(f.c.ResponderCompletes(f.chid) == nil, "event accepted")
	case 1: // un-paused Complete then finish
		zz.Assume(f.pre.Status == datatransfer.ResponderCompleted)
		zz.Assert(f.c.FinishTransfer(f.chid) == nil, "event accepted")
	case 2: // paused Complete, finish, then the final Complete
		zz.Assume(f.pre.Status == datatransfer.ResponderFinalizing)
		zz.Assert(f.c.FinishTransfer(f.chid) == nil, "event accepted")
		zz.Assert(f.g.VerifPeek(f.chid).Status == datatransfer.ResponderFinalizingTransferFinished, "paused Complete + finish does not complete")
		zz.Assert(f.c.ResponderCompletes(f.chid) == nil, "event accepted")
	case 3: // finish, paused Complete, then the final Complete
		zz.Assume(f.pre.Status == datatransfer.TransferFinished)
		zz.Assert(f.c.ResponderBeginsFinalization(f.chid) == nil, "event accepted")
		zz.Assert(f.g.VerifPeek(f.chid).Status == datatransfer.ResponderFinalizingTransferFinished, "finish + paused Complete does not complete")
		zz.Assert(f.c.ResponderCompletes(f.chid) == nil, "event accepted")
	}
	zz.Assert(f.g.VerifPeek(f.chid).Status == datatransfer.Completed, "both signals complete the channel")
	zz.Assert(len(f.env.Cleanups) == 1 && f.env.Cleanups[0] == f.chid, "cleanup ran once for this channel")
	zz.Reach("completed")
}

// VerifC03_LocalOnly: a pull satisfied locally before any acceptance completes without a responder.
func VerifC03_LocalOnly() {
	f := verifFixtureWith(1, 0)
	zz.Assume(f.pre.Status == datatransfer.AwaitingAcceptance)
	zz.Assert(f.c.FinishTransfer(f.chid) == nil, "event accepted")
	zz.Assert(f.g.VerifPeek(f.chid).Status == datatransfer.Completed, "AwaitingAcceptance + FinishTransfer completes")
	zz.Reach("completed locally")
}

// VerifC03_ResponderFinalizing (state-machine part): a responder in Finalizing reports itself
// paused; only ResumeResponder, Cancel and Error leave Finalizing among the events a responder
// fires; ResumeResponder completes it.
func VerifC03_ResponderFinalizing() {
	f := verifFixtureWith(1, zz.Choice("nR", 2))
	zz.Assume(f.pre.Status == datatransfer.Finalizing)
	cs := fromInternalChannelState(f.pre)
	zz.Assert(cs.ResponderPaused(), "a finalizing responder reports itself paused")
	k := zz.Choice("stim", 5)
	var code datatransfer.EventCode
	switch k {
	case 0:
		code = datatransfer.ResumeResponder
	case 1:
		code = datatransfer.Cancel
	case 2:
		code = datatransfer.Error
	case 3:
		code = datatransfer.BeginFinalizing
	default:
		code = datatransfer.EventCode(zz.Choice("bk", VerifNumEvents))
		zz.Assume(verifIsBookkeeping(code) && code != datatransfer.ResumeResponder)
	}
	_ = VerifSendArbitrary(f.g, f.chid, code, "ev")
	post := f.g.VerifPeek(f.chid).Status
	switch code {
	case datatransfer.ResumeResponder:
		zz.Assert(post == datatransfer.Completed, "release completes")
		zz.Reach("released")
	case datatransfer.Cancel:
		zz.Assert(post == datatransfer.Cancelled, "cancel")
	case datatransfer.Error:
		zz.Assert(post == datatransfer.Failed, "error")
	default:
		zz.Assert(post == datatransfer.Finalizing, "stays in Finalizing until released")
		zz.Reach("stays")
	}
}

// VerifC03_History5 (thorough): k = 5 initiator-side normal-flow stimuli from a freshly
// accepted channel, tracking the ghost bits along the real history: cross-check that the one-step
// invariant is not too weak (every reachable state satisfies it) and that Completed is reached
// exactly when both signals have been seen.
//
//verif:tier thorough
//verif:opts fuel=60 part0=8 part1=2
func VerifC03_History5() {
	f := verifFixtureWith(1, 0)
	zz.Assume(f.pre.Status == datatransfer.Ongoing)
	F, R, L := false, false, false
	for i := 0; i < 5; i++ {
		pre := f.g.VerifPeek(f.chid).Status
		if IsChannelTerminated(pre) {
			break
		}
		// the three completion signals plus one representative of the other classes
		codes := []datatransfer.EventCode{datatransfer.FinishTransfer, datatransfer.ResponderCompletes, datatransfer.ResponderBeginsFinalization,
			datatransfer.PauseResponder, datatransfer.Restart}
		code := codes[zz.Choice("stim", len(codes))]
		_ = VerifSendArbitrary(f.g, f.chid, code, "ev")
		if code == datatransfer.FinishTransfer {
			F = true
			if pre == datatransfer.AwaitingAcceptance {
				L = true
			}
		}
		if code == datatransfer.ResponderCompletes {
			R = true
		}
		post := f.g.VerifPeek(f.chid).Status
		zz.Assert(verifInv(post, F, R, L), "every reachable state satisfies the invariant")
		if post == datatransfer.Completed {
			zz.Assert(F && R && (code == datatransfer.FinishTransfer || code == datatransfer.ResponderCompletes), "Completed is reached only by one of the two signals once both were seen")
		}
	}
	if F && R {
		zz.Reach("both signals seen")
	}
}
