package internal

import (
	"io"

	"github.com/ipld/go-ipld-prime/datamodel"
	"github.com/ipld/go-ipld-prime/schema"

	zz "github.com/filecoin-project/go-data-transfer/v2/zzverif"
)

//verif:stub github.com/ipld/go-ipld-prime/codec/dagcbor.Encode verifDagcborEncode
//verif:native-rewrite-all channels/internal/internalchannel.go dagcbor.Encode( => verifEncodeSeam(dagcbor.Encode)(

// verifEncoded is the log of nodes handed to the DAG-CBOR encoder.
var verifEncoded []datamodel.Node

func verifDagcborEncode(n datamodel.Node, w io.Writer) error {
	verifEncoded = append(verifEncoded, n)
	if verifTapeOn {
		verifTapeNode(n)
	}
	return nil
}

// verifCaptureEncode switches the native seam to the recording encoder (only inside
// VerifC06_NodePersistedAsRepresentation; every other native run keeps the real encoder).
var verifCaptureEncode bool

func verifEncodeSeam(real func(datamodel.Node, io.Writer) error) func(datamodel.Node, io.Writer) error {
	if verifCaptureEncode {
		return verifDagcborEncode
	}
	return real
}

// verifTyped is a schema-typed node whose representation is a different node (tuple / renamed
// fields / unions have a representation that differs from the type-level view).
type verifTyped struct {
	datamodel.Node
	repr datamodel.Node
}

func (t verifTyped) Type() schema.Type              { return nil }
func (t verifTyped) Representation() datamodel.Node { return t.repr }

// VerifC06_NodePersistedAsRepresentation: the persisted form of a voucher / voucher result /
// selector (CborGenCompatibleNode.MarshalCBOR) is the DAG-CBOR encoding of the node's
// REPRESENTATION for schema-typed nodes, of the node itself for plain nodes, and of Null for an
// absent node (so that what is reloaded equals, as DAG-CBOR data, what was recorded).
// Decided up to the encoder call: the bytes themselves are go-ipld-prime's.
func VerifC06_NodePersistedAsRepresentation() {
	verifCaptureEncode = true
	defer func() { verifCaptureEncode = false }()
	verifEncoded = nil
	plain := zz.Node("plain")
	repr := zz.Node("repr")
	var n CborGenCompatibleNode
	kind := zz.Choice("kind", 3)
	switch kind {
	case 0:
		n.Node = plain
	case 1:
		n.Node = verifTyped{Node: plain, repr: repr}
	case 2:
		// absent
	}
	err := n.MarshalCBOR(nil)
	zz.Assert(err == nil && len(verifEncoded) == 1, "exactly one node is encoded")
	switch kind {
	case 0:
		zz.Assert(verifEncoded[0] == plain, "a plain node is stored as it is")
		zz.Reach("plain")
	case 1:
		zz.Assert(verifEncoded[0] == repr, "a schema-typed node is stored in its representation form")
		zz.Reach("typed")
	case 2:
		zz.Assert(verifEncoded[0] == datamodel.Null, "an absent node is stored as Null")
		zz.Reach("absent")
	}
	var np *CborGenCompatibleNode
	verifEncoded = nil
	zz.Assert(np.MarshalCBOR(nil) == nil && len(verifEncoded) == 1 && verifEncoded[0] == datamodel.Null, "a nil holder is stored as Null")
}
