package migrations

// C13 — "Stored channels survive schema migration unchanged" (record-transformation part).
//
// DECIDED here: for EVERY version-2 record (all scalar fields arbitrary, any status number, any
// selector, 0..2 vouchers and voucher results, Stages nil or present) MigrateChannelState2To3
// succeeds and yields a version-3 record in which every field equals the stored one, except that
// the three deprecated paused statuses become Ongoing with the matching pause flags; every other
// status is kept with both flags clear. NoOpChannelState0To2 hands its argument back untouched.
//
// The result is an ordinary *internal.ChannelState; the channel state machine is verified for
// arbitrary such records (harness/channels: VerifArbitraryRecord in C03/C19 …), hence "migrated
// channels accept further events and persist like native ones" needs no separate harness
// (no VerifC13_MigratedBehavesNative): nothing in the record remembers that it was migrated.
// ChannelStages methods are nil-receiver safe, so Stages == nil (records written before stages
// existed) is an ordinary value as well (channelState.Stages() substitutes an empty object).
//
// OUTSIDE the claim: the cbor-gen (de)serialisers and go-ds-versioning's migration driver
// (which applies these two functions to every stored key; reflection + datastore I/O).
//
// Structural guard: verifShapeGuard asserts the exact field list of the version-2 record.

import (
	peer "github.com/libp2p/go-libp2p/core/peer"

	versioning "github.com/filecoin-project/go-ds-versioning/pkg"
	"github.com/filecoin-project/go-ds-versioning/pkg/versioned"

	datatransfer "github.com/filecoin-project/go-data-transfer/v2"
	"github.com/filecoin-project/go-data-transfer/v2/channels/internal"
	zz "github.com/filecoin-project/go-data-transfer/v2/zzverif"
)

const verifFieldsV2 = "SelfPeer,TransferID,Initiator,Responder,BaseCid,Selector,Sender,Recipient,TotalSize,Status,Queued,Sent,Received,Message,Vouchers,VoucherResults,ReceivedBlocksTotal,QueuedBlocksTotal,SentBlocksTotal,DataLimit,RequiresFinalization,Stages"

// verifShapeGuard: the field-by-field comparison in this file enumerates the fields of the
// version-2 record (the SOURCE of the migration, a frozen on-disk format). If that list changes,
// stored data would be read differently and the comparison below would silently skip a field:
// reported as a violation of C13 (a check result, not a load error that would take every other
// property's check down with it). Fields ADDED to the version-3 record have no source and are
// legitimately left at their zero value; they are not this guard's business (their persistence
// is C06's round trip).
func verifShapeGuard() {
	zz.Assert(zz.FieldNames(ChannelStateV2{}) == verifFieldsV2, "version-2 record has exactly the fields the migration reads")
}

// verifArbitraryV2 builds an arbitrary version-2 record.
func verifArbitraryV2(label string) *ChannelStateV2 {
	old := &ChannelStateV2{}
	zz.Symbolic(old, label) // every scalar, string and the base CID
	if zz.Bool(label + ".hasSelector") {
		old.Selector = internal.CborGenCompatibleNode{Node: zz.Node(label + ".Selector")}
	}
	nV := zz.Choice(label+".nVouchers", 3)
	for i := 0; i < nV; i++ {
		old.Vouchers = append(old.Vouchers, internal.EncodedVoucher{
			Type:    datatransfer.TypeIdentifier(zz.String(label + ".Vouchers.Type")),
			Voucher: internal.CborGenCompatibleNode{Node: zz.Node(label + ".Vouchers.Voucher")},
		})
	}
	nR := zz.Choice(label+".nVoucherResults", 3)
	for i := 0; i < nR; i++ {
		old.VoucherResults = append(old.VoucherResults, internal.EncodedVoucherResult{
			Type:          datatransfer.TypeIdentifier(zz.String(label + ".VoucherResults.Type")),
			VoucherResult: internal.CborGenCompatibleNode{Node: zz.Node(label + ".VoucherResults.VoucherResult")},
		})
	}
	if zz.Bool(label + ".hasStages") {
		old.Stages = &datatransfer.ChannelStages{}
		// the execution trace: 0..2 stages with arbitrary names (a stage may well be named after
		// the record's status, deprecated or not) and one log line each
		for i, n := 0, zz.Choice(label+".nStages", 3); i < n; i++ {
			old.Stages.Stages = append(old.Stages.Stages, &datatransfer.ChannelStage{
				Name:        zz.String(label + ".stage.Name"),
				Description: zz.String(label + ".stage.Description"),
				Logs:        []*datatransfer.Log{{Log: zz.String(label + ".stage.Log")}},
			})
		}
	}
	return old
}

func verifCopyV2(o *ChannelStateV2) ChannelStateV2 {
	c := *o
	c.Vouchers = append([]internal.EncodedVoucher(nil), o.Vouchers...)
	c.VoucherResults = append([]internal.EncodedVoucherResult(nil), o.VoucherResults...)
	return c
}

// VerifC13_Migrate2To3: one arbitrary stored record through the 2 -> 3 migration.
func VerifC13_Migrate2To3() {
	verifShapeGuard()
	verifCheckMigration(MigrateChannelState2To3)
}

// verifCheckMigration checks a 2->3 migration function on an arbitrary version-2 record.
func verifCheckMigration(migrate func(*ChannelStateV2) (*internal.ChannelState, error)) {
	old := verifArbitraryV2("old")
	src := verifCopyV2(old) // the stored value, to detect a migration that edits its input
	// the trace is shared by pointer: snapshot what it says
	var stageNames, stageDescs, stageLogs []string
	if old.Stages != nil {
		for _, st := range old.Stages.Stages {
			stageNames, stageDescs, stageLogs = append(stageNames, st.Name), append(stageDescs, st.Description), append(stageLogs, st.Logs[0].Log)
		}
	}

	got, err := migrate(old)
	zz.Assert(err == nil, "migration of a stored record never fails")
	zz.Assert(got != nil, "migration yields a record")

	// --- identity
	zz.Assert(got.SelfPeer == src.SelfPeer, "SelfPeer preserved")
	zz.Assert(got.TransferID == src.TransferID, "TransferID preserved")
	zz.Assert(got.Initiator == src.Initiator, "Initiator preserved")
	zz.Assert(got.Responder == src.Responder, "Responder preserved")
	zz.Assert(got.BaseCid == src.BaseCid, "BaseCid preserved")
	zz.Assert(got.Selector.Node == src.Selector.Node, "Selector preserved")
	zz.Assert(got.Sender == src.Sender, "Sender preserved")
	zz.Assert(got.Recipient == src.Recipient, "Recipient preserved")
	// --- totals and block indexes
	zz.Assert(got.TotalSize == src.TotalSize, "TotalSize preserved")
	zz.Assert(got.Queued == src.Queued, "Queued preserved")
	zz.Assert(got.Sent == src.Sent, "Sent preserved")
	zz.Assert(got.Received == src.Received, "Received preserved")
	zz.Assert(got.ReceivedBlocksTotal == src.ReceivedBlocksTotal, "ReceivedBlocksTotal preserved")
	zz.Assert(got.QueuedBlocksTotal == src.QueuedBlocksTotal, "QueuedBlocksTotal preserved")
	zz.Assert(got.SentBlocksTotal == src.SentBlocksTotal, "SentBlocksTotal preserved")
	// --- message, limit, finalization flag, stages
	zz.Assert(got.Message == src.Message, "Message preserved")
	zz.Assert(got.DataLimit == src.DataLimit, "DataLimit preserved")
	zz.Assert(got.RequiresFinalization == src.RequiresFinalization, "RequiresFinalization preserved")
	zz.Assert(got.Stages == src.Stages, "Stages preserved (same object, nil stays nil)")
	if got.Stages != nil {
		zz.Assert(len(got.Stages.Stages) == len(stageNames), "number of stages preserved")
		for i, st := range got.Stages.Stages {
			zz.Assert(st != nil && st.Name == stageNames[i] && st.Description == stageDescs[i] && len(st.Logs) == 1 && st.Logs[0].Log == stageLogs[i],
				"every stage of the trace keeps its name, description and log")
		}
		if len(stageNames) == 2 {
			zz.Reach("trace with two stages")
		}
	}
	// --- vouchers and results, element-wise
	zz.Assert(len(got.Vouchers) == len(src.Vouchers), "number of vouchers preserved")
	for i := range src.Vouchers {
		zz.Assert(got.Vouchers[i].Type == src.Vouchers[i].Type && got.Vouchers[i].Voucher.Node == src.Vouchers[i].Voucher.Node, "voucher preserved")
	}
	zz.Assert(len(got.VoucherResults) == len(src.VoucherResults), "number of voucher results preserved")
	for i := range src.VoucherResults {
		zz.Assert(got.VoucherResults[i].Type == src.VoucherResults[i].Type && got.VoucherResults[i].VoucherResult.Node == src.VoucherResults[i].VoucherResult.Node, "voucher result preserved")
	}
	// --- status and pause flags (the only fields that are translated)
	s := src.Status
	wasInitiatorPaused := s == datatransfer.InitiatorPaused || s == datatransfer.BothPaused
	wasResponderPaused := s == datatransfer.ResponderPaused || s == datatransfer.BothPaused
	deprecated := s == datatransfer.InitiatorPaused || s == datatransfer.ResponderPaused || s == datatransfer.BothPaused
	zz.Assert(got.InitiatorPaused == wasInitiatorPaused, "initiator pause flag set exactly for InitiatorPaused and BothPaused")
	zz.Assert(got.ResponderPaused == wasResponderPaused, "responder pause flag set exactly for ResponderPaused and BothPaused")
	zz.Assert(deprecated || got.Status == s, "every other status is kept")
	zz.Assert(!deprecated || got.Status == datatransfer.Ongoing, "deprecated paused statuses become Ongoing")
	zz.Assert(got.Status != datatransfer.InitiatorPaused && got.Status != datatransfer.ResponderPaused && got.Status != datatransfer.BothPaused,
		"no migrated record keeps a deprecated status")
	zz.Assert(datatransfer.InitiatorPaused == 11 && datatransfer.ResponderPaused == 12 && datatransfer.BothPaused == 13 && datatransfer.Ongoing == 1,
		"stored status numbers of the deprecated statuses")

	// --- the stored record itself is not edited
	zz.Assert(old.Status == src.Status && old.Stages == src.Stages && len(old.Vouchers) == len(src.Vouchers) && len(old.VoucherResults) == len(src.VoucherResults),
		"the source record is left alone")

	// --- witnesses
	switch s {
	case datatransfer.InitiatorPaused:
		zz.Reach("InitiatorPaused -> Ongoing + initiator flag")
	case datatransfer.ResponderPaused:
		zz.Reach("ResponderPaused -> Ongoing + responder flag")
	case datatransfer.BothPaused:
		zz.Reach("BothPaused -> Ongoing + both flags")
	case datatransfer.Ongoing:
		zz.Reach("Ongoing stays Ongoing, un-paused")
	case datatransfer.Completed:
		zz.Reach("terminal status kept")
	default:
		zz.Reach("other status kept")
	}
	if src.Stages == nil {
		zz.Reach("record without stages")
	} else {
		zz.Reach("record with stages")
	}
	if len(src.Vouchers) == 2 && len(src.VoucherResults) == 2 {
		zz.Reach("two vouchers and two results")
	}
	if len(src.Vouchers) == 0 && len(src.VoucherResults) == 0 {
		zz.Reach("no vouchers")
	}
}

// verifSameV2 compares every field of two version-2 records (logs element-wise).
func verifSameV2(a, b *ChannelStateV2) bool {
	if len(a.Vouchers) != len(b.Vouchers) || len(a.VoucherResults) != len(b.VoucherResults) {
		return false
	}
	for i := range a.Vouchers {
		if a.Vouchers[i] != b.Vouchers[i] {
			return false
		}
	}
	for i := range a.VoucherResults {
		if a.VoucherResults[i] != b.VoucherResults[i] {
			return false
		}
	}
	return a.SelfPeer == b.SelfPeer && a.TransferID == b.TransferID && a.Initiator == b.Initiator && a.Responder == b.Responder &&
		a.BaseCid == b.BaseCid && a.Selector == b.Selector && a.Sender == b.Sender && a.Recipient == b.Recipient &&
		a.TotalSize == b.TotalSize && a.Status == b.Status && a.Queued == b.Queued && a.Sent == b.Sent && a.Received == b.Received &&
		a.Message == b.Message && a.ReceivedBlocksTotal == b.ReceivedBlocksTotal && a.QueuedBlocksTotal == b.QueuedBlocksTotal &&
		a.SentBlocksTotal == b.SentBlocksTotal && a.DataLimit == b.DataLimit && a.RequiresFinalization == b.RequiresFinalization &&
		a.Stages == b.Stages
}

// VerifC13_NoOp0To2: the 0 -> 2 step is the identity (same object, no error).
func VerifC13_NoOp0To2() {
	var old *ChannelStateV2
	if zz.Bool("hasRecord") {
		old = verifArbitraryV2("old")
	}
	var src ChannelStateV2
	if old != nil {
		src = verifCopyV2(old)
	}
	got, err := NoOpChannelState0To2(old)
	zz.Assert(err == nil && got == old, "the 0 -> 2 step returns its argument")
	if old != nil {
		zz.Assert(verifSameV2(got, &src), "the record is handed on unchanged")
		zz.Reach("record passed through")
	} else {
		zz.Reach("nil passed through")
	}
}

//verif:stub github.com/filecoin-project/go-ds-versioning/pkg/versioned.NewVersionedBuilder verifNewVersionedBuilder
//verif:native-rewrite-all channels/internal/migrations/migrations.go versioned.NewVersionedBuilder( => verifVBSeam(versioned.NewVersionedBuilder)(

// verifBuilder records what GetChannelStateMigrations registers (go-ds-versioning's builder wraps
// the function in reflection; the contract used here: Build() keeps (function, old, new) as given).
type verifBuilder struct {
	up       versioning.MigrationFunc
	newV     versioning.VersionKey
	oldV     versioning.VersionKey
	filtered bool
}

var verifRegistered []*verifBuilder

func verifNewVersionedBuilder(up versioning.MigrationFunc, newVersion versioning.VersionKey) versioned.Builder {
	b := &verifBuilder{up: up, newV: newVersion}
	verifRegistered = append(verifRegistered, b)
	return b
}

// verifCaptureBuilders switches the native seam to the recording builder (only inside
// VerifC13_RegisteredMigration; every other native run keeps go-ds-versioning's real builder).
var verifCaptureBuilders bool

func verifVBSeam(real func(versioning.MigrationFunc, versioning.VersionKey) versioned.Builder) func(versioning.MigrationFunc, versioning.VersionKey) versioned.Builder {
	if verifCaptureBuilders {
		return verifNewVersionedBuilder
	}
	return real
}

func (b *verifBuilder) Reversible(down versioning.MigrationFunc) versioned.Builder { return b }
func (b *verifBuilder) FilterKeys(k []string) versioned.Builder                    { b.filtered = true; return b }
func (b *verifBuilder) Only(k []string) versioned.Builder                          { b.filtered = true; return b }
func (b *verifBuilder) OldVersion(o versioning.VersionKey) versioned.Builder       { b.oldV = o; return b }
func (b *verifBuilder) Build() (versioning.VersionedMigration, error)              { return nil, nil }

// VerifC13_RegisteredMigration: the migration list that channels.New hands to the versioned store
// (GetChannelStateMigrations, for an arbitrary local peer ID) registers, for the step to schema
// version "3" from "2", a function that preserves every field of every version-2 record exactly
// like MigrateChannelState2To3 (in particular it does not depend on the local peer), applies to
// every record (no key filter), and the initial step to "2" is the identity.
func VerifC13_RegisteredMigration() {
	verifRegistered = nil
	self := peer.ID(zz.String("localPeer"))
	verifCaptureBuilders = true
	_, err := GetChannelStateMigrations(self)
	verifCaptureBuilders = false
	zz.Assert(err == nil, "the migration list builds")
	zz.Assert(len(verifRegistered) == 2, "two steps are registered")
	to2, to3 := verifRegistered[0], verifRegistered[1]
	zz.Assert(to2.newV == "2" && to2.oldV == "" && to3.newV == "3" && to3.oldV == "2", "version keys: (initial)->2, 2->3")
	zz.Assert(!to2.filtered && !to3.filtered, "the migrations apply to every record")
	f3, ok := to3.up.(func(*ChannelStateV2) (*internal.ChannelState, error))
	zz.Assert(ok, "the 2->3 step takes a version-2 record and yields a current record")
	verifCheckMigration(f3)
	f2, ok := to2.up.(func(*ChannelStateV2) (*ChannelStateV2, error))
	zz.Assert(ok, "the initial step yields a version-2 record")
	in := verifArbitraryV2("v0")
	cp := verifCopyV2(in)
	out, err := f2(in)
	zz.Assert(err == nil && out != nil && verifSameV2(out, &cp), "the initial step is the identity")
	zz.Reach("registered migrations checked")
}
