package channels

// verifGroup: a reflection-free model of the state-machine group that
// channels.Channels talks to (go-statemachine/fsm.Group behind
// go-ds-versioning's migrated wrapper). It is created by the REAL channels.New
// through the seam below, so Events, StateEntryFuncs, Notifier, FinalityStates
// and Environment are exactly what the repository wires up; the transition table
// is read from the real builder values (fsm.eventBuilder) on every run.
//
// Semantics follow go-statemachine v1.0.2 (fsm.go Plan / eventprocessor.go Apply):
//   - Send on an unknown id fails (the zero state cannot be encoded: undefined CID);
//   - events for a state in FinalityStates are dropped; Send returns nil or
//     statemachine.ErrTerminated (both happen for real, depending on whether the
//     machine's goroutine has exited yet);
//   - argument count/type mismatches are reported by Send;
//   - an event without a transition from the current state is logged and dropped;
//   - an action that returns an error aborts the event (no status change, no notification, no
//     entry function) but what it already wrote to the state IS persisted (the planner swallows
//     the error);
//   - the action runs, then the state key is set unless the destination is
//     nil (ToNoChange) or recordEvent (ToJustRecord);
//   - the notifier is called with a copy of the new state;
//   - unless the event was just recorded or the state is final, the entry function
//     of the (possibly unchanged) state runs; its Trigger is applied immediately.
//
// Abstractions (stated in the evidence): persistence, the asynchronous event and
// notification queues (events are applied synchronously, in call order).

import (
	"context"
	"errors"

	cbg "github.com/whyrusleeping/cbor-gen"

	versioning "github.com/filecoin-project/go-ds-versioning/pkg"
	"github.com/filecoin-project/go-statemachine"
	"github.com/filecoin-project/go-statemachine/fsm"
	"github.com/ipfs/go-datastore"

	datatransfer "github.com/filecoin-project/go-data-transfer/v2"
	"github.com/filecoin-project/go-data-transfer/v2/channels/internal"
	zz "github.com/filecoin-project/go-data-transfer/v2/zzverif"
)

//verif:stub github.com/filecoin-project/go-ds-versioning/pkg/fsm.NewVersionedFSM verifNewVersionedFSM
//verif:native-rewrite channels/channels.go versionedfsm.NewVersionedFSM( => verifFSM(versionedfsm.NewVersionedFSM)(
//verif:stub (*github.com/filecoin-project/go-data-transfer/v2/channels/internal.ChannelState).AddLog verifAddLog

type newFSMFunc func(datastore.Batching, fsm.Parameters, versioning.VersionedMigrationList, versioning.VersionKey) (fsm.Group, func(context.Context) error, error)

// verifFSM is the native seam: channels.New calls verifFSM(real)(...) in replay builds.
func verifFSM(real newFSMFunc) newFSMFunc {
	if verifUseRealFSM {
		return real // only the model-validation driver (modelcheck.go) asks for the real group
	}
	return verifNewVersionedFSM
}

// verifAddLog replaces the observability log (time stamps, formatting) in the engine.
func verifAddLog(cs *internal.ChannelState, msg string, a ...interface{}) {}

type verifEvent struct {
	name        fsm.EventName
	action      fsm.ActionFunc
	transitions map[fsm.StateKey]fsm.StateKey
}

type verifEntry struct {
	id interface{}
	st *internal.ChannelState
	// QueueWhileBusy mode: the machine's FIFO of events not yet handled
	busy    bool
	pending []verifPending
}

type verifPending struct {
	ev   *verifEvent
	args []interface{}
}

// VerifGroup is exported so that harnesses in other packages can install pre-states.
type VerifGroup struct {
	params     fsm.Parameters
	events     []verifEvent
	entries    []*verifEntry
	ready      bool
	stopped    bool
	termSeen   bool
	termAsked  bool
	migrateErr error
	// ghost log of what the group was asked to do
	GetSyncCalls int
	GetCalls     int
	SendLog      []datatransfer.EventCode
	Applied      int
	// CleanupEntries counts applied transitions whose destination is Cancelling, Failing or Completing
	CleanupEntries int
	// DeferNotify: announcements are queued instead of being made inside Send (see apply)
	DeferNotify bool
	deferred    []func()
	// QueueWhileBusy: go-statemachine handles ONE event per step (fsm.go Plan: events[0]) and, while
	// the entry function of the state runs (machine.go run: busy == 1), collects whatever is sent to
	// the machine - the entry function's own Trigger included - in a FIFO that is handled, one event
	// at a time, once the entry function has returned. In this mode the model does the same, so an
	// event sent from inside an entry function (by the harness, through a hook of the environment
	// double: "an event arrives while the cleanup is running") is handled BEFORE the CleanupComplete
	// the entry function triggers at its end.
	QueueWhileBusy bool
}

// VerifLastGroup is the group created by the most recent channels.New.
var VerifLastGroup *VerifGroup

// VerifMigrateErr, when non-nil, is returned by the next group's migration function.
var VerifMigrateErr error

// what go-ds-versioning answers until the migrations have run (pkg/types.go)
var errVerifNotReady error = versioning.ErrMigrationsNotRun

func verifNewVersionedFSM(ds datastore.Batching, parameters fsm.Parameters, migrations versioning.VersionedMigrationList, target versioning.VersionKey) (fsm.Group, func(context.Context) error, error) {
	g := &VerifGroup{params: parameters, migrateErr: VerifMigrateErr}
	for _, eb := range parameters.Events {
		if zz.TypeName(eb) != "fsm.eventBuilder" {
			return nil, nil, errors.New("verif: event list contains an error builder")
		}
		ev := verifEvent{
			name:   zz.Unexported(eb, "name"),
			action: zz.Unexported(eb, "action"),
		}
		ev.transitions = zz.Unexported(eb, "transitionsSoFar").(map[fsm.StateKey]fsm.StateKey)
		g.events = append(g.events, ev)
	}
	VerifLastGroup = g
	migrate := func(ctx context.Context) error {
		if g.migrateErr != nil {
			return g.migrateErr
		}
		g.ready = true
		return nil
	}
	return g, migrate, nil
}

func cloneState(s *internal.ChannelState) *internal.ChannelState {
	c := *s
	if s.Vouchers != nil {
		c.Vouchers = append([]internal.EncodedVoucher{}, s.Vouchers...)
	}
	if s.VoucherResults != nil {
		c.VoucherResults = append([]internal.EncodedVoucherResult{}, s.VoucherResults...)
	}
	return &c
}

func (g *VerifGroup) find(id interface{}) *verifEntry {
	for _, e := range g.entries {
		if e.id == id {
			return e
		}
	}
	return nil
}

// VerifInstall stores st under id without any event (an arbitrary pre-state).
func (g *VerifGroup) VerifInstall(id datatransfer.ChannelID, st *internal.ChannelState) {
	g.entries = append(g.entries, &verifEntry{id: id, st: cloneState(st)})
}

// VerifPeek returns the stored record (not a copy) or nil.
func (g *VerifGroup) VerifPeek(id datatransfer.ChannelID) *internal.ChannelState {
	if e := g.find(id); e != nil {
		return e.st
	}
	return nil
}

func (g *VerifGroup) VerifLen() int { return len(g.entries) }

func (g *VerifGroup) VerifSetReady(r bool) { g.ready = r }

// VerifTerminatedSeen reports whether Sends to terminated machines return ErrTerminated on this run
// (the machine's goroutine has exited) rather than nil (event queued and dropped).
func (g *VerifGroup) VerifTerminatedSeen() bool { return g.termAsked && g.termSeen }

func (g *VerifGroup) Begin(id interface{}, userState interface{}) error {
	if !g.ready {
		return errVerifNotReady
	}
	if g.find(id) != nil {
		return errors.New("Begin: already tracking identifier")
	}
	st, ok := userState.(*internal.ChannelState)
	if !ok {
		return errors.New("loadOrCreate state: initialized item with incorrect type")
	}
	g.entries = append(g.entries, &verifEntry{id: id, st: cloneState(st)})
	return nil
}

func (g *VerifGroup) isFinal(s datatransfer.Status) bool {
	for _, f := range g.params.FinalityStates {
		if f == fsm.StateKey(s) {
			return true
		}
	}
	return false
}

func (g *VerifGroup) lookupEvent(name fsm.EventName) *verifEvent {
	for i := range g.events {
		if g.events[i].name == name {
			return &g.events[i]
		}
	}
	return nil
}

// applyAction runs the action closure with the dynamically typed arguments.
// ok=false means the arguments do not fit (reported by Send, like fsm's Generate).
func applyAction(action fsm.ActionFunc, st *internal.ChannelState, args []interface{}, dry bool) (ok bool, err error) {
	switch f := action.(type) {
	case nil:
		return len(args) == 0, nil
	case func(*internal.ChannelState) error:
		if len(args) != 0 {
			return false, nil
		}
		if dry {
			return true, nil
		}
		return true, f(st)
	case func(*internal.ChannelState, int64) error:
		if len(args) != 1 {
			return false, nil
		}
		a, isT := args[0].(int64)
		if !isT {
			return false, nil
		}
		if dry {
			return true, nil
		}
		return true, f(st, a)
	case func(*internal.ChannelState, uint64) error:
		if len(args) != 1 {
			return false, nil
		}
		a, isT := args[0].(uint64)
		if !isT {
			return false, nil
		}
		if dry {
			return true, nil
		}
		return true, f(st, a)
	case func(*internal.ChannelState, bool) error:
		if len(args) != 1 {
			return false, nil
		}
		a, isT := args[0].(bool)
		if !isT {
			return false, nil
		}
		if dry {
			return true, nil
		}
		return true, f(st, a)
	case func(*internal.ChannelState, error) error:
		if len(args) != 1 {
			return false, nil
		}
		a, isT := args[0].(error)
		if !isT {
			return false, nil
		}
		if dry {
			return true, nil
		}
		return true, f(st, a)
	case func(*internal.ChannelState, datatransfer.TypedVoucher) error:
		if len(args) != 1 {
			return false, nil
		}
		a, isT := args[0].(datatransfer.TypedVoucher)
		if !isT {
			return false, nil
		}
		if dry {
			return true, nil
		}
		return true, f(st, a)
	}
	panic("verifGroup: action signature not modelled: " + zz.TypeName(action))
}

func (g *VerifGroup) Send(id interface{}, name fsm.EventName, args ...interface{}) error {
	if !g.ready {
		return errVerifNotReady
	}
	if code, ok := name.(datatransfer.EventCode); ok {
		g.SendLog = append(g.SendLog, code)
	}
	ev := g.lookupEvent(name)
	if ev == nil {
		return errors.New("Unknown event")
	}
	if ok, _ := applyAction(ev.action, nil, args, true); !ok {
		return errors.New("Wrong number or type of arguments for event")
	}
	e := g.find(id)
	if e == nil {
		return errors.New("loadOrCreate state: cannot encode zero state")
	}
	if g.stopped {
		return statemachine.ErrTerminated
	}
	if g.isFinal(e.st.Status) {
		// dropped; the real machine returns nil while its goroutine still runs, ErrTerminated afterwards
		// (one choice per run: the goroutine has or has not exited yet)
		if !g.termAsked {
			g.termAsked = true
			g.termSeen = zz.Bool("fsm.terminatedSeen")
		}
		if g.termSeen {
			return statemachine.ErrTerminated
		}
		return nil
	}
	if g.QueueWhileBusy {
		e.pending = append(e.pending, verifPending{ev, args})
		g.drain(e)
		return nil
	}
	g.apply(e, ev, args)
	return nil
}

// drain handles the machine's pending events one at a time, in order (QueueWhileBusy mode); a call
// made while an entry function is running returns at once (the machine is busy).
func (g *VerifGroup) drain(e *verifEntry) {
	if e.busy {
		return
	}
	e.busy = true
	for len(e.pending) > 0 {
		p := e.pending[0]
		e.pending = e.pending[1:]
		if g.isFinal(e.st.Status) {
			e.pending = nil // Plan: ClearEvents(ErrTerminated)
			break
		}
		g.apply(e, p.ev, p.args)
	}
	e.busy = false
}

func (g *VerifGroup) apply(e *verifEntry, ev *verifEvent, args []interface{}) {
	dest, ok := ev.transitions[fsm.StateKey(e.st.Status)]
	if !ok {
		dest, ok = ev.transitions[nil]
	}
	if !ok {
		return // "Invalid transition in queue": logged and dropped
	}
	work := cloneState(e.st)
	if _, err := applyAction(ev.action, work, args, false); err != nil {
		// go-statemachine: Apply reports the action's error, Plan logs it and returns a nil error to
		// the state store's Mutate, which therefore PERSISTS whatever the action already changed;
		// the status is not set, nothing is announced and no entry function runs.
		e.st = work
		return
	}
	skipHandler := zz.TypeName(dest) == "fsm.recordEvent"
	if !skipHandler && dest != nil {
		work.Status = dest.(datatransfer.Status)
		if IsChannelCleaningUp(work.Status) {
			g.CleanupEntries++ // ghost: the channel ENTERS Cancelling / Failing / Completing
		}
	}
	e.st = work
	g.Applied++
	if g.params.Notifier != nil {
		if g.DeferNotify {
			// go-statemachine announces an event from the state machine's own goroutine, i.e. possibly
			// AFTER the call that sent the event has returned to its caller; in this mode the
			// announcements are queued (in order) and delivered when the harness says so
			snap := *cloneState(work)
			name := ev.name
			g.deferred = append(g.deferred, func() { g.params.Notifier(name, snap) })
		} else {
			g.params.Notifier(ev.name, *cloneState(work))
		}
	}
	if g.isFinal(work.Status) {
		return
	}
	if skipHandler {
		return
	}
	entry, has := g.params.StateEntryFuncs[fsm.StateKey(work.Status)]
	if !has || entry == nil {
		return
	}
	f, isF := entry.(func(fsm.Context, ChannelEnvironment, internal.ChannelState) error)
	if !isF {
		panic("verifGroup: state entry function signature not modelled")
	}
	env, _ := g.params.Environment.(ChannelEnvironment)
	_ = f(verifCtx{g: g, e: e}, env, *cloneState(work))
}

type verifCtx struct {
	g *VerifGroup
	e *verifEntry
}

func (c verifCtx) Context() context.Context { return context.TODO() }

func (c verifCtx) Trigger(event fsm.EventName, args ...interface{}) error {
	ev := c.g.lookupEvent(event)
	if ev == nil {
		return errors.New("Unknown event")
	}
	if ok, _ := applyAction(ev.action, nil, args, true); !ok {
		return errors.New("Wrong number or type of arguments for event")
	}
	if c.g.QueueWhileBusy {
		c.e.pending = append(c.e.pending, verifPending{ev, args})
		c.g.drain(c.e)
		return nil
	}
	if c.g.isFinal(c.e.st.Status) {
		return nil
	}
	c.g.apply(c.e, ev, args)
	return nil
}

func (g *VerifGroup) SendSync(ctx context.Context, id interface{}, name fsm.EventName, args ...interface{}) error {
	return g.Send(id, name, args...)
}

type verifStored struct {
	st  *internal.ChannelState
	err error
}

func (s verifStored) End() error { return s.err }
func (s verifStored) Get(out cbg.CBORUnmarshaler) error {
	if s.err != nil {
		return s.err
	}
	o, ok := out.(*internal.ChannelState)
	if !ok {
		return errors.New("verif: unexpected output type")
	}
	*o = *cloneState(s.st)
	return nil
}
func (s verifStored) Mutate(mutator interface{}) error {
	return errors.New("verif: Mutate not modelled")
}

func (g *VerifGroup) Get(id interface{}) fsm.StoredState {
	g.GetCalls++
	if !g.ready {
		return verifStored{err: errVerifNotReady}
	}
	e := g.find(id)
	if e == nil {
		return verifStored{err: errors.New("state not found")}
	}
	return verifStored{st: e.st}
}

func (g *VerifGroup) GetSync(ctx context.Context, id interface{}, value cbg.CBORUnmarshaler) error {
	g.GetSyncCalls++
	if !g.ready {
		return errVerifNotReady
	}
	e := g.find(id)
	if e == nil {
		return errors.New("state not found")
	}
	return verifStored{st: e.st}.Get(value)
}

func (g *VerifGroup) Has(id interface{}) (bool, error) {
	if !g.ready {
		return false, errVerifNotReady
	}
	return g.find(id) != nil, nil
}

func (g *VerifGroup) List(out interface{}) error {
	if !g.ready {
		return errVerifNotReady
	}
	o, ok := out.(*[]internal.ChannelState)
	if !ok {
		return errors.New("verif: unexpected list type")
	}
	for _, e := range g.entries {
		*o = append(*o, *cloneState(e.st))
	}
	return nil
}

func (g *VerifGroup) IsTerminated(out fsm.StateType) bool {
	st, ok := out.(internal.ChannelState)
	return ok && g.isFinal(st.Status)
}

func (g *VerifGroup) Stop(ctx context.Context) error {
	if !g.ready {
		return errVerifNotReady
	}
	g.stopped = true
	return nil
}

// VerifNewChannels builds a Channels through the real constructor and marks the group ready.
func VerifNewChannels(notifier Notifier, env ChannelEnvironment, self string) (*Channels, *VerifGroup) {
	c, err := New(nil, notifier, env, peerID(self))
	if err != nil {
		panic(err)
	}
	g := VerifLastGroup
	if err := c.Start(context.Background()); err != nil {
		panic(err)
	}
	return c, g
}

// VerifDeliverDeferred delivers the queued announcements, in the order the events were applied
// (announcements queued while delivering are delivered too).
func (g *VerifGroup) VerifDeliverDeferred() {
	for len(g.deferred) > 0 {
		f := g.deferred[0]
		g.deferred = g.deferred[1:]
		f()
	}
}
