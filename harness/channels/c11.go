package channels

import (
	datatransfer "github.com/filecoin-project/go-data-transfer/v2"
	zz "github.com/filecoin-project/go-data-transfer/v2/zzverif"
)

// VerifC11_FlagIndependence: from an arbitrary record, one pause/resume action of one party.
// Either the action is ignored (the record is untouched: statuses where it is meaningless) or
// exactly that party's flag takes the requested value; the other party's flag never changes, and
// the lifecycle status is unaffected (except the documented release of a finalizing responder).
func VerifC11_FlagIndependence() {
	f := verifFixtureWith(1, 0)
	pre := &f.pre
	var code datatransfer.EventCode
	switch zz.Choice("action", 5) {
	case 0:
		code = datatransfer.PauseInitiator
	case 1:
		code = datatransfer.ResumeInitiator
	case 2:
		code = datatransfer.PauseResponder
	case 3:
		code = datatransfer.ResumeResponder
	case 4:
		code = datatransfer.DataLimitExceeded
	}
	_ = f.g.Send(f.chid, code)
	post := f.g.VerifPeek(f.chid)
	zz.Assert(VerifSameIdentity(pre, post) && VerifSameCounters(pre, post) && VerifSameLogs(pre, post) &&
		post.DataLimit == pre.DataLimit && post.RequiresFinalization == pre.RequiresFinalization && post.Message == pre.Message,
		"pause/resume touch nothing but pause flags")
	initiatorAction := code == datatransfer.PauseInitiator || code == datatransfer.ResumeInitiator
	if initiatorAction {
		zz.Assert(post.ResponderPaused == pre.ResponderPaused, "an initiator pause/resume never changes the responder's flag")
	} else {
		zz.Assert(post.InitiatorPaused == pre.InitiatorPaused, "a responder pause/resume never changes the initiator's flag")
	}
	// Where the acting party is still active the action is NOT meaningless and must be applied:
	// before and during the transfer for either party, and for the responder also while only the
	// initiator's own side has finished (TransferFinished: the responder is still serving).
	live := pre.Status == datatransfer.Requested || pre.Status == datatransfer.Queued || pre.Status == datatransfer.Ongoing ||
		pre.Status == datatransfer.AwaitingAcceptance
	if (code == datatransfer.PauseResponder || code == datatransfer.ResumeResponder) && pre.Status == datatransfer.TransferFinished {
		live = true
	}
	if live {
		zz.Assert(len(f.notes.Log) > 0, "a pause/resume by a party that is still active is applied, not ignored")
		zz.Reach("must be applied")
	}
	if len(f.notes.Log) == 0 {
		// ignored (meaningless in this status, or channel terminated): nothing may have changed
		zz.Assert(VerifSameRecord(pre, post), "an ignored pause/resume leaves the record untouched")
		zz.Reach("ignored")
		return
	}
	zz.Reach("applied")
	want := code == datatransfer.PauseInitiator || code == datatransfer.PauseResponder || code == datatransfer.DataLimitExceeded
	if initiatorAction {
		zz.Assert(post.InitiatorPaused == want, "initiator flag takes the requested value")
	} else {
		zz.Assert(post.ResponderPaused == want, "responder flag takes the requested value")
	}
	if IsChannelCleaningUp(pre.Status) {
		return // transient: cleanup finishes
	}
	if code == datatransfer.ResumeResponder && pre.Status == datatransfer.Finalizing {
		zz.Assert(post.Status == datatransfer.Completed, "release of a finalizing responder")
	} else {
		zz.Assert(post.Status == pre.Status, "pause/resume do not change the lifecycle status")
	}
	// the notified snapshot shows the new flags
	last := f.notes.Log[len(f.notes.Log)-1].State
	if !IsChannelTerminated(post.Status) {
		zz.Assert(last.InitiatorPaused() == post.InitiatorPaused, "snapshot reflects the initiator flag")
	}
}

// VerifC11_Views: derived pause views of an arbitrary record.
func VerifC11_Views() {
	st := VerifArbitraryRecord("st", 1, 0, true)
	cs := fromInternalChannelState(st)
	zz.Assert(cs.InitiatorPaused() == st.InitiatorPaused, "initiator view is the flag")
	zz.Assert(cs.ResponderPaused() == (st.ResponderPaused || st.Status == datatransfer.Finalizing), "a responder awaiting finalization counts as paused")
	zz.Assert(cs.BothPaused() == (cs.InitiatorPaused() && cs.ResponderPaused()), "both-paused is the conjunction")
	if st.SelfPeer == st.Initiator {
		zz.Assert(cs.SelfPaused() == cs.InitiatorPaused(), "self-paused is the flag of the local role (initiator)")
		zz.Reach("initiator")
	} else {
		zz.Assert(cs.SelfPaused() == cs.ResponderPaused(), "self-paused is the flag of the local role (responder)")
		zz.Reach("responder")
	}
}

// VerifC11_OnlyPauseActionsChangeFlags: each side's pause flag follows EXACTLY the pause and
// resume actions: no other event (restart, accept, data, vouchers, limits, errors, completion
// signals ...) ever changes a pause flag.
func VerifC11_OnlyPauseActionsChangeFlags() {
	f := verifFixtureWith(1, 0)
	pre := &f.pre
	code := datatransfer.EventCode(zz.Choice("code", VerifNumEvents))
	switch code {
	case datatransfer.PauseInitiator, datatransfer.ResumeInitiator, datatransfer.PauseResponder, datatransfer.ResumeResponder, datatransfer.DataLimitExceeded:
		return
	}
	_ = VerifSendArbitrary(f.g, f.chid, code, "ev")
	post := f.g.VerifPeek(f.chid)
	zz.Assert(post.InitiatorPaused == pre.InitiatorPaused && post.ResponderPaused == pre.ResponderPaused, "only pause/resume actions change pause flags")
	if len(f.notes.Log) > 0 {
		zz.Reach("applied")
	}
}
