package network

import (
	"context"
	"errors"
	"io"

	"github.com/libp2p/go-libp2p/core/network"
	"github.com/libp2p/go-libp2p/core/peer"
	"github.com/libp2p/go-libp2p/core/protocol"

	datatransfer "github.com/filecoin-project/go-data-transfer/v2"
	"github.com/filecoin-project/go-data-transfer/v2/message"
	message1_1 "github.com/filecoin-project/go-data-transfer/v2/message/message1_1prime"
	zz "github.com/filecoin-project/go-data-transfer/v2/zzverif"
)

// verifProtocols is an arbitrary non-empty protocol list of length 1 or 2.
func verifProtocols() []protocol.ID {
	ps := []protocol.ID{protocol.ID(zz.String("proto0"))}
	if zz.Bool("twoProtocols") {
		ps = append(ps, protocol.ID(zz.String("proto1")))
	}
	return ps
}

// VerifC15_OpenStream: openStream against every pattern of stream-open failures, every attempt
// cap n in 1..5 and every cancellation time: before the call, while any attempt is in flight, or
// during any backoff wait.
//
// openStream runs in its own task; the host double parks every NewStream call until the main
// task decides its outcome, and between two attempts the main task (the environment) either
// cancels the context or lets the backoff timer fire (not both: when both select arms are ready
// either outcome is legal). The per-attempt deadline timers (context.WithTimeout(ctx,
// openStreamTimeout)) are never fired by the environment: their only effect is on the outcome of
// NewStream, which is arbitrary already. Modelling assumption: a host never opens a stream on a
// context that is already done.
//
// (replay=engine: how long a failed attempt took is the clock's business; a counterexample that
// depends on it cannot be forced on the native clock and is confirmed by engine replay)
//
//verif:opts fuel=60 sched=12 replay=engine
func VerifC15_OpenStream() {
	n := 1 + zz.Choice("attempts", 5)
	p := peer.ID(zz.String("peer"))
	protos := verifProtocols()
	log := &verifLog{}
	h := &verifHost{id: peer.ID(zz.String("self")), gate: make(chan bool)}
	h.stream = verifNewStream(log, protos[0], p)
	impl := verifNetwork(h, n, nil)
	ctx, cancel := context.WithCancel(context.Background())
	defer cancel()

	cancelled := false
	cancelledInWait := false
	attemptsAtCancel := 0 // attempts the kernel may have made when the cancellation is observable to it
	if zz.Bool("cancelBeforeCall") {
		cancel()
		cancelled = true
		attemptsAtCancel = 1 // the first attempt is made on the cancelled context (and must fail)
	}

	var s network.Stream
	var err error
	done := make(chan struct{})
	go func() {
		s, err = impl.openStream(ctx, p, protos...)
		close(done)
	}()
	finished := func() bool {
		select {
		case <-done:
			return true
		default:
			return false
		}
	}

	succeededAt := 0 // 1-based number of the attempt that was told to succeed
	failed := 0      // attempts that were told to fail
	for i := 0; i < n+2; i++ {
		zz.Settle()
		if finished() {
			break
		}
		// the kernel is parked inside its next NewStream call
		calls := h.nCalls()
		zz.Assert(calls <= n, "never more stream-open attempts than configured")
		zz.Assert(calls == failed+1, "one NewStream call per attempt")
		zz.Assert(!cancelled || calls == 1, "no stream-open attempt after the cancellation was observed")
		if !cancelled && zz.Bool("cancelDuringAttempt") {
			cancel()
			cancelled = true
			attemptsAtCancel = calls
		}
		ok := !cancelled && zz.Bool("attemptSucceeds")
		h.gate <- ok
		if ok {
			succeededAt = calls
			continue
		}
		failed++
		verifLetKernelRun()
		if finished() {
			break
		}
		// the kernel is waiting in its backoff select
		zz.Assert(h.nCalls() == failed, "no new attempt before the backoff wait ends")
		zz.Assert(failed < n, "exhaustion is reported after exactly the configured number of attempts")
		zz.Assert(!cancelled, "openStream gives up at the first backoff wait that follows the cancellation of its context")
		if zz.Bool("cancelDuringBackoff") {
			cancel()
			cancelled = true
			cancelledInWait = true
			attemptsAtCancel = failed
			zz.Settle()
			zz.Assert(finished(), "openStream gives up promptly when its context is cancelled during a backoff wait")
			break
		}
		zz.FireTimer()
		zz.Settle()
		// environment restriction (see above): the timer that fired was the backoff timer
		zz.Assume(finished() || h.nCalls() == failed+1)
	}
	zz.Settle()
	zz.Assert(finished(), "openStream terminates within the configured number of attempts")

	calls := h.nCalls()
	zz.Assert(calls >= 1 && calls <= n, "between one and the configured number of stream-open attempts")
	for i := 0; i < calls; i++ {
		c := h.calls[i]
		zz.Assert(c.p == p && verifSameProtocols(c.protos, protos), "every attempt targets the requested peer and protocol list")
	}
	zz.Assert((s != nil) == (err == nil), "a stream or an error, never both or neither")
	zz.Assert((err == nil) == (succeededAt > 0), "openStream succeeds exactly when one of its attempts succeeded")
	switch {
	case succeededAt > 0:
		zz.Assert(s == network.Stream(h.stream), "the stream handed back is the one the host opened")
		zz.Assert(calls == succeededAt, "no attempt after the successful one")
		zz.Assert(len(log.ev) == 0, "openStream does not touch the opened stream")
		if succeededAt == 1 {
			zz.Reach("success on first attempt")
		} else {
			zz.Reach("success after retries")
		}
		if succeededAt == n && n > 1 {
			zz.Reach("success on the last permitted attempt")
		}
	case cancelled && attemptsAtCancel < n:
		// the kernel reached (or was in) a backoff wait with its context cancelled
		zz.Assert(calls == attemptsAtCancel, "no stream-open attempt after the cancellation was observed")
		zz.Assert(err == context.Canceled, "a cancelled wait reports ctx.Err()")
		switch {
		case cancelledInWait:
			zz.Reach("cancelled during backoff")
		case h.calls[0].cancelled:
			zz.Reach("cancelled before the call")
		default:
			zz.Reach("cancelled while an attempt was in flight")
		}
	default:
		// every permitted attempt failed (the last one possibly on a cancelled context)
		zz.Assert(calls == n && failed == n, "exhaustion is reported after exactly the configured number of attempts")
		zz.Assert(errors.Is(err, h.errs[n-1]), "the exhaustion error wraps the last stream-open error")
		zz.Reach("exhausted")
		if n > 1 {
			zz.Reach("exhausted after retries")
		}
	}
}

// verifSendFixture: a network with a host double in immediate mode (each NewStream call decides
// its own outcome) and 1 or 2 permitted attempts, so that the backoff wait is crossed at most once
// (the environment fires the timers when the only task is blocked).
type verifSendFixture struct {
	log    *verifLog
	h      *verifHost
	impl   *libp2pDataTransferNetwork
	p      peer.ID
	protos []protocol.ID
	n      int
}

func verifNewSendFixture() *verifSendFixture {
	f := &verifSendFixture{log: &verifLog{}}
	f.n = 1 + zz.Choice("attempts", 2)
	f.p = peer.ID(zz.String("peer"))
	f.protos = []protocol.ID{protocol.ID(zz.String("proto0")), protocol.ID(zz.String("proto1"))}
	f.h = &verifHost{id: peer.ID(zz.String("self"))}
	var proto protocol.ID = datatransfer.ProtocolDataTransfer1_2
	if zz.Bool("unrecognisedProtocol") {
		proto = protocol.ID(zz.String("streamProto"))
		zz.Assume(proto != datatransfer.ProtocolDataTransfer1_2)
	}
	f.h.stream = verifNewStream(f.log, proto, f.p)
	f.impl = verifNetwork(f.h, f.n, f.protos)
	return f
}

// opened checks the stream-open phase and reports whether a stream was opened.
func (f *verifSendFixture) opened() bool {
	calls := f.h.nCalls()
	zz.Assert(calls >= 1 && calls <= f.n, "between one and the configured number of stream-open attempts")
	for i := 0; i < calls; i++ {
		c := f.h.calls[i]
		zz.Assert(c.p == f.p && verifSameProtocols(c.protos, f.protos), "every attempt targets the intended peer with the data-transfer protocols")
	}
	return len(f.h.errs) < calls
}

// VerifC15_SendMessage: SendMessage with an arbitrary message, arbitrary stream-open outcomes
// (cap 1 or 2), arbitrary protocol conversion / write / reset / close results.
//
//verif:opts replay=engine
func VerifC15_SendMessage() {
	f := verifNewSendFixture()
	log := f.log
	st := f.h.stream
	msg := verifArbitraryMsg(log, "msg")
	conv := verifArbitraryMsg(log, "conv")
	if zz.Bool("conversionFails") {
		msg.convErr = zz.Error("convErr")
	} else {
		msg.conv = conv
	}
	if zz.Bool("writeFails") {
		st.writeErr = zz.Error("writeErr")
	}
	ctx := context.Background()
	var cancel context.CancelFunc
	if zz.Bool("ctxHasDeadline") {
		ctx, cancel = context.WithTimeout(ctx, defaultSendMessageTimeout)
		defer cancel()
	}

	err := f.impl.SendMessage(ctx, f.p, msg)

	zz.Assert(len(msg.writers) == 0, "the unconverted message is never written")
	if !f.opened() {
		zz.Assert(err != nil, "a failed stream open is reported")
		zz.Assert(len(conv.writers) == 0 && len(log.ev) == 0, "no stream was opened: nothing is written, reset or closed")
		zz.Reach("open failed")
		return
	}
	if len(f.h.errs) > 0 {
		zz.Reach("sent after a retry")
	}
	zz.Assert(len(msg.convProtos) == 1 && msg.convProtos[0] == st.proto, "the message is converted once, for the protocol of the opened stream")
	if msg.conv == nil {
		zz.Assert(err != nil && errors.Is(err, msg.convErr), "a conversion failure is reported")
		zz.Assert(len(conv.writers) == 0, "nothing is written when the conversion failed")
		zz.Reach("conversion failed")
		return
	}
	if st.proto != datatransfer.ProtocolDataTransfer1_2 {
		zz.Assert(err != nil, "an unrecognised protocol is reported")
		zz.Assert(len(conv.writers) == 0, "nothing is written on an unrecognised protocol")
		zz.Assert(log.count("reset") == 1 && log.count("close") == 0, "the stream of an unrecognised protocol is reset, not closed")
		if st.resetErr != nil {
			zz.Assert(err == st.resetErr, "a failing reset is what is reported")
		}
		zz.Reach("unrecognised protocol")
		return
	}
	zz.Assert(len(conv.writers) == 1 && log.count("write") == 1, "the message is encoded exactly once and its bytes go, in one delivery, to the stream opened to the intended peer")
	zz.Assert(log.index("wdl+") < log.index("write") && log.index("write") < log.index("wdl0"), "the bytes reach the stream while the write deadline is in force")
	zz.Assert(log.count("wdl+") == 1 && log.index("wdl+") < log.index("tonet"), "a write deadline is set before the write")
	zz.Assert(log.count("wdl0") == 1 && log.index("wdl0") > log.index("tonet"), "the write deadline is cleared after the write")
	if st.writeErr != nil {
		zz.Assert(log.count("reset") == 1, "a failed write resets the stream exactly once")
		zz.Assert(log.count("close") == 0, "a failed write does not close the stream")
		zz.Assert(log.index("reset") > log.index("tonet"), "reset follows the failed write")
		if st.resetErr != nil {
			zz.Assert(err == st.resetErr, "a failing reset is what is reported")
			zz.Reach("write failed, reset failed")
		} else {
			zz.Assert(err == st.writeErr, "the write error is reported")
			zz.Reach("write failed")
		}
		return
	}
	zz.Assert(log.count("close") == 1 && log.count("reset") == 0, "a written message closes the stream exactly once and never resets it")
	zz.Assert(log.index("close") > log.index("tonet"), "close follows the write")
	zz.Assert(err == st.closeErr, "the result of Close is the result of SendMessage")
	if err == nil {
		zz.Reach("delivered")
	} else {
		zz.Reach("close failed")
	}
}

// VerifC15_ConnectWithRetry: the probe stream is opened with the same bounded retry and closed
// exactly once; its Close result (or the open error) is reported.
//
//verif:opts replay=engine
func VerifC15_ConnectWithRetry() {
	f := verifNewSendFixture()
	err := f.impl.ConnectWithRetry(context.Background(), f.p)
	if !f.opened() {
		zz.Assert(err != nil && len(f.log.ev) == 0, "a failed stream open is reported and nothing is closed")
		zz.Assert(errors.Is(err, f.h.errs[len(f.h.errs)-1]), "the error wraps the last stream-open error")
		zz.Reach("probe failed")
		return
	}
	zz.Assert(f.log.count("close") == 1 && len(f.log.ev) == 1, "the probe stream is closed exactly once and not otherwise touched")
	zz.Assert(err == f.h.stream.closeErr, "the result of Close is reported")
	zz.Reach("probe closed")
}

// ---- inbound ---------------------------------------------------------------

// verifInboundScript scripts the decoder: what the k-th message.FromNet call on the stream yields.
type verifInboundScript struct {
	max      int
	reads    int
	readers  []io.Reader
	expected []datatransfer.Message // messages that must reach a handler, in order
	kinds    []int                  // the handler each must reach (possibly symbolic)
	endErr   error                  // the error that ended the stream
}

var verifInbound *verifInboundScript

// verifFromNet stands for message.FromNet. handleNewStream calls it through the package-level
// variable message.FromNet, which the harness re-points here for the duration of the run (no stub
// directive and no native seam are needed: the engine and the native replay execute the same
// assignment). Contract of the real FromNet (checked for the repository's own part by C12): it
// returns a non-nil *TransferRequest1_1 or *TransferResponse1_1 with arbitrary contents, or an
// error: io.EOF at a clean end of stream, io.ErrUnexpectedEOF for a truncated message, or any
// other decoding error.
func verifFromNet(r io.Reader) (datatransfer.Message, error) {
	sc := verifInbound
	if sc == nil {
		return nil, errors.New("verif: no inbound script")
	}
	sc.reads++
	sc.readers = append(sc.readers, r)
	zz.Assert(sc.endErr == nil, "nothing is read after the stream ended")
	k := 2
	if sc.reads <= sc.max {
		k = zz.Choice("read", 5)
	}
	switch k {
	case 0:
		req := &message1_1.TransferRequest1_1{}
		zz.Symbolic(req, "in.Request")
		sc.expected = append(sc.expected, req)
		sc.kinds = append(sc.kinds, zz.Ite(req.IsRestartExistingChannelRequest(), verifKindRestart, verifKindRequest))
		return req, nil
	case 1:
		resp := &message1_1.TransferResponse1_1{}
		zz.Symbolic(resp, "in.Response")
		sc.expected = append(sc.expected, resp)
		sc.kinds = append(sc.kinds, verifKindResponse)
		return resp, nil
	case 2:
		sc.endErr = io.EOF
	case 3:
		sc.endErr = io.ErrUnexpectedEOF
	default:
		sc.endErr = zz.Error("decodeErr")
	}
	return nil, sc.endErr
}

// verifInstallInbound re-points message.FromNet at the scripted decoder; the returned function
// restores it.
func verifInstallInbound(sc *verifInboundScript) func() {
	real := message.FromNet
	verifInbound = sc
	message.FromNet = verifFromNet
	return func() {
		verifInbound = nil
		message.FromNet = real
	}
}

// VerifC15_Inbound: handleNewStream on a stream carrying up to 4 decoded messages of arbitrary
// kind and content, ended by EOF, a truncated message (io.ErrUnexpectedEOF) or any other decoding
// error (malformed stream). Precondition: the stream's protocol is ProtocolDataTransfer1_2 (the
// only protocol a handler is registered for by default).
func VerifC15_Inbound() {
	log := &verifLog{}
	remote := peer.ID(zz.String("remote"))
	st := verifNewStream(log, datatransfer.ProtocolDataTransfer1_2, remote)
	st.reliable = true // handleNewStream discards the results of Reset and Close syntactically
	h := &verifHost{id: peer.ID(zz.String("self"))}
	impl := verifNetwork(h, 1, []protocol.ID{datatransfer.ProtocolDataTransfer1_2})
	sc := &verifInboundScript{max: 4}
	defer verifInstallInbound(sc)()

	if zz.Bool("noReceiver") {
		impl.handleNewStream(st)
		zz.Assert(sc.reads == 0, "without a receiver nothing is read")
		zz.Assert(log.count("reset") == 1 && log.count("close") == 1, "without a receiver the stream is reset and closed")
		zz.Reach("no receiver")
		return
	}
	rcv := &verifReceiver{}
	impl.receiver = rcv

	impl.handleNewStream(st)
	zz.Settle() // ReceiveError is reported from its own goroutine

	zz.Assert(sc.endErr != nil, "the handler returns only when the stream has ended")
	for _, r := range sc.readers {
		zz.Assert(r == io.Reader(st), "messages are decoded from the inbound stream")
	}
	zz.Assert(log.count("close") == 1 && log.ev[len(log.ev)-1] == "close", "the stream is closed exactly once, at the end")
	zz.Assert(len(rcv.calls) == len(sc.expected), "every decoded message is handed to a handler exactly once and nothing else is")
	for i := range sc.expected {
		c := rcv.calls[i]
		zz.Assert(c.msg == sc.expected[i], "messages are dispatched in arrival order")
		zz.Assert(c.kind == sc.kinds[i], "the handler matches the message kind")
		zz.Assert(c.p == remote, "the handler receives the authenticated remote peer")
		switch c.kind {
		case verifKindRequest:
			zz.Reach("request dispatched")
		case verifKindRestart:
			zz.Reach("restart-existing-channel request dispatched")
		case verifKindResponse:
			zz.Reach("response dispatched")
		}
	}
	if len(sc.expected) == 4 {
		zz.Reach("four messages on one stream")
	}
	if sc.endErr == io.EOF || sc.endErr == io.ErrUnexpectedEOF {
		zz.Assert(log.count("reset") == 0 && len(rcv.errs) == 0, "end of stream ends the loop silently")
		if sc.endErr == io.EOF {
			zz.Reach("EOF")
		} else {
			zz.Reach("truncated stream (ErrUnexpectedEOF) treated as end of stream")
		}
		return
	}
	zz.Assert(log.count("reset") == 1, "a malformed stream is reset exactly once")
	zz.Assert(len(rcv.errs) == 1 && rcv.errs[0] == sc.endErr, "the decoding error is reported exactly once")
	zz.Reach("decode error")
}

// VerifC15_InboundMalformed: handleNewStream with the REAL message decoder front end (FromNet's
// malformed-message check) on top of an arbitrary schema-level decode result: an error, or a
// message struct whose request/response flag may contradict which body is present, or that has no
// body at all. A message is handed to a handler only if its announced body is present (and then to
// exactly the matching handler with the remote peer); anything else is a malformed stream: reset,
// reported once, no handler, and no crash (a nil body must never reach a handler).
//
//verif:opts fuel=20
func VerifC15_InboundMalformed() {
	log := &verifLog{}
	remote := peer.ID(zz.String("remote"))
	st := verifNewStream(log, datatransfer.ProtocolDataTransfer1_2, remote)
	st.reliable = true
	h := &verifHost{id: peer.ID(zz.String("self"))}
	impl := verifNetwork(h, 1, []protocol.ID{datatransfer.ProtocolDataTransfer1_2})
	rcv := &verifReceiver{}
	impl.receiver = rcv
	message1_1.VerifStubDecode(true)
	defer message1_1.VerifStubDecode(false)
	message1_1.VerifDecodeBudget = 2 // at most 2 successful decodes, then the stub reports an error (end of stream)

	impl.handleNewStream(st)
	zz.Settle()

	for _, c := range rcv.calls {
		zz.Assert(c.p == remote, "the handler receives the authenticated remote peer")
		switch c.kind {
		case verifKindRequest, verifKindRestart:
			rq, ok := c.msg.(*message1_1.TransferRequest1_1)
			zz.Assert(ok && rq != nil, "a request handler never receives a missing body")
			zz.Assert((c.kind == verifKindRestart) == rq.IsRestartExistingChannelRequest(), "handler matches the kind")
			zz.Reach("well-formed request dispatched")
		case verifKindResponse:
			rs, ok := c.msg.(*message1_1.TransferResponse1_1)
			zz.Assert(ok && rs != nil, "a response handler never receives a missing body")
			zz.Reach("well-formed response dispatched")
		}
	}
	zz.Assert(log.count("close") == 1, "the stream is closed")
	zz.Assert(len(rcv.errs) == 1 && log.count("reset") == 1, "the stream ends with exactly one reported error and one reset")
	zz.Assert(len(rcv.calls) <= 2, "no message is dispatched twice")
	if len(rcv.calls) == 0 {
		zz.Reach("malformed first message: no handler")
	}
}

// VerifC15_AttemptBudgetIsPerSend: the configured number of stream-open attempts belongs to each
// send: a send made after one that used up its attempts (or part of them) still gets the full
// budget, and succeeds exactly when one of ITS attempts succeeds.
//
//verif:opts fuel=60 replay=engine
func VerifC15_AttemptBudgetIsPerSend() {
	f := verifNewSendFixture()
	zz.Assume(f.h.stream.proto == datatransfer.ProtocolDataTransfer1_2)
	f.h.stream.reliable = true
	n := f.n
	k := zz.Choice("failuresOfSecondSend", 2) // 0 or 1 failed attempts before the second send gets through
	zz.Assume(k < n)
	firstFails := zz.Choice("failuresOfFirstSend", 3) // 0, 1 or "all"
	var script []bool
	first := n
	if firstFails < 2 && firstFails < n {
		first = firstFails
	}
	for i := 0; i < first; i++ {
		script = append(script, false)
	}
	if first < n {
		script = append(script, true) // the first send gets through after `first` failures
	}
	used := len(script)
	for i := 0; i < k; i++ {
		script = append(script, false)
	}
	script = append(script, true)
	f.h.script = script
	msg1, conv1 := verifArbitraryMsg(f.log, "msg1"), verifArbitraryMsg(f.log, "conv1")
	msg1.conv = conv1
	err1 := f.impl.SendMessage(context.Background(), f.p, msg1)
	zz.Assert((err1 == nil) == (first < n), "the first send succeeds exactly when one of its attempts did")
	zz.Assert(f.h.nCalls() == used, "and made exactly the attempts it needed / was allowed")
	f.h.sendStart = f.h.nCalls()
	msg2, conv2 := verifArbitraryMsg(f.log, "msg2"), verifArbitraryMsg(f.log, "conv2")
	msg2.conv = conv2
	err2 := f.impl.SendMessage(context.Background(), f.p, msg2)
	zz.Assert(err2 == nil, "the second send has its own full budget: it succeeds because one of its attempts does")
	zz.Assert(f.h.nCalls() == used+k+1, "after exactly its own failed attempts plus one")
	if first == n {
		zz.Reach("second send after an exhausted one")
	}
	if k > 0 {
		zz.Reach("second send needed a retry")
	}
}
