package network

import (
	"bufio"
	"context"
	"io"
	"sync"
	"time"

	"github.com/ipld/go-ipld-prime/datamodel"
	"github.com/jpillora/backoff"
	"github.com/libp2p/go-libp2p/core/host"
	"github.com/libp2p/go-libp2p/core/network"
	"github.com/libp2p/go-libp2p/core/peer"
	"github.com/libp2p/go-libp2p/core/protocol"

	datatransfer "github.com/filecoin-project/go-data-transfer/v2"
	zz "github.com/filecoin-project/go-data-transfer/v2/zzverif"
)

// ---- ghost log -------------------------------------------------------------

// verifLog is the ghost log shared by the doubles of one harness run: the order of the
// observable effects on the stream ("wdl+" write deadline set, "wdl0" cleared, "rdl+", "rdl0",
// "tonet", "reset", "close").
type verifLog struct {
	mu sync.Mutex
	ev []string
}

func (l *verifLog) add(e string) {
	l.mu.Lock()
	l.ev = append(l.ev, e)
	l.mu.Unlock()
}

func (l *verifLog) count(e string) int {
	l.mu.Lock()
	defer l.mu.Unlock()
	n := 0
	for _, x := range l.ev {
		if x == e {
			n++
		}
	}
	return n
}

// index of the first occurrence, -1 if none
func (l *verifLog) index(e string) int {
	l.mu.Lock()
	defer l.mu.Unlock()
	for i, x := range l.ev {
		if x == e {
			return i
		}
	}
	return -1
}

// ---- libp2p connection / stream doubles ------------------------------------

// verifConn: only the two authenticated end points are observable.
type verifConn struct {
	network.Conn // nil: any other method would crash (none is called by the kernel)
	local        peer.ID
	remote       peer.ID
}

func (c *verifConn) RemotePeer() peer.ID { return c.remote }
func (c *verifConn) LocalPeer() peer.ID  { return c.local }

// verifStream embeds the (nil) libp2p Stream interface and overrides what the kernel calls.
// Reset, Close and SetWriteDeadline fail arbitrarily; the outcome is chosen when the call is made
// (so that only the paths on which the call happens fork) and remembered for the assertions.
type verifStream struct {
	network.Stream
	log      *verifLog
	proto    protocol.ID
	conn     *verifConn
	resetErr error // result of (the last) Reset
	closeErr error // result of (the last) Close
	// reliable: Reset and Close succeed (used where the kernel discards their results syntactically)
	reliable bool
	// writeErr: what every Write on the stream answers (nil: the bytes are accepted)
	writeErr error
}

func (s *verifStream) Write(p []byte) (int, error) {
	s.log.add("write")
	if s.writeErr != nil {
		return 0, s.writeErr
	}
	return len(p), nil
}

func (s *verifStream) Protocol() protocol.ID { return s.proto }
func (s *verifStream) Conn() network.Conn    { return s.conn }
func (s *verifStream) Reset() error {
	s.log.add("reset")
	s.resetErr = nil
	if !s.reliable && zz.Bool("stream.resetFails") {
		s.resetErr = zz.Error("stream.resetErr")
	}
	return s.resetErr
}
func (s *verifStream) Close() error {
	s.log.add("close")
	s.closeErr = nil
	if !s.reliable && zz.Bool("stream.closeFails") {
		s.closeErr = zz.Error("stream.closeErr")
	}
	return s.closeErr
}
func (s *verifStream) SetWriteDeadline(t time.Time) error {
	if t.IsZero() {
		s.log.add("wdl0")
	} else {
		s.log.add("wdl+")
	}
	if zz.Bool("stream.writeDeadlineFails") {
		return zz.Error("stream.writeDeadlineErr")
	}
	return nil
}
func (s *verifStream) SetReadDeadline(t time.Time) error {
	if t.IsZero() {
		s.log.add("rdl0")
	} else {
		s.log.add("rdl+")
	}
	return nil // the kernel discards this result syntactically
}

// verifNewStream is a stream double speaking proto on a connection to remote.
func verifNewStream(log *verifLog, proto protocol.ID, remote peer.ID) *verifStream {
	local := peer.ID(zz.String("stream.localPeer"))
	zz.Assume(local != remote)
	return &verifStream{log: log, proto: proto, conn: &verifConn{local: local, remote: remote}}
}

// ---- libp2p host double ----------------------------------------------------

type verifOpenCall struct {
	ctx    context.Context
	p      peer.ID
	protos []protocol.ID
	// cancelled: the context handed to NewStream was already done when the call was made
	cancelled bool
}

// verifHost embeds the (nil) Host interface; only NewStream and ID are live.
//
// Two modes. gate == nil: every NewStream call decides its own outcome (zz.Bool). gate != nil:
// the call parks until the harness main task sends the outcome, which makes the interleaving of
// the kernel goroutine and the environment (timer / cancellation) deterministic in the engine
// and in the native replay alike.
type verifHost struct {
	host.Host
	mu     sync.Mutex
	id     peer.ID
	calls  []verifOpenCall
	gate   chan bool // true: this attempt succeeds
	stream *verifStream
	errs   []error // error returned by the i-th failed call (own identity each)
	cap    int     // configured number of stream-open attempts PER SEND (0: not set)
	// script, when set, fixes the outcome of the i-th NewStream call (true: the stream opens)
	script []bool
	// sendStart: index of the first NewStream call of the send in progress (for the per-send cap)
	sendStart int
}

func (h *verifHost) ID() peer.ID { return h.id }

func (h *verifHost) nCalls() int {
	h.mu.Lock()
	defer h.mu.Unlock()
	return len(h.calls)
}

func (h *verifHost) NewStream(ctx context.Context, p peer.ID, pids ...protocol.ID) (network.Stream, error) {
	h.mu.Lock()
	h.calls = append(h.calls, verifOpenCall{ctx: ctx, p: p, protos: append([]protocol.ID{}, pids...), cancelled: ctx.Err() != nil})
	n := len(h.calls)
	h.mu.Unlock()
	if h.cap > 0 {
		// checked where the excess attempt is made, so that an unbounded retry loop is reported at
		// once instead of being unrolled to the loop bound
		zz.Assert(n-h.sendStart <= h.cap, "no more than the configured number of stream-open attempts")
	}
	var ok bool
	if h.gate != nil {
		ok = <-h.gate
	} else if h.script != nil {
		ok = n-1 < len(h.script) && h.script[n-1] && ctx.Err() == nil
	} else {
		// modelling assumption: a libp2p host never opens a stream on a context that is already done
		ok = ctx.Err() == nil && !zz.Bool("host.openFails")
	}
	if !ok {
		e := zz.Error("host.openErr")
		h.mu.Lock()
		h.errs = append(h.errs, e)
		h.mu.Unlock()
		return nil, e
	}
	return h.stream, nil
}

func verifSameProtocols(a, b []protocol.ID) bool {
	if len(a) != len(b) {
		return false
	}
	for i := range a {
		if a[i] != b[i] {
			return false
		}
	}
	return true
}

// ---- backoff contract (engine only; natively the real jpillora/backoff runs) ------------------
//
// Documented contract of github.com/jpillora/backoff.Backoff: Attempt() is the number of
// Duration() calls made so far (as float64); Duration() returns a positive duration.

// (nil until a fixture installs a fresh map: state built by package initialisers is shared by all paths)
var verifBackoffCalls map[*backoff.Backoff]int

//verif:stub (*github.com/jpillora/backoff.Backoff).Duration verifBackoffDuration
//verif:stub (*github.com/jpillora/backoff.Backoff).Attempt verifBackoffAttempt

func verifBackoffDuration(b *backoff.Backoff) time.Duration {
	if verifBackoffCalls == nil {
		verifBackoffCalls = map[*backoff.Backoff]int{}
	}
	verifBackoffCalls[b] = verifBackoffCalls[b] + 1
	d := time.Duration(zz.Int64("backoff.duration"))
	zz.Assume(d > 0)
	return d
}

func verifBackoffAttempt(b *backoff.Backoff) float64 {
	return float64(verifBackoffCalls[b])
}

//verif:stub (*github.com/jpillora/backoff.Backoff).ForAttempt verifBackoffForAttempt
//verif:stub (*github.com/jpillora/backoff.Backoff).Reset verifBackoffReset

// Reset restarts the attempt counter.
func verifBackoffReset(b *backoff.Backoff) {
	if verifBackoffCalls != nil {
		verifBackoffCalls[b] = 0
	}
}

// ForAttempt(n) is the duration Duration() would return for attempt n without advancing the counter.
func verifBackoffForAttempt(b *backoff.Backoff, attempt float64) time.Duration {
	d := time.Duration(zz.Int64("backoff.forAttempt"))
	zz.Assume(d > 0)
	return d
}

// ---- network under test ----------------------------------------------------

// verifBackoffWait is the (native) length of every backoff wait: with Min == Max the real backoff
// returns exactly this. It is longer than verifLetKernelRun's native pause plus one zz.Settle
// (~45ms: a cancellation issued right after a failed attempt lands inside the wait) and shorter
// than zz.FireTimer plus zz.Settle (~70ms: "the environment fires the backoff timer").
// The engine ignores durations: timers fire when the environment says so.
const verifBackoffWait = 60 * time.Millisecond

// verifLetKernelRun lets the kernel task run until it blocks (engine); natively a short pause,
// far below verifBackoffWait, in which the kernel goroutine reaches its next blocking point.
func verifLetKernelRun() {
	if zz.Engine() {
		zz.Settle()
	} else {
		time.Sleep(5 * time.Millisecond)
	}
}

// verifNetwork builds the kernel object directly (struct literal, no libp2p host needed).
func verifNetwork(h *verifHost, attempts int, protos []protocol.ID) *libp2pDataTransferNetwork {
	verifBackoffCalls = map[*backoff.Backoff]int{}
	h.cap = attempts
	// through the real constructor and its options, so that whatever the constructor sets up is there
	opts := []Option{SendMessageParameters(time.Hour, time.Hour), RetryParameters(verifBackoffWait, verifBackoffWait, float64(attempts), 1)}
	if protos != nil {
		opts = append(opts, DataTransferProtocols(protos))
	}
	return NewFromLibp2pHost(h, opts...).(*libp2pDataTransferNetwork)
}

// ---- message double --------------------------------------------------------

// verifMsg implements datatransfer.Message. Its flags are arbitrary; MessageForProtocol hands
// out the prepared conversion result (a distinct message, or an error); ToNet records the writer.
type verifMsg struct {
	name                                                  string
	log                                                   *verifLog
	isReq, isRestart, isNew, isUpdate, isPaused, isCancel bool
	tid                                                   datatransfer.TransferID
	conv                                                  *verifMsg // result of MessageForProtocol (nil: convErr)
	convErr                                               error
	convProtos                                            []protocol.ID
	writers                                               []io.Writer
}

func (m *verifMsg) IsRequest() bool                     { return m.isReq }
func (m *verifMsg) IsRestart() bool                     { return m.isRestart }
func (m *verifMsg) IsNew() bool                         { return m.isNew }
func (m *verifMsg) IsUpdate() bool                      { return m.isUpdate }
func (m *verifMsg) IsPaused() bool                      { return m.isPaused }
func (m *verifMsg) IsCancel() bool                      { return m.isCancel }
func (m *verifMsg) TransferID() datatransfer.TransferID { return m.tid }
func (m *verifMsg) ToIPLD() datamodel.Node              { return nil }

// ToNet encodes the message onto w: one small write whose outcome is the writer's.
func (m *verifMsg) ToNet(w io.Writer) error {
	m.writers = append(m.writers, w)
	m.log.add("tonet")
	_, err := w.Write([]byte{0xa0})
	return err
}

// ---- bufio contract (engine only; natively the real bufio runs) --------------------------------
//
// bufio.Writer: Write buffers (messages here are far below the 4 KiB buffer) and reports no
// error; Flush hands the buffered bytes to the underlying writer in one Write and reports ITS
// error; nothing reaches the underlying writer without a Flush.

//verif:stub bufio.NewWriter verifBufioNewWriter
//verif:stub (*bufio.Writer).Write verifBufioWrite
//verif:stub (*bufio.Writer).Flush verifBufioFlush

type verifBufState struct {
	w   io.Writer
	buf []byte
}

var verifBufs map[*bufio.Writer]*verifBufState

func verifBufioNewWriter(w io.Writer) *bufio.Writer {
	bw := new(bufio.Writer)
	if verifBufs == nil {
		verifBufs = map[*bufio.Writer]*verifBufState{}
	}
	verifBufs[bw] = &verifBufState{w: w}
	return bw
}

func verifBufioWrite(bw *bufio.Writer, p []byte) (int, error) {
	st := verifBufs[bw]
	st.buf = append(st.buf, p...)
	return len(p), nil
}

func verifBufioFlush(bw *bufio.Writer) error {
	st := verifBufs[bw]
	if len(st.buf) == 0 {
		return nil
	}
	_, err := st.w.Write(st.buf)
	st.buf = nil
	return err
}

func (m *verifMsg) MessageForProtocol(p protocol.ID) (datatransfer.Message, error) {
	m.convProtos = append(m.convProtos, p)
	if m.conv == nil {
		return nil, m.convErr
	}
	return m.conv, nil
}

func verifArbitraryMsg(log *verifLog, label string) *verifMsg {
	m := &verifMsg{name: label, log: log}
	m.isReq = zz.Bool(label + ".isReq")
	m.isRestart = zz.Bool(label + ".isRestart")
	m.isNew = zz.Bool(label + ".isNew")
	m.isUpdate = zz.Bool(label + ".isUpdate")
	m.isPaused = zz.Bool(label + ".isPaused")
	m.isCancel = zz.Bool(label + ".isCancel")
	m.tid = datatransfer.TransferID(zz.Uint64(label + ".tid"))
	return m
}

// ---- receiver double -------------------------------------------------------

const (
	verifKindRequest  = 1
	verifKindRestart  = 2
	verifKindResponse = 3
)

type verifRecvCall struct {
	kind int
	p    peer.ID
	msg  datatransfer.Message
	ctx  context.Context
}

type verifReceiver struct {
	mu    sync.Mutex
	calls []verifRecvCall
	errs  []error
}

func (r *verifReceiver) ReceiveRequest(ctx context.Context, sender peer.ID, incoming datatransfer.Request) {
	r.mu.Lock()
	r.calls = append(r.calls, verifRecvCall{verifKindRequest, sender, incoming, ctx})
	r.mu.Unlock()
}
func (r *verifReceiver) ReceiveResponse(ctx context.Context, sender peer.ID, incoming datatransfer.Response) {
	r.mu.Lock()
	r.calls = append(r.calls, verifRecvCall{verifKindResponse, sender, incoming, ctx})
	r.mu.Unlock()
}
func (r *verifReceiver) ReceiveRestartExistingChannelRequest(ctx context.Context, sender peer.ID, incoming datatransfer.Request) {
	r.mu.Lock()
	r.calls = append(r.calls, verifRecvCall{verifKindRestart, sender, incoming, ctx})
	r.mu.Unlock()
}
func (r *verifReceiver) ReceiveError(err error) {
	r.mu.Lock()
	r.errs = append(r.errs, err)
	r.mu.Unlock()
}
