package channelmonitor

import (
	"context"
	"sync"
	"time"

	"github.com/libp2p/go-libp2p/core/peer"

	datatransfer "github.com/filecoin-project/go-data-transfer/v2"
	zz "github.com/filecoin-project/go-data-transfer/v2/zzverif"
)

// ---- debounce seam -----------------------------------------------------------
//
// github.com/bep/debounce.New(d) returns func(f func()): every call replaces the pending f and
// re-arms a time.AfterFunc(d, f); when calls stop for d the LAST f runs once, on a goroutine of
// its own. The stub keeps exactly that contract but leaves the moment of expiry to the harness:
// each call replaces the pending f; verifDebounceFlush() runs the pending f (once) as a new task.
// The same seam is used for native replay.
//
//verif:stub github.com/bep/debounce.New verifDebounceNew
//verif:native-rewrite channelmonitor/channelmonitor.go debouncer := debounce.New(cfg.RestartDebounce) => debouncer := verifDebounceNew(cfg.RestartDebounce); _ = debounce.New

type verifDebouncer struct {
	mu      sync.Mutex
	pending func()
	calls   int
	runs    int
}

// verifDebouncers lists the debouncers created since verifReset (one per monitored channel).
var verifDebouncers []*verifDebouncer

func verifReset() { verifDebouncers = nil }

func verifDebounceNew(d time.Duration) func(f func()) {
	db := &verifDebouncer{}
	verifDebouncers = append(verifDebouncers, db)
	return func(f func()) {
		db.mu.Lock()
		db.pending = f
		db.calls++
		db.mu.Unlock()
	}
}

// verifDebouncePending reports whether debouncer i has a function waiting for its quiet period.
func verifDebouncePending(i int) bool {
	if i >= len(verifDebouncers) {
		return false
	}
	db := verifDebouncers[i]
	db.mu.Lock()
	defer db.mu.Unlock()
	return db.pending != nil
}

// verifDebounceFlush lets the quiet period of debouncer i expire: the pending function (if any)
// runs once on a new task. Returns whether something was pending.
func verifDebounceFlush(i int) bool {
	if i >= len(verifDebouncers) {
		return false
	}
	db := verifDebouncers[i]
	db.mu.Lock()
	f := db.pending
	db.pending = nil
	if f != nil {
		db.runs++
	}
	db.mu.Unlock()
	if f == nil {
		return false
	}
	go f()
	return true
}

// ---- timers --------------------------------------------------------------------

// verifTimeout is the value used for every enabled timeout/backoff. In the engine timers fire only
// on zz.FireTimer(); natively it is long enough not to expire during the zz.Settle() pauses of one
// harness run and verifFire() sleeps past it.
const verifTimeout = 700 * time.Millisecond

// verifFireN lets k live timers fire before any task runs (engine; which ones is explored).
// Natively it waits until every timer armed so far has expired.
func verifFireN(k int) bool {
	if zz.Engine() {
		ok := zz.FireTimer()
		for j := 1; j < k; j++ {
			zz.FireTimer()
		}
		return ok
	}
	time.Sleep(verifTimeout + 60*time.Millisecond)
	return true
}

// verifTimers is the number of live timers (engine). Natively timers are real and cannot be
// counted: the expected value is returned, so the assertion made with it is trivially true there but
// still appears in the native assertion trace (the engine/native traces stay aligned).
func verifTimers(want int) int {
	if zz.Engine() {
		return zz.LiveTimers()
	}
	return want
}

// ---- channel state double --------------------------------------------------------

// verifChanState is what the subscriber is handed: only ChannelID and Status are meaningful
// (the monitor reads nothing else; any other accessor would be a nil dereference).
type verifChanState struct {
	datatransfer.ChannelState
	chid   datatransfer.ChannelID
	status datatransfer.Status
}

func (s verifChanState) ChannelID() datatransfer.ChannelID { return s.chid }
func (s verifChanState) Status() datatransfer.Status       { return s.status }

// ---- monitorAPI double -------------------------------------------------------------

// phases of the reference model of the restart loop (see verifMgr)
const (
	verifIdle        = iota // no restart in progress
	verifWantConnect        // an attempt is due: the next manager call must be ConnectTo
	verifInConnect          // ConnectTo in flight
	verifWantRestart        // reconnected: the next manager call must be RestartDataTransferChannel
	verifInRestart          // RestartDataTransferChannel in flight
	verifBackoff            // restart sent, backing off (timer live)
	verifWantClose          // attempts exhausted: the next manager call must be CloseDataTransferChannelWithError
	verifClosed             // closed with an error
)

// outcomes of a manager call, chosen by the environment on entry
const (
	verifOK = iota
	verifFailNow
	verifHoldOK
	verifHoldFail
)

// verifMgr is the recording monitorAPI double.
//
// "During an attempt": ConnectTo / RestartDataTransferChannel contain a scheduling point
// (zz.Yield) and may additionally be *held* by the environment: the call blocks on d.gate until the
// harness releases it (verifRelease), so the harness can deliver further error events, data events
// and timers while exactly that call is in flight. Results (nil / error) are nondeterministic,
// within the budgets holdsLeft / failsLeft.
//
// With model=true the double also runs the reference model of the property's restart clauses and
// checks every manager call against it (refinement):
//
//	trigger (debounced restart request reaches restartChannel):
//	    busy ? queued=true : (busy=true; startRound)
//	startRound: count++ ; count > max ? want Close : want ConnectTo
//	ConnectTo fails / Restart fails: startRound          (retry, counted)
//	Restart ok: backoff>0 ? Backoff : endRound
//	backoff timer fires: endRound
//	endRound: queued ? (queued=false; startRound) : (busy=false; OnRestartComplete due)
//	data event: count=0
//
// so "at most one attempt in flight", "a restart requested during an attempt is performed exactly
// once afterwards", "at most max attempts without data progress", "closed when exhausted / failing
// persistently", "closed at most once" and "no attempt after the close" are all consequences of
// every call being the one the model wants and no wanted call being outstanding at quiescence.
type verifMgr struct {
	self  peer.ID
	other peer.ID
	chid  datatransfer.ChannelID

	subs       []datatransfer.Subscriber
	firstSub   datatransfer.Subscriber // kept after the unsubscribe: an event that was already being published
	subscribes int
	unsubs     int

	max     int  // MaxConsecutiveRestarts
	backoff bool // RestartBackoff > 0
	model   bool

	// environment budgets
	holdsLeft   int  // manager calls that may still be held in flight
	failsLeft   int  // manager calls that may still fail
	altFail     bool // failures alternate between ConnectTo (even) and Restart (odd) instead of being placed freely
	holdFail    bool // a held call may also fail on release
	holdRestart bool // RestartDataTransferChannel calls may be held too (ConnectTo calls always may)
	slack       int  // see VerifC14_RestartRaces
	fails       int
	holdClose   bool // the first CloseDataTransferChannelWithError call is held in flight
	closeHeld   bool
	gate        chan struct{} // a held call waits here; verifRelease deposits one token
	held        int
	failed      string // native only: first failed check on a monitor goroutine

	// ghost counters
	connects          int
	restarts          int
	closes            int
	inFlight          int // ConnectTo / Restart calls entered and not yet returned
	pairOpen          bool
	attemptsSinceData int
	restartOKs        int
	completes         int
	shutSeen          bool // the harness has shown the monitor a cleaning-up / terminal status
	lateCalls         int  // ConnectTo / Restart calls entered after that
	lateLiveCalls     int  // ... whose context was not cancelled
	phaseExhausted    bool // (model off) attemptsSinceData reached max and a further failure followed
	closeCtxLive      bool // the context handed to the close call was still usable

	// reference model
	phase          int
	busy           bool
	queued         bool
	count          int
	wantDone       int  // OnRestartComplete calls due
	fromQueue      bool // the current round was started from the queue
	queuedRound    bool // ... and its ConnectTo has been seen
	anyFail        bool // a Connect/Restart failure happened in the current busy period
	closeByFail    bool // the close followed Connect/Restart failures (else: bound exhausted by successful attempts)
	sawQueued      bool // a restart queued during an attempt was performed
	sawHeld        bool // a manager call was held in flight and released
	resetAtMax     bool // a data event arrived when the count had reached max
	sawResetUseful bool // ... and a further attempt was made afterwards
}

func verifNewMgr(chid datatransfer.ChannelID, self peer.ID) *verifMgr {
	return &verifMgr{self: self, other: chid.OtherParty(self), chid: chid, gate: make(chan struct{}, 1)}
}

func (d *verifMgr) PeerID() peer.ID { return d.self }

func (d *verifMgr) SubscribeToEvents(sub datatransfer.Subscriber) datatransfer.Unsubscribe {
	d.subscribes++
	i := len(d.subs)
	d.subs = append(d.subs, sub)
	if d.firstSub == nil {
		d.firstSub = sub
	}
	return func() {
		d.unsubs++
		d.subs[i] = nil
	}
}

// verifDeliver hands an event to every current subscriber (synchronously, like the manager's pubsub).
func (d *verifMgr) verifDeliver(code datatransfer.EventCode, chid datatransfer.ChannelID, status datatransfer.Status) {
	for _, s := range d.subs {
		if s != nil {
			s(datatransfer.Event{Code: code}, verifChanState{chid: chid, status: status})
		}
	}
}

func (d *verifMgr) startRound() {
	d.count++
	if d.count > d.max {
		d.phase = verifWantClose
	} else {
		d.phase = verifWantConnect
	}
}

func (d *verifMgr) endRound() {
	if d.queued {
		d.queued = false
		d.fromQueue = true
		d.startRound()
		return
	}
	d.busy = false
	d.fromQueue = false
	d.anyFail = false
	d.phase = verifIdle
	d.wantDone++
}

// verifTrigger: the model's view of one debounced restart request reaching restartChannel.
func (d *verifMgr) verifTrigger() {
	if d.busy {
		d.queued = true
		return
	}
	d.busy = true
	d.fromQueue = false
	d.startRound()
}

// verifData: the model's view of a DataSent / DataReceived event.
func (d *verifMgr) verifData() {
	if d.count >= d.max {
		d.resetAtMax = true
	}
	d.count = 0
	d.attemptsSinceData = 0
}

func (d *verifMgr) outcome(mayHold, mayFail bool) bool {
	opts := []int{verifOK}
	if mayFail && d.failsLeft > 0 {
		opts = append(opts, verifFailNow)
	}
	if mayHold && d.holdsLeft > 0 {
		opts = append(opts, verifHoldOK)
		if mayFail && d.holdFail && d.failsLeft > 0 {
			opts = append(opts, verifHoldFail)
		}
	}
	o := opts[zz.Choice("mgr.outcome", len(opts))]
	fail := o == verifFailNow || o == verifHoldFail
	if fail {
		d.failsLeft--
		d.fails++
		if d.attemptsSinceData >= d.max {
			d.phaseExhausted = true
		}
	}
	if o == verifHoldOK || o == verifHoldFail {
		d.holdsLeft--
		d.held++
		<-d.gate
		d.held--
		d.sawHeld = true
	}
	return fail
}

// verifRelease lets the held manager call return (it resumes at the next zz.Settle).
func (d *verifMgr) verifRelease() {
	d.gate <- struct{}{}
}

func (d *verifMgr) enter(ctx context.Context) {
	if d.shutSeen {
		d.lateCalls++
		if ctx.Err() == nil {
			d.lateLiveCalls++
		}
	}
	d.inFlight++
	d.check(d.inFlight <= 1, "at most one reconnect/restart call is in flight at a time")
	zz.Yield()
}

func (d *verifMgr) ConnectTo(ctx context.Context, p peer.ID) error {
	d.connects++
	d.enter(ctx)
	d.check(p == d.other, "the monitor reconnects to the other party of the channel")
	d.check(!d.pairOpen, "a new reconnect+restart pair starts only after the previous one ended")
	d.pairOpen = true
	d.attemptsSinceData++
	d.check(d.attemptsSinceData <= d.max+d.slack, "no more than MaxConsecutiveRestarts attempts without data progress")
	if d.model {
		d.check(d.closes == 0, "no restart attempt starts after the channel was closed")
		d.check(d.phase == verifWantConnect, "ConnectTo although no restart attempt is due (extra or overlapping attempt)")
		d.phase = verifInConnect
		if d.resetAtMax {
			d.sawResetUseful = true
		}
		if d.fromQueue {
			d.queuedRound = true
		}
	}
	fail := d.outcome(true, !d.altFail || d.fails%2 == 0)
	d.inFlight--
	if fail {
		d.pairOpen = false
		if d.model {
			d.anyFail = true
			d.startRound()
		}
		return zz.Error("connectErr")
	}
	if d.model {
		d.phase = verifWantRestart
	}
	return nil
}

func (d *verifMgr) RestartDataTransferChannel(ctx context.Context, chid datatransfer.ChannelID) error {
	d.restarts++
	d.enter(ctx)
	d.check(chid == d.chid, "the monitor restarts its own channel")
	d.check(d.pairOpen, "a restart message is preceded by its reconnect")
	if d.model {
		d.check(d.phase == verifWantRestart, "RestartDataTransferChannel although the model expects another call")
		d.phase = verifInRestart
	}
	fail := d.outcome(d.holdRestart, !d.altFail || d.fails%2 == 1)
	d.inFlight--
	d.pairOpen = false
	if fail {
		if d.model {
			d.anyFail = true
			d.startRound()
		}
		return zz.Error("restartErr")
	}
	d.restartOKs++
	if d.model {
		if d.queuedRound {
			d.queuedRound = false
			d.sawQueued = true
		}
		if d.backoff && ctx.Err() == nil {
			d.phase = verifBackoff
		} else {
			d.endRound()
		}
	}
	return nil
}

func (d *verifMgr) CloseDataTransferChannelWithError(ctx context.Context, chid datatransfer.ChannelID, cherr error) error {
	d.closes++
	d.check(d.closes <= 1, "the channel is closed with an error at most once")
	if d.holdClose && d.closes == 1 {
		// the close itself is slow (it sends a message to the peer): the environment holds it
		d.closeHeld = true
		d.held++
		<-d.gate
		d.held--
		d.closeHeld = false
	}
	d.check(chid == d.chid, "the monitor closes its own channel")
	d.check(cherr != nil, "the close carries an error")
	d.closeCtxLive = ctx.Err() == nil
	if d.model {
		d.check(d.phase == verifWantClose, "closed with an error although attempts are not exhausted")
		d.phase = verifClosed
		d.closeByFail = d.anyFail
	}
	// the result is only logged by the monitor; vary it without forking
	if d.connects%2 == 1 {
		return zz.Error("closeErr")
	}
	return nil
}

func (d *verifMgr) onRestartComplete(id datatransfer.ChannelID) {
	d.completes++
	d.check(id == d.chid, "OnRestartComplete names the channel")
}

// check is zz.Assert for code that runs on the monitor's goroutines: natively a failed assertion
// must surface on the harness goroutine (the replay driver recovers only there), so it is recorded
// and raised by the next verifQuiescent.
func (d *verifMgr) check(c bool, msg string) {
	if zz.Engine() || c {
		zz.Assert(c, msg)
		return
	}
	if d.failed == "" {
		d.failed = msg
	}
}

// verifQuiescent: checked whenever every task is blocked or finished.
func (d *verifMgr) verifQuiescent() {
	if !zz.Engine() && d.failed != "" {
		zz.Assert(false, d.failed)
	}
	zz.Assert(d.inFlight == d.held, "every manager call still in flight is one the environment holds")
	zz.Assert(d.closes <= 1, "closed at most once")
	if !d.model {
		return
	}
	zz.Assert(d.phase != verifWantConnect, "a due restart attempt was not made (lost restart)")
	zz.Assert(d.phase != verifWantRestart, "reconnected but the restart message was not sent")
	zz.Assert(d.phase != verifWantClose, "attempts exhausted / failing persistently but the channel was not closed")
	zz.Assert(d.completes == d.wantDone, "OnRestartComplete is called exactly when a restart sequence ends with nothing queued")
	zz.Assert((d.phase == verifInConnect || d.phase == verifInRestart) == (d.held == 1), "an attempt is in flight exactly when a call is held")
}
