package channelmonitor

import (
	"context"
	"sync"

	"github.com/hannahhoward/go-pubsub"
	"github.com/libp2p/go-libp2p/core/peer"

	datatransfer "github.com/filecoin-project/go-data-transfer/v2"
	zz "github.com/filecoin-project/go-data-transfer/v2/zzverif"
)

// ---- property C20 at the channel monitor ------------------------------------------------
//
// The monitor is driven from several goroutines at once: the manager's pubsub delivers events
// on whatever goroutine caused them, the debouncer and the timers run on their own, users call
// AddPushChannel / AddPullChannel / Shutdown. Two concurrent operations out of that menu, the
// manager calls made by the monitor contain a scheduling point and may fail; the engine's
// happens-before detector (opts race) watches every access made by monitor code, and a path on
// which the harness entry cannot return is a deadlock.

// verifMgr20 is a monitorAPI double without any model of the restart protocol (that is C14).
// Events go through the same pubsub the manager uses (github.com/hannahhoward/go-pubsub,
// interpreted): subscribing / unsubscribing take its lock, publishing holds its read lock across
// the subscriber callbacks - exactly the synchronisation the monitor gets from the real manager.
type verifMgr20 struct {
	self  peer.ID
	ps    *pubsub.PubSub
	fails int
}

type verifEvt20 struct {
	evt datatransfer.Event
	st  datatransfer.ChannelState
}

func verifNewMgr20(self peer.ID) *verifMgr20 {
	return &verifMgr20{self: self, fails: 1, ps: pubsub.New(func(e pubsub.Event, fn pubsub.SubscriberFn) error {
		ev := e.(verifEvt20)
		fn.(datatransfer.Subscriber)(ev.evt, ev.st)
		return nil
	})}
}

func (d *verifMgr20) PeerID() peer.ID { return d.self }
func (d *verifMgr20) SubscribeToEvents(sub datatransfer.Subscriber) datatransfer.Unsubscribe {
	return datatransfer.Unsubscribe(d.ps.Subscribe(sub))
}
func (d *verifMgr20) call(label string) error {
	zz.Yield()
	if d.fails > 0 && zz.Bool(label+".fails") {
		d.fails--
		return zz.Error(label + ".err")
	}
	return nil
}
func (d *verifMgr20) ConnectTo(ctx context.Context, p peer.ID) error { return d.call("connect") }
func (d *verifMgr20) RestartDataTransferChannel(ctx context.Context, chid datatransfer.ChannelID) error {
	return d.call("restart")
}
func (d *verifMgr20) CloseDataTransferChannelWithError(ctx context.Context, chid datatransfer.ChannelID, cherr error) error {
	return d.call("close")
}
func (d *verifMgr20) deliver(code datatransfer.EventCode, chid datatransfer.ChannelID, status datatransfer.Status) {
	_ = d.ps.Publish(verifEvt20{datatransfer.Event{Code: code}, verifChanState{chid: chid, status: status}})
}

const verifNumOps20 = 12

func verifOp20(d *verifMgr20, m *Monitor, mc *monitoredChannel, chid datatransfer.ChannelID, k int) {
	chid2 := chid
	chid2.ID = chid.ID + 1
	switch k {
	case 0:
		_ = m.AddPushChannel(chid2)
	case 1:
		_ = m.AddPullChannel(chid)
	case 2:
		m.Shutdown()
	case 3:
		_ = mc.Shutdown()
	case 4:
		d.deliver(datatransfer.DataReceived, chid, datatransfer.Ongoing)
	case 5:
		d.deliver(datatransfer.SendDataError, chid, datatransfer.Ongoing)
		verifDebounceFlush(0)
	case 6:
		d.deliver(datatransfer.Accept, chid, datatransfer.Ongoing)
	case 7:
		d.deliver(datatransfer.FinishTransfer, chid, datatransfer.TransferFinished)
	case 8:
		d.deliver(datatransfer.Complete, chid, datatransfer.Completed)
	case 9:
		mc.restartChannel()
	case 10:
		verifFireN(1)
	case 11:
		_ = mc.isRestarting()
		_ = m.enabled()
	}
}

func verifMonitor20(backoff bool) (*verifMgr20, *Monitor, *monitoredChannel, datatransfer.ChannelID) {
	verifReset()
	chid := verifChid()
	d := verifNewMgr20(peer.ID("self"))
	cfg := &Config{
		MaxConsecutiveRestarts: 2,
		RestartDebounce:        verifTimeout,
		AcceptTimeout:          verifTimeout,
		CompleteTimeout:        verifTimeout,
	}
	if backoff {
		cfg.RestartBackoff = verifTimeout
	}
	m := NewMonitor(d, cfg)
	mc := m.AddPullChannel(chid)
	zz.Assert(mc != nil, "monitoring enabled")
	return d, m, mc, chid
}

// VerifC20_MonitorConcurrent: two concurrent operations on a monitor with one monitored pull
// channel (accept / complete timeouts armed, no backoff); afterwards every timer that is still
// live fires and the monitor is shut down.
//
//verif:opts race preempt=sync pb=1 sched=2 part0=6 part1=2 novalidate
func VerifC20_MonitorConcurrent() {
	d, m, mc, chid := verifMonitor20(false)
	a, b := zz.Choice("opA", verifNumOps20), zz.Choice("opB", verifNumOps20)
	var wg sync.WaitGroup
	wg.Add(2)
	go func() { defer wg.Done(); verifOp20(d, m, mc, chid, a) }()
	go func() { defer wg.Done(); verifOp20(d, m, mc, chid, b) }()
	wg.Wait()
	zz.Settle()
	zz.Reach("both calls returned")
	m.Shutdown()
	zz.Settle()
	zz.Reach("monitor shut down")
}

// VerifC20_MonitorConcurrentBackoff: the same with a restart backoff, so that a restart in
// progress is waiting on a timer while the second operation runs; three operations.
//
//verif:tier thorough
//verif:opts race preempt=sync pb=1 sched=2 part0=6 part1=2 novalidate
func VerifC20_MonitorConcurrentBackoff() {
	d, m, mc, chid := verifMonitor20(true)
	// the third operation is the one that starts restart activity (transport error + debounce
	// expiry), so that the other two run against a restart that is waiting on its backoff timer
	a, b, c := zz.Choice("opA", verifNumOps20), zz.Choice("opB", verifNumOps20), 5
	var wg sync.WaitGroup
	wg.Add(3)
	go func() { defer wg.Done(); verifOp20(d, m, mc, chid, a) }()
	go func() { defer wg.Done(); verifOp20(d, m, mc, chid, b) }()
	go func() { defer wg.Done(); verifOp20(d, m, mc, chid, c) }()
	wg.Wait()
	zz.Settle()
	for i := 0; i < 3 && zz.Engine() && zz.LiveTimers() > 0; i++ {
		zz.FireTimer()
		zz.Settle()
	}
	zz.Reach("all calls returned")
	m.Shutdown()
	zz.Settle()
	zz.Reach("monitor shut down")
}
