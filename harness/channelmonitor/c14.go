package channelmonitor

import (
	"github.com/libp2p/go-libp2p/core/peer"

	datatransfer "github.com/filecoin-project/go-data-transfer/v2"
	zz "github.com/filecoin-project/go-data-transfer/v2/zzverif"
)

// Property C14 - channel monitor: restarts serialized and bounded; one verdict per channel.
//
// All harnesses build the monitor through the real NewMonitor / AddPushChannel / AddPullChannel
// with the recording monitorAPI double of doubles.go and talk to it only the way the manager does:
// through the subscriber callback, the debounce expiry, timers and the results of manager calls.
// After every stimulus the harness lets all tasks run to quiescence (zz.Settle); a manager call
// that the environment *holds* stays in flight across stimuli - that is how "during an attempt"
// is produced deterministically (and reproducibly in native replay).

func verifChid() datatransfer.ChannelID {
	return datatransfer.ChannelID{Initiator: peer.ID("self"), Responder: peer.ID("other"), ID: 7}
}

// stimuli of the restart explorer
const (
	verifStErrFlush = iota // SendDataError/ReceiveDataError event and the debounce period expires
	verifStErr             // SendDataError/ReceiveDataError event, debounce still pending
	verifStFlush           // the debounce period expires
	verifStData            // DataSent/DataReceived event
	verifStFire            // the restart backoff timer fires
	verifStRelease         // the held manager call returns
)

// verifRestarts explores every sequence of `steps` enabled stimuli for every
// MaxConsecutiveRestarts in 1..3, with and without backoff, every pattern of ConnectTo/Restart
// results with at most max+extraFails failures, and at most `holds` manager calls held in flight.
func verifRestarts(steps, holds, extraFails, errOnly int, push bool) {
	verifReset()
	chid := verifChid()
	d := verifNewMgr(chid, peer.ID("self"))
	n := 1 + zz.Choice("max", 3)
	d.max = n
	d.model = true
	d.backoff = zz.Choice("backoff", 2) == 1
	d.holdsLeft = holds
	d.holdRestart = !push
	d.holdFail = !push
	d.altFail = push
	d.failsLeft = n + extraFails
	cfg := &Config{
		MaxConsecutiveRestarts: uint32(n),
		RestartDebounce:        verifTimeout,
		OnRestartComplete:      d.onRestartComplete,
	}
	if d.backoff {
		cfg.RestartBackoff = verifTimeout
	}
	m := NewMonitor(d, cfg)
	var mc *monitoredChannel
	if push {
		mc = m.AddPushChannel(chid)
	} else {
		mc = m.AddPullChannel(chid)
	}
	zz.Assert(mc != nil && d.subscribes == 1, "an enabled monitor subscribes once per channel")
	zz.Assert(verifTimers(0) == 0, "timeouts disabled: no timer exists")

	errs := 0
	datas := 0
	deliverErr := func() {
		code := datatransfer.SendDataError
		if errs%2 == 1 {
			code = datatransfer.ReceiveDataError
		}
		errs++
		d.verifDeliver(code, chid, datatransfer.Ongoing)
		zz.Settle() // the callback hands the error to the debouncer on its own goroutine
		zz.Assert(verifDebouncePending(0), "an error event arms the restart debouncer")
	}
	flush := func() {
		d.verifTrigger()
		zz.Assert(verifDebounceFlush(0), "flush with something pending")
	}

	// Revisit pruning: the future of a run is determined by the monitor's restart bookkeeping, the
	// model's state and the environment (pending debounce, held call, backoff timer = model phase).
	// When a stimulus leads back to a combination already seen on this path the rest of the run was
	// already explored from the earlier visit (with more steps and budget left), so the path stops.
	key := func() int {
		mc.restartLk.Lock()
		k := mc.consecutiveRestarts
		if mc.restartQueued {
			k += 10
		}
		if !mc.restartedAt.IsZero() {
			k += 20
		}
		mc.restartLk.Unlock()
		k = k*10 + d.count
		k = k*10 + d.phase
		if d.queued {
			k += 1000000
		}
		if d.busy {
			k += 2000000
		}
		if verifDebouncePending(0) {
			k += 4000000
		}
		return k
	}
	seen := []int{key()}

	for i := 0; i < steps; i++ {
		pending := verifDebouncePending(0)
		var opts []int
		if pending {
			// a further error event would only replace the pending function
			opts = append(opts, verifStFlush)
		} else {
			opts = append(opts, verifStErrFlush)
			if errOnly > 0 {
				opts = append(opts, verifStErr)
			}
		}
		if d.count > 0 {
			opts = append(opts, verifStData) // with count == 0 a data event changes nothing
		}
		if d.phase == verifBackoff {
			opts = append(opts, verifStFire)
		}
		if d.held > 0 {
			opts = append(opts, verifStRelease)
		}
		fired := true
		switch opts[zz.Choice("stimulus", len(opts))] {
		case verifStErrFlush:
			deliverErr()
			flush()
		case verifStErr:
			errOnly--
			deliverErr()
		case verifStFlush:
			flush()
		case verifStData:
			code := datatransfer.DataSent
			if datas%2 == 1 {
				code = datatransfer.DataReceived
			}
			datas++
			d.verifData()
			d.verifDeliver(code, chid, datatransfer.Ongoing)
		case verifStFire:
			d.endRound()
			fired = verifFireN(1)
		case verifStRelease:
			d.verifRelease()
		}
		zz.Settle()
		zz.Assert(fired, "the backoff timer is live while backing off")
		d.verifQuiescent()
		live := 0
		if d.phase == verifBackoff {
			live = 1
		}
		zz.Assert(verifTimers(live) == live, "the only timer is the backoff of the attempt in progress")
		if d.phase == verifClosed {
			break
		}
		k := key()
		for _, s := range seen {
			if s == k {
				return
			}
		}
		seen = append(seen, k)
	}

	if d.phase == verifClosed {
		// the verdict is final: the monitor has shut down and nothing restarts or closes again
		zz.Assert(d.closes == 1 && d.unsubs == 1, "closing shuts the monitored channel down (one unsubscribe)")
		m.lk.RLock()
		left := len(m.channels)
		m.lk.RUnlock()
		zz.Assert(left == 0, "a closed channel is forgotten by the monitor")
		connects, restarts := d.connects, d.restarts
		// a late error (debounce armed before the shutdown, or an event already being published)
		mc.restartChannelDebounced(zz.Error("late"))
		flush()
		zz.Settle()
		d.verifQuiescent()
		zz.Assert(d.closes == 1 && d.connects == connects && d.restarts == restarts, "after the close nothing is restarted or closed again")
		if d.closeByFail {
			zz.Reach("connect/restart failure -> close")
		} else {
			zz.Reach("bound exhausted -> close")
		}
	}
	if d.restartOKs > 0 {
		zz.Reach("restart performed")
	}
	if d.sawQueued {
		zz.Reach("queued restart performed")
	}
	if d.sawHeld {
		zz.Reach("manager call held in flight and released")
	}
	if d.sawResetUseful {
		zz.Reach("attempt allowed only because data progress reset the count")
	}
	if d.phase == verifIdle && d.restartOKs >= 2 && d.closes == 0 {
		zz.Reach("several restart sequences completed, channel still open")
	}
}

// VerifC14_Restarts: restart clauses of C14, <= 6 stimuli, one call held in flight at most.
//
//verif:opts sched=8 replay=engine
func VerifC14_Restarts() { verifRestarts(6, 1, 0, 1, true) }

// VerifC14_RestartsDeep: <= 9 stimuli with the budgets of the quick harness.
//
//verif:tier thorough
//verif:opts sched=10 fuel=60
func VerifC14_RestartsDeep() { verifRestarts(9, 1, 0, 1, true) }

// VerifC14_RestartsWide: <= 5 stimuli with the budgets opened up: two calls may be held (ConnectTo
// or RestartDataTransferChannel), a held call may fail on release, failures are placed freely and
// one more failure than needed to exhaust the bound is available, two un-flushed error events.
//
//verif:tier thorough
//verif:opts sched=10 fuel=60
func VerifC14_RestartsWide() { verifRestarts(5, 2, 1, 2, false) }

// stimuli of the timeout explorer
const (
	verifTmAccept   = iota // Accept event
	verifTmFinish          // FinishTransfer event
	verifTmFire            // one live timer fires
	verifTmFireAll         // every live timer fires before any watcher runs
	verifTmTerminal        // the channel is seen cleaning up / terminal
)

// VerifC14_Timeouts: accept / complete timeouts close the channel exactly when the awaited event
// did not arrive before the timer fired; never when disabled; never after the monitor shut down.
//
//verif:opts sched=8 replay=engine
func VerifC14_Timeouts() {
	verifReset()
	chid := verifChid()
	d := verifNewMgr(chid, peer.ID("self"))
	d.max = 1
	acceptOn := zz.Choice("acceptTimeout", 2) == 1
	completeOn := zz.Choice("completeTimeout", 2) == 1
	cfg := &Config{MaxConsecutiveRestarts: 1, RestartDebounce: verifTimeout}
	if acceptOn {
		cfg.AcceptTimeout = verifTimeout
	}
	if completeOn {
		cfg.CompleteTimeout = verifTimeout
	}
	m := NewMonitor(d, cfg)
	mc := m.AddPushChannel(chid)
	zz.Assert(mc != nil, "monitoring enabled")

	accLive, compLive := 0, 0 // timers the property says are running
	if acceptOn {
		accLive = 1
	}
	wantClose := false
	shut := false
	finishes := 0
	accepted := false
	cancelled := false
	byAccept, byComplete := false, false
	firedMismatch, timerMismatch := false, false

	for i := 0; i < 4; i++ {
		var opts []int
		if !accepted {
			opts = append(opts, verifTmAccept)
		}
		if finishes < 2 {
			opts = append(opts, verifTmFinish)
		}
		opts = append(opts, verifTmFire)
		if accLive+compLive >= 2 {
			opts = append(opts, verifTmFireAll)
		}
		if !shut {
			opts = append(opts, verifTmTerminal)
		}
		stim := opts[zz.Choice("stimulus", len(opts))]
		fired, firedWant := false, false
		switch stim {
		case verifTmAccept:
			accepted = true
			d.verifDeliver(datatransfer.Accept, chid, datatransfer.Ongoing)
			if !shut {
				if accLive == 1 {
					cancelled = true
				}
				accLive = 0
			}
		case verifTmFinish:
			finishes++
			d.verifDeliver(datatransfer.FinishTransfer, chid, datatransfer.TransferFinished)
			if !shut && completeOn {
				compLive++
			}
		case verifTmFire, verifTmFireAll:
			live := accLive + compLive
			k := 1
			if stim == verifTmFireAll {
				k = live
			}
			fired = verifFireN(k)
			firedWant = live > 0
			if live > 0 {
				wantClose = true
				shut = true
				byAccept = accLive > 0 && compLive == 0
				byComplete = accLive == 0
				accLive, compLive = 0, 0
			}
		case verifTmTerminal:
			d.verifDeliver(datatransfer.Complete, chid, datatransfer.Completing)
			shut = true
			accLive, compLive = 0, 0
		}
		zz.Settle()
		d.verifQuiescent()
		want := 0
		if wantClose {
			want = 1
		}
		zz.Assert(d.closes == want, "closed with an error exactly when an awaited event did not arrive before its timeout")
		zz.Assert(d.connects == 0 && d.restarts == 0, "timeouts never restart")
		// engine-only observations (natively timers are real and cannot be counted): recorded per
		// step, reported at the end so that the observable consequence is met first
		if zz.Engine() && fired != firedWant {
			firedMismatch = true
		}
		if verifTimers(accLive+compLive) != accLive+compLive {
			timerMismatch = true
		}
		if shut {
			zz.Assert(d.unsubs == 1, "shut down: unsubscribed once")
		}
	}
	zz.Assert(!firedMismatch, "a timer can fire exactly when a timeout is being awaited")
	zz.Assert(!timerMismatch, "exactly the awaited timeouts have a live timer")
	if !acceptOn && !completeOn {
		zz.Assert(d.closes == 0, "timeouts disabled: never closed")
		zz.Reach("timeouts disabled")
	}
	if wantClose && byAccept {
		zz.Reach("accept timeout close")
	}
	if wantClose && byComplete {
		zz.Reach("complete timeout close")
	}
	if cancelled && !wantClose {
		zz.Reach("accept timer cancelled, no close")
	}
	if shut && !wantClose {
		zz.Reach("shutdown before the timer, no close")
	}
}

// verifSnapshot is everything the environment can observe of the monitor.
type verifSnapshot struct {
	subscribes, unsubs, connects, restarts, closes, completes int
	pending                                                   bool
	debounceCalls                                             int
	timers                                                    int
	channels                                                  int
}

func verifSnap(d *verifMgr, m *Monitor) verifSnapshot {
	s := verifSnapshot{subscribes: d.subscribes, unsubs: d.unsubs, connects: d.connects, restarts: d.restarts,
		closes: d.closes, completes: d.completes, pending: verifDebouncePending(0)}
	if len(verifDebouncers) > 0 {
		s.debounceCalls = verifDebouncers[0].calls
	}
	s.timers = verifTimers(0)
	m.lk.RLock()
	s.channels = len(m.channels)
	m.lk.RUnlock()
	return s
}

var verifEndStatuses = [6]datatransfer.Status{datatransfer.Cancelling, datatransfer.Failing, datatransfer.Completing,
	datatransfer.Cancelled, datatransfer.Failed, datatransfer.Completed}

// what the monitored channel is doing when the terminal status is seen
const (
	verifPreNothing  = iota
	verifPrePending  // an error event armed the debouncer, not yet expired
	verifPreInFlight // a restart attempt is in flight (ConnectTo held by the environment)
	verifPreQueued   // ... and a second restart is queued behind it
	verifPreFinish   // FinishTransfer seen: the complete timer is running
	verifPreAccepted // Accept seen: the accept timer was cancelled
	verifPreCount
)

// things that can still happen after the monitor has seen the channel cleaning up / terminal
const (
	verifPostFlush    = iota // the debounce period of an earlier error expires
	verifPostRelease         // the held manager call returns
	verifPostFire            // the environment tries to fire a timer
	verifPostTerminal        // another cleaning-up / terminal event was already being published
	verifPostErr             // an error event was already being published (delivered despite the unsubscribe)
)

// verifBusyFixture builds an enabled monitor (all timeouts on) for one channel and puts the
// monitored channel into one of the verifPre* situations. ok=false: the environment did not hold
// the call in a situation that needs it (run not of interest).
func verifBusyFixture(max int) (d *verifMgr, m *Monitor, mc *monitoredChannel, chid datatransfer.ChannelID, pre int, ok bool) {
	verifReset()
	self := peer.ID("self")
	chid = verifChid()
	d = verifNewMgr(chid, self)
	d.max = max
	d.holdsLeft = 1
	d.failsLeft = 2
	d.altFail = true
	cfg := &Config{
		MaxConsecutiveRestarts: uint32(d.max),
		RestartDebounce:        verifTimeout,
		AcceptTimeout:          verifTimeout,
		CompleteTimeout:        verifTimeout,
		OnRestartComplete:      d.onRestartComplete,
	}
	m = NewMonitor(d, cfg)
	mc = m.AddPullChannel(chid)
	zz.Assert(mc != nil && d.subscribes == 1, "monitoring enabled")

	pre = zz.Choice("pre", verifPreCount)
	switch pre {
	case verifPrePending:
		d.verifDeliver(datatransfer.SendDataError, chid, datatransfer.Ongoing)
	case verifPreInFlight, verifPreQueued:
		d.verifDeliver(datatransfer.ReceiveDataError, chid, datatransfer.Ongoing)
		zz.Settle()
		verifDebounceFlush(0)
		zz.Settle()
		if d.held == 0 {
			return d, m, mc, chid, pre, false
		}
		if pre == verifPreQueued {
			d.verifDeliver(datatransfer.SendDataError, chid, datatransfer.Ongoing)
			zz.Settle()
			verifDebounceFlush(0)
		}
	case verifPreFinish:
		d.verifDeliver(datatransfer.FinishTransfer, chid, datatransfer.TransferFinished)
	case verifPreAccepted:
		d.verifDeliver(datatransfer.Accept, chid, datatransfer.Ongoing)
	}
	zz.Settle()
	d.verifQuiescent()
	return d, m, mc, chid, pre, true
}

// VerifC14_OtherChannelIgnored: whatever the monitored channel is doing, an event whose state
// belongs to ANOTHER channel ID (any code, cleaning-up/terminal status or not) changes nothing:
// no unsubscribe, no timer started or stopped, no debounce armed, no manager call, channel kept.
func VerifC14_OtherChannelIgnored() {
	d, m, _, chid, _, ok := verifBusyFixture(1)
	if !ok {
		return
	}
	other := datatransfer.ChannelID{
		Initiator: peer.ID(zz.String("other.Initiator")),
		Responder: peer.ID(zz.String("other.Responder")),
		ID:        datatransfer.TransferID(zz.Uint64("other.ID")),
	}
	zz.Assume(other != chid)
	before := verifSnap(d, m)
	otherCodes := [6]datatransfer.EventCode{datatransfer.Accept, datatransfer.SendDataError, datatransfer.ReceiveDataError,
		datatransfer.FinishTransfer, datatransfer.DataSent, datatransfer.Complete}
	oc := zz.Choice("other.code", 6)
	os := datatransfer.Ongoing
	if zz.Choice("other.terminal", 2) == 1 {
		os = verifEndStatuses[oc]
	}
	d.verifDeliver(otherCodes[oc], other, os)
	zz.Settle()
	zz.Assert(verifSnap(d, m) == before, "an event for another channel ID is ignored entirely")
	zz.Reach("event for another channel ignored")

}

// VerifC14_ShutdownOnTerminal: once the subscriber has seen a cleaning-up or terminal status for ITS
// channel the monitor unsubscribes exactly once, forgets the channel, cancels the channel context,
// leaves no timer running, and nothing that happens later (timers, a pending debounce, the outcome
// of an attempt that was in flight, late events) closes the channel.
//
// About restarts after the shutdown: an attempt that was in flight runs to its end, and a restart
// request that was already debounced/queued is still issued - but only with the channel context,
// which is cancelled; asserted here as "every manager call entered after the shutdown carries a
// cancelled context" (the property itself only demands that nothing closes the channel).
//
//verif:opts sched=4 thorough.sched=8
func VerifC14_ShutdownOnTerminal() {
	d, m, mc, chid, _, ok := verifBusyFixture(1)
	if !ok {
		return
	}
	// --- the channel is seen cleaning up / terminal ---
	status := verifEndStatuses[zz.Choice("status", 6)]
	d.shutSeen = true
	d.verifDeliver(datatransfer.CleanupComplete, chid, status)
	if zz.Choice("twice", 2) == 1 {
		// the next event (e.g. Completing then Completed) arrives before the asynchronous Shutdown ran
		d.verifDeliver(datatransfer.Complete, chid, status)
	}
	zz.Settle()
	verifAfterShutdown(d, m, mc, chid, status, 0)
	zz.Reach("shutdown on terminal")
}

// VerifC14_OneVerdict: a timeout closes the channel while it is idle, has a debounce pending, or
// has a restart attempt in flight (possibly with another one queued): that close is the only one -
// the outcome of the attempt in flight (including exhausting the restart bound), the queued
// restart, the pending debounce, other timers and late events never close the channel again.
//
//verif:opts sched=4 thorough.sched=8
func VerifC14_OneVerdict() {
	d, m, mc, chid, pre, ok := verifBusyFixture(1)
	if !ok || pre == verifPreAccepted {
		return // accept timer cancelled and no complete timer: nothing can time out
	}
	d.shutSeen = true
	fired := verifFireN(1) // the accept timer, or (after FinishTransfer) possibly the complete timer
	zz.Settle()
	zz.Assert(fired, "an awaited timeout has a live timer")
	verifAfterShutdown(d, m, mc, chid, datatransfer.Failing, 1)
	zz.Reach("timeout close is the only close")
}

// verifAfterShutdown: the monitored channel has shut down (closes = number of error closes so far);
// checks the shutdown itself and that nothing which can still happen closes the channel (again).
func verifAfterShutdown(d *verifMgr, m *Monitor, mc *monitoredChannel, chid datatransfer.ChannelID, status datatransfer.Status, closes int) {
	sub := d.subs[0]
	if sub == nil {
		sub = d.firstSub // the callback itself, for events that were already being published
	}
	check := func() {
		d.verifQuiescent()
		zz.Assert(d.unsubs == 1, "unsubscribed exactly once")
		m.lk.RLock()
		left := len(m.channels)
		m.lk.RUnlock()
		zz.Assert(left == 0, "the monitor forgets the channel")
		zz.Assert(mc.ctx.Err() != nil, "the channel context is cancelled")
		zz.Assert(d.closes == closes, "after the shutdown nothing closes the channel (again)")
		zz.Assert(d.lateLiveCalls == 0, "manager calls entered after the shutdown carry the cancelled channel context")
		zz.Assert(verifTimers(0) == 0, "no timer outlives the shutdown")
	}
	check()

	// --- later happenings ---
	for i := 0; i < 3; i++ {
		var opts []int
		if verifDebouncePending(0) {
			opts = append(opts, verifPostFlush)
		}
		if d.held > 0 {
			opts = append(opts, verifPostRelease)
		}
		if i == 0 {
			opts = append(opts, verifPostFire, verifPostTerminal)
			if !verifDebouncePending(0) {
				opts = append(opts, verifPostErr)
			}
		}
		if len(opts) == 0 {
			break
		}
		switch opts[zz.Choice("post", len(opts))] {
		case verifPostFlush:
			verifDebounceFlush(0)
		case verifPostRelease:
			d.verifRelease()
		case verifPostFire:
			fired := verifFireN(1)
			zz.Assert(!zz.Engine() || !fired, "no timer is left to fire")
		case verifPostTerminal:
			sub(datatransfer.Event{Code: datatransfer.Complete}, verifChanState{chid: chid, status: status})
		case verifPostErr:
			sub(datatransfer.Event{Code: datatransfer.SendDataError}, verifChanState{chid: chid, status: datatransfer.Ongoing})
		}
		zz.Settle()
		check()
	}
	if d.lateCalls > 0 {
		zz.Reach("restart issued after the shutdown, with the cancelled context only")
	}
	if d.lateCalls > 0 && d.phaseExhausted {
		zz.Reach("attempts exhausted after the shutdown: no (second) close")
	}
}

// VerifC14_Disabled: with monitoring disabled (nil config) nothing is subscribed, restarted or
// closed; with monitoring enabled a duplicate add is refused without a second subscription.
func VerifC14_Disabled() {
	verifReset()
	chid := verifChid()
	d := verifNewMgr(chid, peer.ID("self"))
	if zz.Choice("enabled", 2) == 0 {
		m := NewMonitor(d, nil)
		var mc *monitoredChannel
		if zz.Choice("push", 2) == 1 {
			mc = m.AddPushChannel(chid)
		} else {
			mc = m.AddPullChannel(chid)
		}
		zz.Settle()
		zz.Assert(mc == nil, "disabled: add returns nil")
		zz.Assert(d.subscribes == 0 && d.connects == 0 && d.restarts == 0 && d.closes == 0, "disabled: the manager sees no call at all")
		zz.Assert(len(verifDebouncers) == 0, "disabled: no debouncer is created")
		zz.Assert(len(m.channels) == 0, "disabled: nothing is tracked")
		zz.Assert(verifTimers(0) == 0, "disabled: no timer")
		zz.Assert(!zz.Engine() || !zz.FireTimer(), "disabled: nothing to fire")
		zz.Reach("disabled")
		return
	}
	cfg := &Config{MaxConsecutiveRestarts: 1, AcceptTimeout: verifTimeout, CompleteTimeout: verifTimeout}
	m := NewMonitor(d, cfg)
	first := zz.Choice("first", 2) == 1
	second := zz.Choice("second", 2) == 1
	add := func(push bool) *monitoredChannel {
		if push {
			return m.AddPushChannel(chid)
		}
		return m.AddPullChannel(chid)
	}
	mc1 := add(first)
	zz.Assert(mc1 != nil && d.subscribes == 1, "first add monitors the channel")
	before := verifSnap(d, m)
	mc2 := add(second)
	zz.Settle()
	zz.Assert(mc2 == nil, "duplicate add returns nil")
	zz.Assert(verifSnap(d, m) == before, "duplicate add: no second subscription, timer or debouncer")
	zz.Assert(len(verifDebouncers) == 1 && m.channels[chid] == mc1, "the first monitored channel stays")
	zz.Reach("duplicate add refused")
	// a different channel is monitored independently
	chid2 := chid
	chid2.ID = 8
	mc3 := m.AddPushChannel(chid2)
	zz.Assert(mc3 != nil && d.subscribes == 2 && len(m.channels) == 2, "another channel gets its own monitor")
}

// VerifC14_RestartRaces: fine-grained interleavings. Two debounced restart requests and a data
// event run concurrently and may be pre-empted at every lock operation / shared access inside the
// monitor's restart bookkeeping (the other harnesses switch tasks only at manager calls). Checked:
// never two manager calls in flight, at most one close, and no lost restart - if the channel was
// not closed, each of the two requests resulted in one successful restart (its own or the queued
// one) and the monitor is idle again.
//
//verif:tier thorough
//verif:opts preempt sched=9 preemptfn=(*github.com/filecoin-project/go-data-transfer/v2/channelmonitor.monitoredChannel).restartChannel,(*github.com/filecoin-project/go-data-transfer/v2/channelmonitor.monitoredChannel).doRestartChannel,(*github.com/filecoin-project/go-data-transfer/v2/channelmonitor.monitoredChannel).resetConsecutiveRestarts
func VerifC14_RestartRaces() {
	verifReset()
	chid := verifChid()
	d := verifNewMgr(chid, peer.ID("self"))
	d.max = 2 + zz.Choice("max", 2)
	d.failsLeft = zz.Choice("fails", 2)
	d.slack = 1 // a data event may land between the monitor's count++ and the ConnectTo it allows
	cfg := &Config{MaxConsecutiveRestarts: uint32(d.max), RestartDebounce: verifTimeout, OnRestartComplete: d.onRestartComplete}
	m := NewMonitor(d, cfg)
	mc := m.AddPushChannel(chid)
	zz.Assert(mc != nil, "monitoring enabled")

	go mc.restartChannel() // what the debounced function does when its quiet period expires
	go mc.restartChannel()
	if zz.Choice("data", 2) == 1 {
		zz.Yield()
		d.attemptsSinceData = 0
		d.verifDeliver(datatransfer.DataSent, chid, datatransfer.Ongoing)
	}
	zz.Settle()
	d.verifQuiescent()
	zz.Assert(d.closes <= 1, "closed at most once")
	if d.closes == 0 {
		zz.Assert(d.restartOKs == 2, "each restart request is performed exactly once (directly or from the queue)")
		zz.Assert(!mc.isRestarting() && d.completes >= 1, "the monitor is idle again")
		zz.Reach("both racing restart requests performed")
	} else {
		zz.Assert(d.fails > 0, "only failures can exhaust a bound of two or more with two requests")
	}
	_ = m
}

// VerifC14_SecondTriggerDuringClose: the close of the channel is itself slow (it talks to the
// peer). While the first close is still in flight a SECOND reason to fail the channel arrives
// (the other timeout expires, or a restart fails persistently). The channel must still be closed
// with an error at most once in total, and the monitor must already have shut down (unsubscribed)
// when the first close started.
//
//verif:opts sched=8 replay=engine
func VerifC14_SecondTriggerDuringClose() {
	verifReset()
	self := peer.ID("self")
	chid := verifChid()
	d := verifNewMgr(chid, self)
	d.max = 1
	d.failsLeft = 3
	d.holdClose = true
	cfg := &Config{
		MaxConsecutiveRestarts: 1,
		RestartDebounce:        verifTimeout,
		AcceptTimeout:          verifTimeout,
		CompleteTimeout:        verifTimeout,
		OnRestartComplete:      d.onRestartComplete,
	}
	m := NewMonitor(d, cfg)
	mc := m.AddPullChannel(chid)
	zz.Assert(mc != nil && d.subscribes == 1, "monitoring enabled")
	sub := d.firstSub
	// the initiator finished: the complete timer runs next to the accept timer
	d.verifDeliver(datatransfer.FinishTransfer, chid, datatransfer.TransferFinished)
	zz.Settle()
	// first reason: one of the two timers expires -> close (held in flight)
	fired := verifFireN(1)
	zz.Settle()
	zz.Assert(fired, "a timer was live")
	zz.Assert(d.closes == 1 && d.closeHeld, "the first timeout closes the channel; the close is in flight")
	zz.Assert(d.unsubs == 1, "the monitor shut down before it started closing")
	// second reason while the close is in flight
	switch zz.Choice("second", 2) {
	case 0:
		verifFireN(1) // the other timer, if it is still live
		zz.Reach("second timeout during the close")
	case 1:
		// an error event that was already being published when the monitor unsubscribed
		sub(datatransfer.Event{Code: datatransfer.SendDataError}, verifChanState{chid: chid, status: datatransfer.Ongoing})
		zz.Settle()
		verifDebounceFlush(0)
		zz.Reach("restart failure during the close")
	}
	zz.Settle()
	zz.Assert(d.closes == 1, "closed with an error at most once in total")
	d.verifRelease()
	zz.Settle()
	zz.Assert(d.closes == 1 && !d.closeHeld, "still exactly one close after the first one returned")
	zz.Assert(d.unsubs == 1, "unsubscribed exactly once")
}
