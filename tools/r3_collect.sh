#!/bin/bash
# usage: tools/r3_collect.sh <PROP> : round-3 outputs /tmp/seed/out/<PROP>r3/{1,2} -> /tmp/seed/out/<PROP>/{5,6}
P=$1
for k in 1 2; do
  src=/tmp/seed/out/${P}r3/$k; dst=/tmp/seed/out/$P/$((k+4))
  [ -f $src/patch.diff ] || continue
  mkdir -p $dst; cp $src/patch.diff $src/demo_test.go $dst/; [ -f $src/README.md ] && cp $src/README.md $dst/
done
