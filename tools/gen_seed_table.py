#!/usr/bin/env python3
"""Annotates /verif/seeded/*/meta.json with the harnesses that catch each change (from seeded/recheck.log)
and regenerates the table of DESIGN.md §0.6 between the SEED-TABLE markers."""
import json, os, re
caught = {}
for l in open('/verif/seeded/recheck.log'):
    m = re.match(r'(C\d\d-\d) rc=(\d) caught_by=(.*)', l.strip())
    if m:
        caught[m.group(1)] = (m.group(2), m.group(3))
rows = []
tot = hit = 0
for d in sorted(os.listdir('/verif/seeded')):
    mp = f'/verif/seeded/{d}/meta.json'
    if not os.path.exists(mp):
        continue
    m = json.load(open(mp))
    rc, by = caught.get(d, ('?', ''))
    m['detected_by'] = [x for x in by.split(',') if x]
    m['check_exit'] = int(rc) if rc != '?' else None
    json.dump(m, open(mp, 'w'), indent=1)
    tot += 1
    hit += 1 if rc == '1' else 0
    by2 = ', '.join(x.replace('Verif', '').replace(m['property'] + '_', '') for x in by.split(',') if x) or '— (not caught: ' + m.get('not_caught_reason', 'see text') + ')'
    rows.append(f"| {d} | {m['change']} | {m['needs_to_manifest']} | {by2} |")
table = "| id | change | needs, to manifest | caught by (harness of that property) |\n|---|---|---|---|\n" + "\n".join(rows) + "\n"
p = '/verif/DESIGN.md'
s = open(p).read()
a, b = s.index('<!-- SEED-TABLE-BEGIN -->'), s.index('<!-- SEED-TABLE-END -->')
s = s[:a] + '<!-- SEED-TABLE-BEGIN -->\n' + f"({hit} of {tot} caught by the quick check of their property)\n\n" + table + s[b:]
open(p, 'w').write(s)
print(hit, 'of', tot)
