#!/bin/bash
# usage: tools/r2_collect.sh <PROP>
# Renumbers the round-2 output of a seeding sub-agent (/tmp/seed/out/<PROP>r2/{1,2}) to
# /tmp/seed/out/<PROP>/{3,4} so that tools/seedcheck.sh / mk_seeded.py treat them like round 1.
P=$1
for k in 1 2; do
  src=/tmp/seed/out/${P}r2/$k; dst=/tmp/seed/out/$P/$((k+2))
  [ -f $src/patch.diff ] || continue
  mkdir -p $dst; cp $src/patch.diff $src/demo_test.go $dst/; [ -f $src/README.md ] && cp $src/README.md $dst/
done
ls /tmp/seed/out/$P
