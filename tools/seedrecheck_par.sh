#!/bin/bash
# usage: tools/seedrecheck_par.sh [lanes] : like seedrecheck.sh over /verif/seeded, N lanes in parallel; writes seeded/recheck.log
LANES=${1:-2}
SRC=/verif/seeded
OUT=$SRC/recheck.log
TMP=$(mktemp -d /var/tmp/recheck.XXXX)
ls -d $SRC/*/ | sort > $TMP/all
split -n r/$LANES $TMP/all $TMP/lane.
for f in $TMP/lane.*; do
 ( for d in $(cat $f); do
    id=$(basename $d); prop=${id%%-*}
    S=$TMP/rc.$id; rm -rf $S; cp -r /repo $S; rm -rf $S/.git
    (cd $S && patch -p1 -s < $d/patch.diff) || { echo "$id PATCH-FAILED"; rm -rf $S; continue; }
    case $prop in
      C03|C06|C12|C13|C15) out=$(cd /verif && VERIF_REPO=$S ./bin/symgo check --property $prop --no-evidence 2>&1) ;; # have native-only harnesses
      *) out=$(cd /verif && VERIF_NO_NATIVE=1 VERIF_REPO=$S ./bin/symgo check --property $prop --no-evidence --validate 0 2>&1) ;;
    esac
    rc=$?
    harn=$(echo "$out" | grep -A1 "^VIOLATION" | grep "harness=" | sed 's/.*harness=\([A-Za-z0-9_]*\).*/\1/' | sort -u | paste -sd,)
    echo "$id rc=$rc caught_by=$harn"
    rm -rf $S
  done > $f.out ) &
done
wait
cat $TMP/lane.*.out | sort > $OUT
rm -rf $TMP
cat $OUT | awk '{print $2}' | sort | uniq -c
