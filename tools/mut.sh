#!/bin/bash
# usage: tools/mut.sh <prop> <file> <python-replace-old> <python-replace-new>
# applies a textual mutation to a scratch copy of /repo and runs the property's quick check against it.
set -e
PROP=$1; FILE=$2; OLD=$3; NEW=$4
S=/tmp/mrepo.$$
rm -rf $S; cp -r /repo $S; rm -rf $S/.git
python3 - "$S/$FILE" "$OLD" "$NEW" <<'PY'
import sys
p,old,new=sys.argv[1:4]
s=open(p).read()
assert s.count(old)>=1, "pattern not found"
s=s.replace(old,new,1)
open(p,'w').write(s)
PY
(cd $S && GOFLAGS=-mod=readonly GOPROXY=off go build ./... ) || { echo "MUTANT DOES NOT COMPILE"; rm -rf $S; exit 2; }
VERIF_REPO=$S ${VERIF_BIN:-/verif/bin/symgo} check --property $PROP --no-evidence 2>&1 | grep -E "^VIOLATION|^  harness|^INCONCLUSIVE|^C[0-9][0-9] tier" | cut -c1-300
rm -rf $S
