#!/bin/bash
# usage: tools/seedcheck.sh <PROP> <k> [src dir default /tmp/seed/out]
# Confirms a seeded change (patch compiles, pinned suite passes with it, demo fails with / passes without)
# (DEMOFLAGS=-race for demonstrations that need Go's race detector) in a scratch worktree of /repo, then runs the property's quick check against the patched tree.
PROP=$1; K=$2; SRC=${3:-/tmp/seed/out}
D=$SRC/$PROP/$K
W=/tmp/sc.$PROP.$K
OUT=$D/confirm.log
: > $OUT
git -C /repo worktree remove --force $W 2>/dev/null; rm -rf $W
git -C /repo worktree add -q --detach $W HEAD || exit 2
cd $W
DIR=$(head -1 $D/demo_test.go | sed -n 's,^// *dir: *\(.*\)$,\1,p' | tr -d ' ')
[ -z "$DIR" ] && DIR=impl
cp $D/demo_test.go $W/$DIR/zz_seed_demo_test.go
export GOFLAGS=-mod=mod GOPROXY=off
TESTNAMES=$(grep -o '^func Test[A-Za-z0-9_]*' $D/demo_test.go | sed 's/func //' | paste -sd'|')
echo "demo dir=$DIR tests=$TESTNAMES" >> $OUT
go test $DEMOFLAGS -vet=off -count=1 -run "^($TESTNAMES)\$" ./$DIR > $D/demo_clean.log 2>&1; RC_CLEAN=$?
git apply $D/patch.diff || { echo "PATCH DOES NOT APPLY" >> $OUT; exit 2; }
go build ./... >> $OUT 2>&1 || { echo "DOES NOT COMPILE" >> $OUT; }
go test $DEMOFLAGS -vet=off -count=1 -run "^($TESTNAMES)\$" ./$DIR > $D/demo_patched.log 2>&1; RC_PATCHED=$?
rm -f $W/$DIR/zz_seed_demo_test.go
go test -vet=off -count=1 -timeout 25m ./... > $D/suite_confirm.log 2>&1; RC_SUITE=$?
if [ $RC_SUITE -ne 0 ]; then
  # timing-flaky packages under load: re-run the failing packages once
  FAILP=$(grep '^FAIL' $D/suite_confirm.log | awk '{print $2}' | grep / | sort -u)
  RC_SUITE=0
  for p in $FAILP; do go test -vet=off -count=1 -timeout 25m $p >> $D/suite_confirm.log 2>&1 || RC_SUITE=1; done
fi
echo "demo_clean_rc=$RC_CLEAN demo_patched_rc=$RC_PATCHED suite_rc=$RC_SUITE" >> $OUT
git checkout go.mod go.sum 2>/dev/null
cd /verif
VERIF_REPO=$W ./bin/symgo check --property $PROP --no-evidence > $D/check.log 2>&1; RC_CHECK=$?
echo "check_rc=$RC_CHECK" >> $OUT
grep -E "^VIOLATION|^  harness|^INCONCLUSIVE" $D/check.log | cut -c1-300 >> $OUT
git -C /repo worktree remove --force $W
cat $OUT
