#!/usr/bin/env python3
"""Regenerates /verif/MANIFEST.json from the table below (kept in one place so it stays valid)."""
import json, os
V = "/verif"
ENGINE = "symgo"
claimed = {
 "C19": dict(
   text="Bounded symbolic model checking of the real accessor, FSM-action and manager code: every accessor of channels.channelState is executed from SSA on an arbitrary record (all scalar fields symbolic, 1-2 vouchers, 0-2 results) and on channels made by the real CreateNew; z3 decides every assertion and implicit no-panic obligation for all field values, cvc5 cross-checks. Right level: the property is 'for every state', which one symbolic record covers; logs are bounded at 2(+1).",
   note="Trusted: the SSA->SMT executor (/verif/engine), z3/cvc5, the FSM group model (harness/channels/group.go, validated against go-statemachine), string contents abstracted to identities, log lengths <= 2.",
   ref="DESIGN.md §4 C19"),
}
na_reason = {
 "C20": "whole-program pre-emptive data-race/deadlock freedom over reflection-driven dependencies cannot be encoded by this SSA->SMT executor; the lock-free kernels and the close-hang are decided under C07/C08/C09/C18",
}
props = [json.loads(l)["id"] for l in open(f"{V}/properties.jsonl")]
checks = []
for pid in props:
    if pid not in claimed: continue
    c = claimed[pid]
    checks.append({
      "property_id": pid,
      "quick_cmd": f"{V}/bin/symgo check --property {pid} --tier quick",
      "thorough_cmd": f"{V}/bin/symgo check --property {pid} --tier thorough",
      "evidence_file": f"{V}/evidence/{pid}.json",
      "replay_cmd_template": f"{V}/bin/symgo replay {{path}}",
      "engine": ENGINE,
      "level_claimed": {"category": "model_checking", "text": c["text"], "design_ref": c["ref"]},
      "level_note": c["note"],
      "technique": "SSA-level symbolic execution of the real Go code with SMT (z3, cross-checked by cvc5) deciding every assertion within stated bounds; counterexamples replayed natively",
    })
na = []
for pid in props:
    if pid in claimed: continue
    na.append({"property_id": pid, "reason": na_reason.get(pid, "check not yet built in this session (work in progress; see DESIGN.md §4 for the planned harness)")})
m = {
 "version": 1,
 "setup_cmd": f"cd {V}/engine && GOFLAGS=-mod=mod GOPROXY=off go build -o {V}/bin/symgo ./cmd/symgo",
 "hooks": {"guard": "verif", "enable": "none needed: harnesses are injected with build overlays (go/packages Overlay for the engine, go test -overlay for native replay); /repo is never modified by a check",
           "baseline_off_cmd": "cd /repo && go test -vet=off -count=1 -timeout 25m ./...", "source_commits": [], "add_only": True},
 "engines": [{"name": ENGINE, "path": f"{V}/engine", "serves_properties": sorted(claimed), "kind_free_text": "own Go SSA -> SMT-LIB2 symbolic executor (golang.org/x/tools/go/ssa v0.29.0), z3 4.8.12 deciding, cvc5 1.0 / z3 5.1 cross-checking"}],
 "checks": checks,
 "not_applicable": na,
 "notes": "All checks regenerate their encoding from /repo's working tree on every run. Exit 0 = all obligations discharged; exit 1 + VIOLATION = natively replayed counterexample; exit 3 = inconclusive (unknown/timeout/unwind/vacuity), never reported as success.",
}
json.dump(m, open(f"{V}/MANIFEST.json", "w"), indent=1)
print("claimed:", sorted(claimed), "n/a:", [x["property_id"] for x in na])
