#!/bin/bash
# runs the quick (or $1) tier of every claimed property, writing evidence; prints a summary
TIER=${1:-quick}
cd /verif
for p in $(python3 -c "import json;print(' '.join(c['property_id'] for c in json.load(open('/verif/MANIFEST.json'))['checks']))"); do
  s=$(date +%s)
  out=$(./bin/symgo check --property $p --tier $TIER 2>&1)
  rc=$?
  echo "$p rc=$rc $(( $(date +%s)-s ))s :: $(echo "$out" | grep "^$p tier" )"
  echo "$out" | grep -E "^VIOLATION|^INCONCLUSIVE|^KNOWN" | cut -c1-250
done
