#!/bin/bash
# usage: tools/seedrecheck.sh <dir with PROP-k subdirs or list> : re-runs only the property check against each kept seeded change
# (patch applied to a scratch copy of /repo); prints one line per change.
SRC=${1:-/verif/seeded}
for d in $(ls -d $SRC/*/ | sort); do
  id=$(basename $d); prop=${id%%-*}
  S=/tmp/rc.$id; rm -rf $S; cp -r /repo $S; rm -rf $S/.git
  (cd $S && patch -p1 -s < $d/patch.diff) || { echo "$id PATCH-FAILED"; rm -rf $S; continue; }
  out=$(cd /verif && VERIF_REPO=$S ./bin/symgo check --property $prop --no-evidence --validate 0 2>&1)
  rc=$?
  harn=$(echo "$out" | grep -A1 "^VIOLATION" | grep "harness=" | sed 's/.*harness=\([A-Za-z0-9_]*\).*/\1/' | sort -u | paste -sd,)
  echo "$id rc=$rc caught_by=$harn"
  rm -rf $S
done
