#!/usr/bin/env python3
"""Copies confirmed seeded changes from /tmp/seed/out into /verif/seeded/<PROP>-<k>/ with meta.json."""
import json, os, re, shutil, sys
SRC="/tmp/seed/out"; DST="/verif/seeded"
NEEDS = {
 "C01-1": ("restart paths stop re-running the transport configurer (only ApplyOptions of the in-memory table)", "per-channel store set by a configurer + receiving node bounced (new process) + channel healed by restart with zero blocks received before"),
 "C01-2": ("responder re-reads channel state between sending Complete and choosing its own transition", "UpdateValidationStatus(RequiresFinalization flipped) exactly while the Complete message is being sent"),
 "C02-1": ("Channels.Restart swallows ErrTerminated like Cancel does", "channel terminates while the incoming restart request is being re-validated (inside the validator callback)"),
 "C02-2": ("FinalityStates lists the event code Complete instead of the status Completed", "anything reaching a channel after it is Completed"),
 "C03-1": ("ResumeResponder gets transitions out of ResponderFinalizing / ResponderFinalizingTransferFinished", "transport finished + paused Complete, then any un-paused non-Complete response"),
 "C03-2": ("ResponderPaused() view requires RequiresFinalization && Finalizing", "finalizing responder whose RequiresFinalization is cleared by a forced-pause update before the releasing update"),
 "C04-1": ("ValidationResultResponse drops the 'validationErr == nil' conjunct", "validator returns Accepted together with an error, or a post-acceptance step fails"),
 "C04-2": ("validateRestart picks the validator of the LAST voucher's type", "two registered voucher types, later voucher of the other type, then a restart"),
 "C05-1": ("validateRestartRequest compares against LastVoucher()", "restart after a follow-up voucher was received"),
 "C05-2": ("role cross-check dropped for the outgoing-block extension pass of gsIncomingResponseHook", "response-kind message under the outgoing-block extension name on a channel the sender initiated"),
 "C06-1": ("CompleteCleanupOnRestart becomes ToJustRecord", "channel persisted in a cleanup status, process restart, RestartDataTransferChannel"),
 "C06-2": ("CborGenCompatibleNode.MarshalCBOR no longer converts typed nodes to their representation", "voucher/selector that is a schema.TypedNode whose representation differs from its type-level form"),
 "C07-1": ("blockIndexCache.getValue reads the durable index before taking the write lock and drops the re-check", "two concurrent first reports on an unseeded cache (start of transfer / after process restart)"),
 "C07-2": ("DataQueued guard compares against SentBlocksTotal", "queued mark ahead of sent mark, replay of a position between them, then a process restart"),
 "C08-1": ("progressCache.setDataLimit creates an entry with progress 0 when none is cached", "process restart, then the limit is changed before any block report"),
 "C08-2": ("receiveUpdateRequest returns early for a resume when the initiator is not recorded paused", "unsolicited resume from the initiator while the responder is paused at its data limit"),
 "C09-1": ("CompleteCleanupOnRestart becomes ToJustRecord", "crash between the ending event and CleanupComplete, restart on the same store"),
 "C09-2": ("async cancel-send uses the caller's context", "call-scoped context that ends right after Close returns"),
 "C10-1": ("restart request built from LastVoucher()", "SendVoucher with a different voucher before the restart"),
 "C10-2": ("resume while requester is away REPLACES the pending extensions", "two or more messages queued before the requester's next request"),
 "C11-1": ("counterparty-resume tail refactored: ErrPause only if BothPaused() before the resume is recorded", "local side paused, counterparty not recorded paused, un-paused message arrives"),
 "C11-2": ("Restart event action clears InitiatorPaused", "initiator paused, then the channel is restarted before it resumes"),
 "C12-1": ("missing-body check folded into a helper that tests a typed-nil interface", "schema-valid envelope whose announced body is null"),
 "C12-2": ("response constructors folded into one helper that drops the validation error", "Accepted==true together with a non-nil error"),
 "C13-1": ("GetChannelStateMigrations wraps the 2->3 step and overwrites SelfPeer", "version-2 store written under a different peer ID"),
 "C13-2": ("Start shadows err: ready listeners always get nil", "any migration failure"),
 "C14-1": ("doRestartChannel retries in a local loop, counting once per request", "flaky link: attempts fail then succeed across several restart requests without data"),
 "C14-2": ("closeChannelAndShutdown checks ctx.Err() and closes BEFORE Shutdown()", "second reason to fail arrives while the first (slow) close is in flight"),
 "C15-1": ("error handling moved into a defer that sees a shadowed err", "stream opens, then the write fails"),
 "C15-2": ("malformed check weakened to 'both bodies nil'", "envelope whose request/response flag contradicts the populated body"),
 "C16-1": ("storeRegistered = (err == nil) on every UseStore", "in-process restart re-runs UseStore; graphsync rejects the duplicate"),
 "C16-2": ("receive-error peer filter rewritten with swapped OtherParty arguments", "two channels with different remote peers, one opened locally"),
 "C17-1": ("per-transfer subscriptions keyed by TransferID only", "remote peer opens a channel with the same transfer ID as a local WithSubscriber channel"),
 "C17-2": ("overflow guards in the progress actions reject AFTER mutating", "block size that wraps the uint64 byte counter"),
 "C18-1": ("ID seed resolution lowered from ns to ms", "more than N opens within N ms, then a manager restart"),
 "C18-2": ("failed new request 'cleans up' with channels.Error(chid)", "duplicate new request for an existing channel ID"),
 "C19-1": ("SendVoucher records the voucher before sending", "the network send fails"),
 "C20-1": ("CleanupChannel keeps dtChannelsLk (defer Unlock) while it runs dtChannel.cleanup", "incoming graphsync request hook (holds the channel lock, applies transport options -> trackDTChannel) concurrent with the cleanup of the same channel"),
 "C20-2": ("CloseDataTransferChannel stores the Cancel result in the err variable captured by the cancel-sending goroutine", "any close: the goroutine writes err while the caller writes/reads it (visible to go test -race only)"),
 "C20-3": ("progressCache.setDataLimit does its map write under the read lock", "data limit changed on a cached channel while blocks are being reported on any channel"),
 "C01-3": ("ResponderCompletes also leads ResponderFinalizing (not only ...TransferFinished) to Completing", "paused Complete, then final Complete, both before the initiator's own transport finishes"),
 "C01-4": ("OnChannelCompleted records Accept when still AwaitingAcceptance and ReceivedCidsTotal()>0", "pull satisfied entirely from the initiator's own store (blocks traversed but none received over the wire)"),
 "C02-3": ("RestartDataTransferChannel on a terminal channel publishes a synthetic CleanupComplete event", "restart of a Completed/Failed/Cancelled channel while a subscriber listens"),
 "C02-4": ("terminated guard moved from ReceiveRestartExistingChannelRequest into openPushRestartChannel only", "restart-existing request for a terminal PULL channel we initiated"),
 "C03-3": ("ResponderCompletes also leads ResponderFinalizing to Completing", "ResponderBeginsFinalization then ResponderCompletes with no FinishTransfer yet"),
 "C03-4": ("LeaveRequestPaused returns early on DataLimit != 0 and ignores RequiresFinalization", "Finalizing responder gets an accepting update that still requires finalization and carries a data limit above progress"),
 "C04-3": ("requestError: case stayPaused placed before case !Accepted", "validator rejects with ForcePause set"),
 "C04-4": ("handleTransportUpdate returns early when the transfer is in finalization, skipping the close", "UpdateValidationStatus(Accepted:false) while Finalizing"),
 "C05-3": ("restart-existing terminated check uses Status().InFinalization()", "restart-existing request for a Failed or Cancelled channel we initiated"),
 "C05-4": ("validateRestartRequest compares only the multihash of the base CID", "restart request whose base CID has the same hash but another codec"),
 "C06-3": ("RestartDataTransferChannel guard uses Status().TransferComplete()", "channel persisted in Cancelling/Failing/Completing, then restarted"),
 "C06-4": ("Channels.InProgress skips terminated channels", "listing after some channel reached a terminal status"),
 "C07-3": ("gsBlockSentHook no longer filters blocks not put on the wire and reports unique=true", "a block position above the sent index that was not put on the wire (duplicate block in the DAG)"),
 "C07-4": ("updateIfGreater seeds the cache with 0 when the reported index is 1", "after a process restart, a replay that starts at position 1"),
 "C08-3": ("progressCache.progress returns the pause signal only on the report that crosses the limit", "any report that starts at or beyond the limit (also after restart / unchanged limit)"),
 "C08-4": ("LeaveRequestPaused computes DataLimit - transferred in uint64 and tests == 0", "new limit strictly between 0 and the progress already made"),
 "C09-3": ("CloseDataTransferChannel returns the transport's CloseChannel error instead of logging it", "close while the transport cannot close (request never started / transport error)"),
 "C09-4": ("dtChannel.cleanup deletes only the current request's mapping", "cleanup after a local close (current request already forgotten) or of a restarted channel"),
 "C10-3": ("dtChannel.open only logs a failed/timed-out cancel of the previous request and re-opens", "graphsync cannot cancel the old request"),
 "C10-4": ("receiveRequest shadows `channel` on the push-restart path: OpenChannel gets a nil channel state", "push restart on the responder with >= 1 block already received"),
 "C11-3": ("PauseResponder loses TransferFinished as a source status (shared activeStates refactor)", "responder pauses after the initiator's own side has finished"),
 "C11-4": ("SelfPaused() reads the raw flags (drops the Finalizing term for the responder)", "initiator resumes while the responder awaits finalization"),
 "C12-3": ("wire structs store the transfer ID as int64", "transfer ID >= 2^63"),
 "C12-4": ("decode-time base-CID check dereferences a nil *cid.Cid", "new/restart request on the wire with a null BCid"),
 "C13-3": ("MigrateChannelState2To3 raises Queued to Sent when a data limit is set and Queued < Sent", "version-2 record with DataLimit != 0 and Queued < Sent"),
 "C13-4": ("Channels.InProgress answers an empty map instead of ErrMigrationsNotRun", "listing before Start / before the migration ran"),
 "C14-3": ("OpenPush/PullDataChannel add the channel to the monitor only after the request was sent", "the responder's acceptance is processed before the open call returns"),
 "C14-4": ("restartChannel refactor: endRestart always clears restartedAt", "a third restart request arrives while the queued restart is running"),
 "C15-3": ("openStream gives up when the PER-ATTEMPT context is done", "an open attempt that times out before a later one would succeed"),
 "C15-4": ("dispatch helper lost the else/return after the restart-existing branch", "inbound restart-existing-channel request"),
 "C16-3": ("processExtension checks only the roles, not the transfer ID, against the owning channel", "message for transfer 2 arriving on the graphsync request of transfer 1 (same peers)"),
 "C16-4": ("dtChannel.cleanup skips deleteRefs when requestID is nil", "close, then cleanup, then a late graphsync callback"),
 "C17-3": ("notifier publishes on its own goroutine and stops waiting after 5 s", "a subscriber that takes longer than 5 s on one event"),
 "C17-4": ("channelsubscriptions keeps an `active` counter that is decremented for channels that never had a subscriber", "a channel without per-transfer subscriber terminates while a subscribed one is live"),
 "C18-3": ("CreateNew primes the block-index and progress caches before Begin", "duplicate creation of an existing channel that already moved data / has a limit"),
 "C18-4": ("timeCounter.next does Add(1) and then returns a separate Load()", "two concurrent opens"),
 "C19-3": ("SendVoucherResult returns early (after sending) for channels in finalization", "voucher result sent while Finalizing"),
 "C19-4": ("processUpdateVoucher drops a voucher equal to the last recorded one", "two consecutive identical vouchers / a first update repeating the opening voucher"),
 "C01-5": ("processValidationUpdate recomputes the message's paused flag as ForcePause||RequiresFinalization while Finalizing", "final revalidation with 0 < DataLimit <= bytes transferred and RequiresFinalization false"),
 "C01-6": ("five events incl. CompleteCleanupOnRestart switched from ToNoChange to ToJustRecord", "node went down while its channel was persisted in Completing, then restarts the channel"),
 "C02-5": ("receiveRestartRequest answers a restart request for a channel 'in finalization' with the completion message again", "restart request for a Completed channel (responder side)"),
 "C02-6": ("RestartDataTransferChannel re-validates (responder) before the terminated no-op guard", "API restart of a terminal channel on the responder"),
 "C03-5": ("OnChannelCompleted(err) fires FinishTransfer instead of Error when the initiator is in ResponderCompleted", "responder's final Complete, then the initiator's own transport fails"),
 "C03-6": ("ResumeInitiator from ResponderCompleted / ResponderFinalizing goes To(Ongoing)", "initiator paused when the Complete arrives, then resumes"),
 "C04-5": ("restart reply's paused flag built from ForcePause instead of LeaveRequestPaused", "restart re-validated with a data limit already used up"),
 "C04-6": ("data limit recorded only when it is lifted or raised", "accepted update / restart that LOWERS a non-zero limit"),
 "C05-5": ("updateValidationStatus checks the responder-only role after applying the update", "initiator calls UpdateValidationStatus on its own channel"),
 "C05-6": ("gsReqRecdHook untracks and cleans up the channel when the request is refused", "refused second graphsync request naming a live channel"),
 "C08-5": ("getQueuedProgress seeds the progress cache from Sent instead of Queued", "process restart while queued bytes exceed sent bytes (pull responder)"),
 "C08-6": ("progressCache.progress uses total > limit", "a report that brings the total exactly to the limit"),
 "C09-5": ("dtChannel.close waits for gs.Cancel while holding the channel lock", "close while a graphsync callback for the channel is in progress on graphsync's loop"),
 "C09-6": ("DataSent and DataQueued become FromAny().ToNoChange()", "a sender-side block event arrives between the ending event and CleanupComplete"),
 "C10-5": ("CompleteCleanupOnRestart becomes ToJustRecord", "restart of a channel persisted in a cleanup status"),
 "C10-6": ("precedence slip: isPush && (IsNew && Accepted || IsRestart)", "push restart that re-validation rejects"),
 "C14-5": ("Monitor.addChannel returns the existing monitored channel on a duplicate add", "monitor-driven restart whose restart request cannot be sent"),
 "C14-6": ("resetConsecutiveRestarts ignores data events while a restart is in progress", "data progress arriving during the restart backoff"),
 "C16-5": ("gsDataRequestRcvd keeps the old current request unless the requester cancelled it", "second incoming request on a channel without a cancel in between"),
 "C16-6": ("outgoing block hooks filter on BlockSize()==0 instead of BlockSizeOnWire()==0", "restart-skipped blocks (size > 0, nothing on the wire)"),
 "C07-5": ("CreateNew primes the block-index cache before Begin", "refused duplicate creation of a channel that already counted positions, then a replay"),
 "C07-6": ("updateIfGreater: CAS loop replaced by atomic load / compare / atomic store", "two concurrent reporters of the same position, or of p and p-1"),
 "C11-5": ("PauseDataTransferChannel skips the transport pause when the counterparty is already paused", "counterparty pauses, then the local side pauses"),
 "C11-6": ("ResponderPaused() treats every finalization status (Finalizing, Completing, Completed) as paused", "responder resumed out of Finalizing / completed channel"),
 "C15-5": ("openStream skips the backoff (and the attempt counter) when the failed attempt took longer than the backoff", "slow stream-open failures"),
 "C15-6": ("msgToStream writes through a bufio.Writer flushed in a deferred, unchecked Flush", "stream write failure for a message smaller than the buffer"),
 "C17-5": ("failed open unsubscribes the per-transfer subscriber right away", "SendMessage / OpenChannel fails after the channel was created: Error and CleanupComplete are announced after the unsubscribe"),
 "C17-6": ("dispatch does not announce CompleteCleanupOnRestart", "restart of a channel in a cleanup status"),
 "C19-5": ("rejected restart fails the channel without recording the validator's voucher result", "rejected restart whose validation result carries a voucher result"),
 "C19-6": ("channelState holds a pointer to the record: the exported EmptyChannelState has a nil record", "any accessor on channels.EmptyChannelState"),
 "C06-5": ("channels.New wraps the datastore in an autobatch write-behind buffer (flushed on Stop / listing)", "crash after a query returned a state: the application's datastore does not hold it yet"),
 "C06-6": ("CborGenCompatibleNode.UnmarshalCBOR decodes with a hand-written options literal (AllowLinks false)", "stored voucher / result / selector containing a link"),
 "C12-5": ("RestartChannel becomes optional in the schema and a pointer in the struct", "any request other than restart-existing-channel, read by a peer bound to the published schema"),
 "C12-6": ("request IsVoucher() returns false for an empty voucher type", "voucher request with nil voucher or empty type: classified as no kind"),
 "C13-5": ("migration maps zero-progress paused records to Requested instead of Ongoing", "version-2 record in a deprecated paused status with all byte counters zero"),
 "C13-6": ("readyDispatcher returns the migration error, so Publish stops at the first listener", "failed migration with more than one OnReady listener"),
 "C18-5": ("Start advances the ID counter to the largest stored transfer ID, remote-chosen ones included", "stored channel whose remote initiator chose an ID near 2^64"),
 "C18-6": ("acceptRequest continues when CreateNew fails and the existing channel is still Requested with the same base CID", "duplicate new request arriving between CreateNew and Accept of the original"),
 "C20-5": ("ChannelSubscriptions.Stop unsubscribes while holding subscriptionsLk", "Stop overlapping with the delivery of an event (publisher holds the pubsub read lock and needs subscriptionsLk)"),
 "C20-6": ("ChannelsForPeer looks the channel up through getDTChannel (a second RLock of dtChannelsLk) inside its own RLock", "a writer (trackDTChannel / CleanupChannel) arriving between the two read locks"),
 "C01-7": ("DataReceived/DataSent/DataQueued actions assign the block index unconditionally", "a non-unique replayed block with a lower index after a restart, then another restart"),
 "C01-8": ("gsCompletedResponseListener: RequestCompletedPartial is not an error when the local node initiated the channel", "push whose sender lacks a block the receiver already has"),
 "C06-7": ("CborGenCompatibleNode.UnmarshalCBOR turns a decoded null node into 'no node'", "typed voucher / result whose payload is IPLD null"),
 "C06-8": ("SetDataLimit / SetRequiresFinalization skip 'unchanged' updates after an unsynchronised read", "two back-to-back updates: the second is compared with the state before the first was applied"),
 "C09-7": ("CloseDataTransferChannelWithError returns before firing Error when the cancel message cannot be sent", "monitor closes a channel while the peer is unreachable"),
 "C09-8": ("Cancel event restricted to a hand-written list of statuses that omits ResponderFinalizingTransferFinished", "cancel of a channel in ResponderFinalizingTransferFinished"),
 "C13-7": ("migration renames the stage named after the deprecated paused status to Ongoing", "paused version-2 record whose trace has a stage named after its status"),
 "C13-8": ("NewDataTransfer wraps the application's datastore in namespace.Wrap(ds, \"/channels\")", "any datastore written by a previous run"),
 "C15-7": ("one shared backoff object, reset only on success", "a send after one that used up (part of) its attempts"),
 "C15-8": ("FromNet decodes with DontParseBeyondEnd", "well-formed message followed by garbage / a truncated second message on the same stream"),
 "C19-7": ("processUpdateVoucher records the update voucher under the channel's opening voucher type", "update voucher of another type"),
 "C19-8": ("Channels.NewVoucherResult skips results whose payload is nil or IPLD null", "typed voucher result with a null payload"),
 "C19-2": ("NewVoucher restricted to a hand-built status list that omits ResponderFinalizingTransferFinished", "SendVoucher while the initiator is in ResponderFinalizingTransferFinished"),
}
NOT_CAUGHT={}  # every stored change is caught (C09-6 since the queue mode of the model group; its meta.json was edited by hand)
os.makedirs(DST, exist_ok=True)
n=0
for key,(what,needs) in sorted(NEEDS.items()):
    p,k=key.split("-")
    d=f"{SRC}/{p}/{k}"
    conf=f"{d}/confirm.log"
    if not os.path.exists(conf): print("skip (no confirmation)",key); continue
    c=open(conf).read()
    m=re.search(r"demo_clean_rc=(\d+) demo_patched_rc=(\d+) suite_rc=(\d+)",c)
    if not m: print("skip (incomplete)",key); continue
    dc,dp,su=map(int,m.groups())
    if dc!=0 or dp==0: print("skip (demo does not discriminate)",key,dc,dp); continue
    out=f"{DST}/{key}"; os.makedirs(out,exist_ok=True)
    shutil.copy(f"{d}/patch.diff",out); shutil.copy(f"{d}/demo_test.go",out)
    if os.path.exists(f"{d}/README.md"): shutil.copy(f"{d}/README.md",out)
    demo_dir=re.search(r"demo dir=(\S+)",c).group(1)
    flaky=""
    if su!=0:
        fl=[l for l in open(f"{d}/suite_confirm.log",errors="ignore") if l.startswith("--- FAIL")]
        flaky="suite run under heavy machine load had timing flakes also seen on the unmodified tree: "+", ".join(sorted(set(x.split()[2] for x in fl)))[:300]
    meta={"property":p,"change":what,"needs_to_manifest":needs,"author":"fresh sub-agent given only the property text and a scratch worktree",
      "confirmed_by_me":{"scratch":"git worktree of /repo under /tmp (removed afterwards)","commands":[
         f"go test -vet=off -count=1 -run '<demo tests>' ./{demo_dir}   (clean tree: rc={dc})",
         f"git apply patch.diff && go build ./... && go test -vet=off -count=1 -run '<demo tests>' ./{demo_dir}   (rc={dp}: demo fails)",
         f"go test -vet=off -count=1 -timeout 25m ./...   (with patch: rc={su})",
         f"VERIF_REPO=<scratch> /verif/bin/symgo check --property {p}"],
        "suite_note":flaky or "full pinned suite passes with the patch"}}
    if key in NOT_CAUGHT: meta["not_caught_reason"]=NOT_CAUGHT[key]
    if key=="C20-2":
        meta["demo_needs_race_detector"]=True
        meta["confirmed_by_me"]["commands"]=[c.replace("go test -vet=off","go test -race -vet=off") if "demo" in c else c for c in meta["confirmed_by_me"]["commands"]]
    meta["round"]=1 if int(k)<=2 or (p=="C20" and int(k)<=3) else (2 if int(k)<=4 else (3 if int(k)<=6 else 4))
    json.dump(meta,open(f"{out}/meta.json","w"),indent=1)
    n+=1
print("kept",n)
