#!/bin/bash
# usage: tools/r4_collect.sh <PROP> : round-4 outputs /tmp/seed/out/<PROP>r4/{1,2} -> /tmp/seed/out/<PROP>/{7,8}
P=$1
for k in 1 2; do
  src=/tmp/seed/out/${P}r4/$k; dst=/tmp/seed/out/$P/$((k+6))
  [ -f $src/patch.diff ] || continue
  mkdir -p $dst; cp $src/patch.diff $src/demo_test.go $dst/; [ -f $src/README.md ] && cp $src/README.md $dst/
done
