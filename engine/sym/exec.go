package sym

import (
	"fmt"
	"go/token"
	"go/types"
	"os"
	"sort"
	"strings"
	"time"

	"golang.org/x/tools/go/ssa"
)

// Config controls one harness run.
type Config struct {
	Prog            *ssa.Program
	Entry           *ssa.Function
	InitPkgs        []*ssa.Package // packages whose init is interpreted (in order)
	Policy          *Policy
	LoopFuel        int      // max visits of one basic block per frame activation
	MaxDepth        int      // max call depth
	MaxInstr        int64    // max instructions per path
	MaxPaths        int      // stop after this many paths (0 = unlimited); exceeding => inconclusive
	QueryMs         int      // solver timeout per query
	Preemptive      bool     // scheduling points at shared-memory accesses
	PreemptSyncOnly bool     // pre-empt only at mutex and atomic operations, not at plain loads/stores
	Race            bool     // happens-before data-race detection
	SchedBound      int      // max scheduling decisions with >1 alternative per path
	CrossCheck      []string // extra solvers for obligation queries
	Trace           bool
	FixedInputs     map[string]interface{} // concrete run: label -> value
	Deadline        time.Time
	MaxViolations   int
	PreemptBound    int // >0: CHESS-style bound on pre-emptions per path (see pickAt)
	// KnownClass, when set, maps a violation to the index of the known finding it matches (or -1).
	// Known findings are kept once per index and do not count towards MaxViolations.
	KnownClass func(v *Violation) int
	// static partition of the path tree across workers: at the k-th fork (k<2) on a path this
	// worker explores only alternatives j with j % PartCount[k] == PartIndex[k]
	PartIndex [2]int
	PartCount [2]int
	// ForcedSched, when non-nil, fixes the scheduler/timer/select choices in order (engine replay)
	ForcedSched []int
}

// Violation is a failed obligation with a concrete witness.
type Violation struct {
	Harness   string                 `json:"harness"`
	Kind      string                 `json:"kind"` // assert | panic | deadlock | nil-deref | index | ...
	Msg       string                 `json:"msg"`
	Pos       string                 `json:"pos"`
	Stack     []string               `json:"stack"`
	Inputs    map[string]interface{} `json:"inputs"`
	Decisions []int                  `json:"decisions"`
	Sched     []int                  `json:"sched"`
	Atoms     []string               `json:"atoms"`
	Trace     []string               `json:"trace,omitempty"`
	Known     int                    `json:"-"` // index+1 of the matching known finding, 0 if none
}

func (v *Violation) Key() string { return v.Kind + "|" + v.Pos + "|" + v.Msg }

// Stats for evidence.
type Stats struct {
	Paths          int
	Instrs         int64
	Obligations    int
	Discharged     int
	Reached        map[string]int
	Funcs          map[string]bool
	Havocked       map[string]int
	Stubs          map[string]int
	Inconclusive   []string
	Samples        []map[string]interface{}
	SolverQueries  map[string]int
	SolverTime     map[string]float64
	Disagreements  int
	SchedPoints    int
	RaceChecks     int64 // memory / map accesses of library code checked against the vector clocks
	SyncEdges      int64 // release operations recorded as happens-before sources
	DeadlockChecks int64 // blocking operations at which global blocking was checked
	InitInstrs     int64
	IfConverted    int
	ForkSites      map[string]int
	MaxDecisions   int
	Observations   []string
}

type decision struct {
	taken int
	rest  []int // remaining alternatives to explore
	kind  string
	multi bool
}

type pathAbort struct{ reason string }

// Exec is the per-harness symbolic executor.
type Exec struct {
	cfg   *Config
	prog  *ssa.Program
	ts    *TermStore
	z3    *Solver
	cross []*Solver

	// path state
	globals    map[*ssa.Global]*Value
	pc         []*Term
	decisions  []decision
	dpos       int // next decision index on this path
	instrs     int64
	symCounter map[string]int
	inputs     []*Term // symbolic inputs created on this path (in order)
	trace      []string
	observed   []string
	ghost      map[string]Value

	// tasks
	tasks       []*task
	cur         *task
	killed      bool
	pathDone    chan struct{}
	timers      []*timerObj
	schedUsed   int
	preemptions int
	envActions  []*Closure

	// results
	Violations     []*Violation
	vioKeys        map[string]bool
	Stats          Stats
	externGlobals  map[*ssa.Global]Value
	externTypes    map[string]types.Type
	methodCache    map[string]*ssa.Function
	harnessName    string
	aborted        string // non-empty: whole run inconclusive
	lastNow        *Term
	mutexes        map[*Value]*mutexState
	opaques        map[string]Value
	initTemplate   map[*ssa.Global]Value // contents of globals after package initialisation
	initHash       uint64
	skipped        bool
	shadow         map[interface{}]*shadowCell
	strlenSeen     map[*Term]bool
	cidAtoms       map[*Term][2]*Term
	cidOrder       []*Term
	axioms         int
	atomicVC       map[*Value]vclock
	harnessFnCache map[*ssa.Function]bool
	// ConcreteTrace: assertion outcomes and witnesses of the current path in concrete mode
	ConcreteTrace []string
	FirstTrace    []string
	completed     bool
	schedPos      int
	known         map[int]*Term
	simpMemo      map[int]*Term
}

func NewExec(cfg *Config) (*Exec, error) {
	ex := &Exec{cfg: cfg, prog: cfg.Prog, ts: NewTermStore()}
	if cfg.LoopFuel == 0 {
		cfg.LoopFuel = 40
	}
	if cfg.MaxDepth == 0 {
		cfg.MaxDepth = 120
	}
	if cfg.MaxInstr == 0 {
		cfg.MaxInstr = 3_000_000
	}
	if cfg.QueryMs == 0 {
		cfg.QueryMs = 20000
	}
	if cfg.SchedBound == 0 {
		cfg.SchedBound = 8
	}
	if cfg.MaxViolations == 0 {
		cfg.MaxViolations = 5
	}
	var err error
	ex.z3, err = NewSolver("z3", ex.ts, cfg.QueryMs)
	if err != nil {
		return nil, err
	}
	for _, k := range cfg.CrossCheck {
		s, err := NewSolver(k, ex.ts, cfg.QueryMs)
		if err != nil {
			return nil, err
		}
		ex.cross = append(ex.cross, s)
	}
	ex.vioKeys = map[string]bool{}
	ex.Stats.Reached = map[string]int{}
	ex.Stats.Funcs = map[string]bool{}
	ex.Stats.Havocked = map[string]int{}
	ex.Stats.Stubs = map[string]int{}
	ex.Stats.SolverQueries = map[string]int{}
	ex.Stats.SolverTime = map[string]float64{}
	ex.externTypes = map[string]types.Type{}
	ex.methodCache = map[string]*ssa.Function{}
	ex.harnessName = cfg.Entry.Name()
	return ex, nil
}

func (ex *Exec) Close() {
	ex.z3.Close()
	for _, s := range ex.cross {
		s.Close()
	}
}

// Run explores all paths of the entry function.
func (ex *Exec) Run() {
	defer func() {
		ex.Stats.SolverQueries["z3"] = ex.z3.Queries
		ex.Stats.SolverTime["z3"] = ex.z3.Time.Seconds()
		for _, s := range ex.cross {
			ex.Stats.SolverQueries[s.Name] = s.Queries
			ex.Stats.SolverTime[s.Name] = s.Time.Seconds()
		}
	}()
	defer func() {
		if ex.initTemplate != nil && ex.templateHash() != ex.initHash {
			ex.inconclusive("state built by package initialisers was mutated during exploration (shared across paths)")
		}
	}()
	for {
		ex.skipped = false
		ex.runOnePath()
		if !ex.skipped {
			ex.Stats.Paths++
		}
		if len(ex.decisions) > ex.Stats.MaxDecisions {
			ex.Stats.MaxDecisions = len(ex.decisions)
		}
		if ex.aborted != "" {
			return
		}
		if ex.unknownViolations() >= ex.cfg.MaxViolations {
			ex.inconclusive("stopped after %d violations (remaining paths not explored)", len(ex.Violations))
			return
		}
		if !ex.backtrack() {
			return
		}
		if ex.cfg.MaxPaths > 0 && ex.Stats.Paths >= ex.cfg.MaxPaths {
			ex.inconclusive("path budget %d exhausted", ex.cfg.MaxPaths)
			return
		}
		if !ex.cfg.Deadline.IsZero() && time.Now().After(ex.cfg.Deadline) {
			ex.inconclusive("deadline reached after %d paths", ex.Stats.Paths)
			return
		}
	}
}

func (ex *Exec) inconclusive(f string, a ...interface{}) {
	msg := fmt.Sprintf(f, a...)
	for _, m := range ex.Stats.Inconclusive {
		if m == msg {
			return
		}
	}
	ex.Stats.Inconclusive = append(ex.Stats.Inconclusive, msg)
}

// backtrack moves to the next unexplored alternative; false when done.
func (ex *Exec) backtrack() bool {
	for len(ex.decisions) > 0 {
		d := &ex.decisions[len(ex.decisions)-1]
		if len(d.rest) > 0 {
			d.taken = d.rest[0]
			d.rest = d.rest[1:]
			return true
		}
		ex.decisions = ex.decisions[:len(ex.decisions)-1]
	}
	return false
}

func (ex *Exec) runOnePath() {
	ex.globals = map[*ssa.Global]*Value{}
	ex.externGlobals = map[*ssa.Global]Value{}
	ex.pc = nil
	ex.shadow = nil
	ex.strlenSeen = nil
	ex.cidAtoms = nil
	ex.cidOrder = nil
	ex.axioms = 0
	ex.atomicVC = nil
	ex.completed = false
	ex.ConcreteTrace = nil
	ex.schedPos = 0
	ex.known = nil
	ex.simpMemo = nil
	ex.dpos = 0
	ex.instrs = 0
	ex.symCounter = map[string]int{}
	ex.inputs = nil
	ex.trace = nil
	ex.observed = nil
	ex.ghost = map[string]Value{}
	ex.tasks = nil
	ex.cur = nil
	ex.timers = nil
	ex.killed = false
	ex.schedUsed = 0
	ex.preemptions = 0
	ex.envActions = nil
	ex.pathDone = make(chan struct{})
	ex.lastNow = nil
	ex.mutexes = nil
	if ex.opaques == nil {
		ex.opaques = map[string]Value{}
	}
	if ex.initTemplate != nil {
		for g, v := range ex.initTemplate {
			cell := new(Value)
			*cell = copyVal(v)
			ex.globals[g] = cell
		}
	}

	main := ex.newTask("main", func() {
		if ex.initTemplate == nil {
			for _, p := range ex.cfg.InitPkgs {
				if init := p.Func("init"); init != nil {
					ex.callFunction(nil, init, nil, nil)
				}
			}
			if len(ex.tasks) != 1 || len(ex.decisions) != 0 || len(ex.pc) != 0 {
				panic("package initialisation forked, spawned tasks or constrained the path")
			}
			ex.initTemplate = map[*ssa.Global]Value{}
			for g, cell := range ex.globals {
				ex.initTemplate[g] = *cell
			}
			ex.initHash = ex.templateHash()
			// run this first path on private copies as well
			for g, v := range ex.initTemplate {
				cell := new(Value)
				*cell = copyVal(v)
				ex.globals[g] = cell
			}
			ex.Stats.InitInstrs = ex.instrs
		}
		ex.callFunction(nil, ex.cfg.Entry, nil, nil)
		ex.completed = true
		// entry returned: let remaining tasks run to quiescence so their
		// obligations are checked too.
		ex.settle()
	})
	ex.cur = main
	main.resume <- struct{}{}
	<-ex.pathDone
	// kill parked tasks
	ex.killed = true
	for _, t := range ex.tasks {
		if !t.done && t.started {
			t.resume <- struct{}{}
			<-t.exited
		}
	}
	ex.Stats.Instrs += ex.instrs
	if ex.FirstTrace == nil && ex.cfg.FixedInputs != nil {
		ex.FirstTrace = append([]string{}, ex.ConcreteTrace...)
	}
	if len(ex.Stats.Samples) < 3 && ex.aborted == "" && !ex.skipped && ex.completed {
		if m := ex.modelFor(nil); m != nil {
			var sched []int
			for i := 0; i < ex.dpos && i < len(ex.decisions); i++ {
				if isSchedKind(ex.decisions[i].kind) {
					sched = append(sched, ex.decisions[i].taken)
				}
			}
			ex.Stats.Samples = append(ex.Stats.Samples, map[string]interface{}{"harness": ex.harnessName, "path": ex.Stats.Paths, "inputs": m, "decisions": ex.decisionList(), "sched": sched})
		}
	}
}

func (ex *Exec) decisionList() []int {
	out := make([]int, 0, ex.dpos)
	for i := 0; i < ex.dpos && i < len(ex.decisions); i++ {
		out = append(out, ex.decisions[i].taken)
	}
	return out
}

// endPath terminates the current path from within a task.
func (ex *Exec) endPath(reason string) {
	panic(pathAbort{reason})
}

// choose returns a value in [0,n) recording a decision; alternatives are all explored.
func isSchedKind(kind string) bool {
	return kind == "sched" || kind == "timer" || kind == "select"
}

func (ex *Exec) choose(alts []int, kind string) int {
	if len(alts) == 0 {
		panic("choose: no alternatives")
	}
	if ex.cfg.ForcedSched != nil && isSchedKind(kind) {
		i := ex.schedPos
		ex.schedPos++
		if i < len(ex.cfg.ForcedSched) {
			for _, a := range alts {
				if a == ex.cfg.ForcedSched[i] {
					return a
				}
			}
		}
		return alts[0]
	}
	if ex.dpos < len(ex.decisions) {
		d := ex.decisions[ex.dpos]
		ex.dpos++
		return d.taken
	}
	multi := len(alts) > 1
	if multi && ex.cfg.PartCount[0] > 0 {
		level := 0
		for i := 0; i < ex.dpos && i < len(ex.decisions); i++ {
			if ex.decisions[i].multi {
				level++
			}
		}
		if level < 2 && ex.cfg.PartCount[level] > 1 {
			var mine []int
			for j, a := range alts {
				if j%ex.cfg.PartCount[level] == ex.cfg.PartIndex[level] {
					mine = append(mine, a)
				}
			}
			if len(mine) == 0 {
				ex.decisions = append(ex.decisions, decision{taken: alts[0], kind: kind, multi: true})
				ex.dpos++
				ex.skipped = true
				ex.endPath("other partition")
			}
			alts = mine
		}
	}
	if len(alts) > 1 {
		if ex.Stats.ForkSites == nil {
			ex.Stats.ForkSites = map[string]int{}
		}
		ex.Stats.ForkSites[kind+"@"+ex.posOf(ex.curFrame())] += len(alts) - 1
	}
	ex.decisions = append(ex.decisions, decision{taken: alts[0], rest: append([]int(nil), alts[1:]...), kind: kind, multi: multi})
	ex.dpos++
	return alts[0]
}

// feasible asks the solver whether pc ∧ extra is satisfiable.
func (ex *Exec) feasible(extra ...*Term) SatResult {
	conj := append(append([]*Term(nil), ex.pc...), extra...)
	r, _, err := ex.z3.Check(conj, false, nil)
	if err != nil {
		ex.aborted = err.Error()
		ex.inconclusive("solver failure: %v", err)
		ex.endPath("solver failure")
	}
	return r
}

// branch decides a symbolic boolean, forking when both outcomes are feasible.
func (ex *Exec) branch(c *Term) bool {
	c = ex.simp(c)
	if c.IsConst() {
		return c.V == 1
	}
	if ex.dpos < len(ex.decisions) {
		d := ex.decisions[ex.dpos]
		ex.dpos++
		if d.taken == 1 {
			ex.addPC(c)
			return true
		}
		ex.addPC(ex.ts.Not(c))
		return false
	}
	var alts []int
	rt := ex.feasible(c)
	rf := ex.feasible(ex.ts.Not(c))
	if rt != Unsat {
		alts = append(alts, 1)
	}
	if rf != Unsat {
		alts = append(alts, 0)
	}
	if len(alts) == 0 {
		// pc itself infeasible (can happen after unknown); drop path
		ex.endPath("infeasible")
	}
	t := ex.choose(alts, "br")
	if t == 1 {
		ex.addPC(c)
		return true
	}
	ex.addPC(ex.ts.Not(c))
	return false
}

// assume adds c to the path condition; ends the path if infeasible.
func (ex *Exec) assume(c *Term) {
	c = ex.simp(c)
	if c.IsConst() {
		if c.V == 0 {
			ex.endPath("assume false")
		}
		return
	}
	if ex.dpos < len(ex.decisions) {
		// replay: recorded feasibility
		d := ex.decisions[ex.dpos]
		ex.dpos++
		if d.taken == 0 {
			ex.endPath("assume infeasible")
		}
		ex.addPC(c)
		return
	}
	ok := 1
	if ex.feasible(c) == Unsat {
		ok = 0
	}
	ex.choose([]int{ok}, "assume")
	if ok == 0 {
		ex.endPath("assume infeasible")
	}
	ex.addPC(c)
}

// fresh creates a new symbolic input. Labels are made unique per path by an occurrence counter.
func (ex *Exec) fresh(label string, s Sort) *Term {
	n := ex.symCounter[label]
	ex.symCounter[label] = n + 1
	name := label
	if n > 0 {
		name = fmt.Sprintf("%s#%d", label, n)
	}
	if ex.cfg.FixedInputs != nil {
		if v, ok := ex.cfg.FixedInputs[name]; ok {
			return ex.constFromGo(v, s)
		}
		return ex.constFromGo(nil, s)
	}
	t := ex.ts.Var(name, s)
	ex.inputs = append(ex.inputs, t)
	return t
}

func (ex *Exec) constFromGo(v interface{}, s Sort) *Term {
	switch s.K {
	case SBool:
		b, _ := v.(bool)
		return ex.ts.Bool(b)
	case SBV:
		switch x := v.(type) {
		case uint64:
			return ex.ts.BVConst(x, int(s.W))
		case int64:
			return ex.ts.BVConst(uint64(x), int(s.W))
		case int:
			return ex.ts.BVConst(uint64(x), int(s.W))
		case float64:
			return ex.ts.BVConst(uint64(int64(x)), int(s.W))
		}
		return ex.ts.BVConst(0, int(s.W))
	case SAtom:
		switch x := v.(type) {
		case string:
			return ex.ts.Str(x)
		}
		return ex.ts.Str("")
	case SFP:
		f, _ := v.(float64)
		return ex.ts.FPConst(f)
	}
	panic("constFromGo")
}

// modelFor returns concrete input values satisfying pc ∧ extra, or nil.
func (ex *Exec) modelFor(extra []*Term) map[string]interface{} {
	conj := append(append([]*Term(nil), ex.pc...), extra...)
	vars := append([]*Term(nil), ex.inputs...)
	seen := map[string]bool{}
	for _, v := range vars {
		seen[v.S] = true
	}
	for _, v := range Vars(conj...) {
		if !seen[v.S] {
			vars = append(vars, v)
			seen[v.S] = true
		}
	}
	r, m, err := ex.z3.Check(conj, true, vars)
	if err != nil || r != Sat {
		return nil
	}
	out := map[string]interface{}{}
	for _, v := range vars {
		val := ModelValue(m[v.S], v.Sort)
		if v.Sort.K == SAtom {
			id := val.(int64)
			tab := ex.ts.AtomTable()
			if id >= 0 && int(id) < len(tab) {
				val = map[string]interface{}{"str": tab[id]}
			} else {
				val = map[string]interface{}{"atom": id}
			}
		}
		out[v.S] = val
	}
	return out
}

// obligation checks that c holds on the current path; records a violation with a model if not.
// Afterwards c is assumed.
func (ex *Exec) obligation(c *Term, kind, msg string, fr *frame) {
	c = ex.simp(c)
	if c.IsConst() && c.V == 1 {
		if ex.dpos >= len(ex.decisions) {
			ex.Stats.Obligations++
			ex.Stats.Discharged++
		}
		return
	}
	if c.IsConst() {
		ex.Stats.Obligations++
		ex.recordViolation(kind, msg, fr, nil)
		ex.endPath("definite violation")
	}
	if ex.dpos < len(ex.decisions) {
		// replayed prefix: this obligation was decided on an earlier path with the same pc
		d := ex.decisions[ex.dpos]
		ex.dpos++
		if d.taken == 0 {
			ex.endPath("violation on every continuation")
		}
		ex.addPC(c)
		return
	}
	ex.Stats.Obligations++
	neg := ex.ts.Not(c)
	conj := append(append([]*Term(nil), ex.pc...), neg)
	r, _, err := ex.z3.Check(conj, false, nil)
	if err != nil {
		ex.aborted = err.Error()
		ex.inconclusive("solver failure: %v", err)
		ex.endPath("solver failure")
	}
	for _, s := range ex.cross {
		r2, _, err2 := s.Check(conj, false, nil)
		if err2 != nil || r2 != r {
			ex.Stats.Disagreements++
			ex.inconclusive("solver disagreement at %s: z3=%v %s=%v err=%v", ex.posOf(fr), r, s.Name, r2, err2)
		}
	}
	switch r {
	case Unsat:
		ex.Stats.Discharged++
	case Sat:
		ex.recordViolation(kind, msg, fr, []*Term{neg})
	default:
		ex.inconclusive("obligation undecided (unknown/timeout) at %s: %s", ex.posOf(fr), msg)
	}
	// continue under the assumption that it holds
	cont := 1
	if r != Unsat && ex.feasible(c) == Unsat {
		cont = 0
	}
	ex.choose([]int{cont}, "obl")
	if cont == 0 {
		ex.endPath("violation on every continuation")
	}
	ex.addPC(c)
}

// crash records a definite failure of the current path (panic, nil deref, ...) and ends it.
func (ex *Exec) crash(msg string) {
	ex.Stats.Obligations++
	ex.recordViolation("panic", msg, ex.curFrame(), nil)
	ex.endPath("crash: " + msg)
}

func (ex *Exec) curFrame() *frame {
	if ex.cur != nil {
		return ex.cur.top
	}
	return nil
}

func (ex *Exec) posOf(fr *frame) string {
	for f := fr; f != nil; f = f.caller {
		if f.curInstr == nil {
			continue
		}
		pos := f.curInstr.Pos()
		if ifi, ok := f.curInstr.(*ssa.If); ok && pos == token.NoPos {
			pos = ifi.Cond.Pos()
		}
		if pos != token.NoPos {
			p := ex.prog.Fset.Position(pos)
			return fmt.Sprintf("%s:%d", trimPath(p.Filename), p.Line)
		}
	}
	if fr != nil {
		return fr.fn.String()
	}
	return "?"
}

func trimPath(p string) string {
	p = strings.TrimPrefix(p, "/repo/")
	if i := strings.Index(p, "/pkg/mod/"); i >= 0 {
		p = p[i+9:]
	}
	return p
}

func (ex *Exec) stackOf(fr *frame) []string {
	var out []string
	for f := fr; f != nil; f = f.caller {
		s := f.fn.String()
		if f.curInstr != nil && f.curInstr.Pos() != token.NoPos {
			p := ex.prog.Fset.Position(f.curInstr.Pos())
			s += fmt.Sprintf(" (%s:%d)", trimPath(p.Filename), p.Line)
		}
		out = append(out, s)
		if len(out) > 25 {
			break
		}
	}
	return out
}

func (ex *Exec) recordViolation(kind, msg string, fr *frame, extra []*Term) {
	v := &Violation{Harness: ex.harnessName, Kind: kind, Msg: msg, Pos: ex.posOf(fr), Stack: ex.stackOf(fr)}
	if len(ex.trace) > 60 {
		v.Trace = append([]string(nil), ex.trace[len(ex.trace)-60:]...)
	} else {
		v.Trace = append([]string(nil), ex.trace...)
	}
	// a known finding is kept once per entry of the known-findings file and never hides another
	// violation at the same assertion (a different history failing the same assertion is reported)
	vkey := v.Key()
	if ex.cfg.KnownClass != nil {
		if k := ex.cfg.KnownClass(v); k >= 0 {
			v.Known = k + 1
			vkey = fmt.Sprintf("known#%d", k)
		}
	}
	if ex.vioKeys[vkey] {
		return
	}
	if ex.cfg.FixedInputs != nil {
		v.Inputs = ex.cfg.FixedInputs
	} else {
		v.Inputs = ex.modelFor(extra)
		if v.Inputs == nil {
			ex.inconclusive("could not obtain model for violation at %s: %s", v.Pos, msg)
			return
		}
	}
	ex.vioKeys[vkey] = true
	v.Decisions = ex.decisionList()
	for i := 0; i < ex.dpos && i < len(ex.decisions); i++ {
		if isSchedKind(ex.decisions[i].kind) {
			v.Sched = append(v.Sched, ex.decisions[i].taken)
		}
	}
	v.Atoms = append([]string(nil), ex.ts.AtomTable()...)
	ex.Violations = append(ex.Violations, v)
}

func (ex *Exec) tracef(f string, a ...interface{}) {
	if ex.cfg.Trace {
		fmt.Fprintf(os.Stderr, f+"\n", a...)
	}
}

func (ex *Exec) note(f string, a ...interface{}) {
	ex.trace = append(ex.trace, fmt.Sprintf(f, a...))
}

// SortedKeys helper for evidence.
func SortedKeys(m map[string]bool) []string {
	var ks []string
	for k := range m {
		ks = append(ks, k)
	}
	sort.Strings(ks)
	return ks
}

// templateHash is a structural hash of everything reachable from the post-init globals.
func (ex *Exec) templateHash() uint64 {
	h := uint64(1469598103934665603)
	mix := func(x uint64) { h ^= x; h *= 1099511628211 }
	seenP := map[*Value]bool{}
	seenM := map[*Map]bool{}
	var walk func(v Value, depth int)
	walk = func(v Value, depth int) {
		if depth > 64 {
			return
		}
		switch v := v.(type) {
		case nil:
			mix(1)
		case *Term:
			mix(uint64(v.id) + 2)
		case Struct:
			mix(3)
			for _, x := range v {
				walk(x, depth+1)
			}
		case Array:
			mix(4)
			for _, x := range v {
				walk(x, depth+1)
			}
		case Tuple:
			mix(5)
			for _, x := range v {
				walk(x, depth+1)
			}
		case *Value:
			if v == nil {
				mix(6)
				return
			}
			if seenP[v] {
				mix(7)
				return
			}
			seenP[v] = true
			mix(8)
			walk(*v, depth+1)
		case []Value:
			mix(uint64(len(v)) + 9)
			for _, x := range v {
				walk(x, depth+1)
			}
		case *Map:
			if v == nil || seenM[v] {
				mix(10)
				return
			}
			seenM[v] = true
			mix(uint64(len(v.Entries)) + 11)
			for _, e := range v.Entries {
				walk(e.k, depth+1)
				walk(e.v, depth+1)
			}
		case Iface:
			mix(12)
			walk(v.V, depth+1)
		case *Closure:
			mix(13)
			if v != nil {
				for _, x := range v.Env {
					walk(x, depth+1)
				}
			}
		case *Chan:
			mix(14)
			if v != nil {
				mix(uint64(len(v.Buf)))
			}
		default:
			mix(15)
		}
	}
	var gs []*ssa.Global
	for g := range ex.initTemplate {
		gs = append(gs, g)
	}
	sort.Slice(gs, func(i, j int) bool { return gs[i].String() < gs[j].String() })
	for _, g := range gs {
		walk(ex.initTemplate[g], 0)
	}
	return h
}

// Merge folds the results of another worker of the same harness (disjoint partition) into ex.
func (ex *Exec) Merge(o *Exec) {
	a, b := &ex.Stats, &o.Stats
	a.Paths += b.Paths
	a.Instrs += b.Instrs
	a.Obligations += b.Obligations
	a.Discharged += b.Discharged
	a.Disagreements += b.Disagreements
	a.SchedPoints += b.SchedPoints
	a.RaceChecks += b.RaceChecks
	a.SyncEdges += b.SyncEdges
	a.DeadlockChecks += b.DeadlockChecks
	a.IfConverted += b.IfConverted
	if b.MaxDecisions > a.MaxDecisions {
		a.MaxDecisions = b.MaxDecisions
	}
	for k, v := range b.Reached {
		a.Reached[k] += v
	}
	for k := range b.Funcs {
		a.Funcs[k] = true
	}
	for k, v := range b.Havocked {
		a.Havocked[k] += v
	}
	for k, v := range b.Stubs {
		a.Stubs[k] += v
	}
	for k, v := range b.SolverQueries {
		a.SolverQueries[k] += v
	}
	for k, v := range b.SolverTime {
		a.SolverTime[k] += v
	}
	for k, v := range b.ForkSites {
		if a.ForkSites == nil {
			a.ForkSites = map[string]int{}
		}
		a.ForkSites[k] += v
	}
	for _, m := range b.Inconclusive {
		ex.inconclusive("%s", m)
	}
	for _, s := range b.Samples {
		if len(a.Samples) < 6 {
			a.Samples = append(a.Samples, s)
		}
	}
	for _, v := range o.Violations {
		if v.Known > 0 {
			kk := fmt.Sprintf("known#%d", v.Known-1)
			if ex.vioKeys[kk] {
				continue
			}
			ex.vioKeys[kk] = true
			ex.Violations = append(ex.Violations, v)
			continue
		}
		if !ex.vioKeys[v.Key()] {
			ex.vioKeys[v.Key()] = true
			ex.Violations = append(ex.Violations, v)
		}
	}
}

// fnChain names the innermost n non-harness functions of a task's stack, innermost first,
// without line numbers (stable under unrelated edits; used in deadlock signatures).
func (ex *Exec) fnChain(fr *frame, n int) string {
	var out []string
	for f := fr; f != nil && len(out) < n; f = f.caller {
		if ex.isHarnessFn(f.fn) {
			continue
		}
		out = append(out, f.fn.String())
	}
	return strings.Join(out, " < ")
}

func (ex *Exec) unknownViolations() int {
	n := 0
	for _, v := range ex.Violations {
		if v.Known == 0 {
			n++
		}
	}
	return n
}
