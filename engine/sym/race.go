package sym

import (
	"fmt"
	"path/filepath"
	"strings"

	"golang.org/x/tools/go/ssa"
)

// Happens-before data-race detection (vector clocks, FastTrack-style) over the interpreted program.
// Synchronisation edges: go statement, mutex/rwmutex unlock->lock, channel send->receive and
// close->receive, WaitGroup Done->Wait, Once, atomic operations on the same cell, context
// cancellation->Done. Plain loads/stores through pointers, and map reads/writes, are checked: two
// accesses to the same cell from different tasks, at least one a write, neither ordered before the
// other, are reported as a violation of kind "race" (in every schedule in which both happen, so one
// explored schedule suffices to see it). Accesses made by harness code are not tracked.

type vclock map[int]int

func (v vclock) copyVC() vclock {
	c := make(vclock, len(v))
	for k, x := range v {
		c[k] = x
	}
	return c
}

func vcJoin(dst, src vclock) vclock {
	if src == nil {
		return dst
	}
	if dst == nil {
		dst = vclock{}
	}
	for k, x := range src {
		if x > dst[k] {
			dst[k] = x
		}
	}
	return dst
}

type accessInfo struct {
	task  int
	clock int
	site  string
}

type shadowCell struct {
	w     accessInfo
	hasW  bool
	reads map[int]accessInfo
}

func (ex *Exec) raceActive(fr *frame) bool {
	if !ex.cfg.Race || ex.cur == nil || len(ex.tasks) < 2 || fr == nil {
		return false
	}
	return !ex.isHarnessFn(fr.fn)
}

func (ex *Exec) isHarnessFn(fn *ssa.Function) bool {
	if v, ok := ex.harnessFnCache[fn]; ok {
		return v
	}
	f := fn
	for f.Parent() != nil {
		f = f.Parent()
	}
	v := false
	if pos := f.Pos(); pos.IsValid() {
		file := ex.prog.Fset.Position(pos).Filename
		name := filepath.Base(file)
		v = strings.HasPrefix(name, "zz_verif_") || strings.Contains(file, "/zzverif/")
		if strings.Contains(file, "/zzverif/toy/") && !strings.HasPrefix(f.Name(), "Verif") {
			v = false // the engine self-test programs: their helper methods are the code under test
		}
	} else if f.Pkg != nil && strings.Contains(f.Pkg.Pkg.Path(), "zzverif") {
		v = true
	}
	if ex.harnessFnCache == nil {
		ex.harnessFnCache = map[*ssa.Function]bool{}
	}
	ex.harnessFnCache[fn] = v
	return v
}

func (ex *Exec) curVC() vclock {
	t := ex.cur
	if t.vc == nil {
		t.vc = vclock{t.id: 1}
	}
	return t.vc
}

// tick advances the current task's own clock (after a release operation).
func (ex *Exec) tick() {
	if ex.cur == nil {
		return
	}
	vc := ex.curVC()
	vc[ex.cur.id]++
}

func (ex *Exec) hb(a accessInfo) bool {
	if a.task == ex.cur.id {
		return true
	}
	return a.clock <= ex.curVC()[a.task]
}

func (ex *Exec) raceSite(fr *frame) string {
	return fr.fn.String() + " (" + ex.posOf(fr) + ")"
}

func (ex *Exec) reportRace(what string, fr *frame, prev accessInfo, prevKind, curKind string) {
	a, b := prev.site, ex.raceSite(fr)
	msg := fmt.Sprintf("data race on %s: %s at %s is concurrent with %s at %s", what, prevKind, a, curKind, b)
	ex.Stats.Obligations++
	ex.recordViolation("race", msg, fr, nil)
}

func (ex *Exec) cellsOf(p *Value, out []*Value, depth int) []*Value {
	out = append(out, p)
	if depth > 3 {
		return out
	}
	switch v := (*p).(type) {
	case Struct:
		for i := range v {
			out = ex.cellsOf(&v[i], out, depth+1)
		}
	case Array:
		for i := range v {
			out = ex.cellsOf(&v[i], out, depth+1)
		}
	}
	return out
}

func (ex *Exec) shadowOf(key interface{}) *shadowCell {
	if ex.shadow == nil {
		ex.shadow = map[interface{}]*shadowCell{}
	}
	s := ex.shadow[key]
	if s == nil {
		s = &shadowCell{}
		ex.shadow[key] = s
	}
	return s
}

func (ex *Exec) raceReadKey(fr *frame, key interface{}, what string) {
	ex.Stats.RaceChecks++
	s := ex.shadowOf(key)
	if s.hasW && !ex.hb(s.w) {
		ex.reportRace(what, fr, s.w, "write", "read")
	}
	if s.reads == nil {
		s.reads = map[int]accessInfo{}
	}
	s.reads[ex.cur.id] = accessInfo{ex.cur.id, ex.curVC()[ex.cur.id], ex.raceSite(fr)}
}

func (ex *Exec) raceWriteKey(fr *frame, key interface{}, what string) {
	ex.Stats.RaceChecks++
	s := ex.shadowOf(key)
	if s.hasW && !ex.hb(s.w) {
		ex.reportRace(what, fr, s.w, "write", "write")
	}
	for _, r := range s.reads {
		if !ex.hb(r) {
			ex.reportRace(what, fr, r, "read", "write")
		}
	}
	s.w = accessInfo{ex.cur.id, ex.curVC()[ex.cur.id], ex.raceSite(fr)}
	s.hasW = true
	s.reads = nil
}

func (ex *Exec) raceRead(fr *frame, p *Value, what string) {
	if !ex.raceActive(fr) {
		return
	}
	for _, c := range ex.cellsOf(p, nil, 0) {
		ex.raceReadKey(fr, c, what)
	}
}

func (ex *Exec) raceWrite(fr *frame, p *Value, what string) {
	if !ex.raceActive(fr) {
		return
	}
	for _, c := range ex.cellsOf(p, nil, 0) {
		ex.raceWriteKey(fr, c, what)
	}
}

func (ex *Exec) raceMapRead(fr *frame, m *Map) {
	if m != nil && ex.raceActive(fr) {
		ex.raceReadKey(fr, m, "a map")
	}
}

func (ex *Exec) raceMapWrite(fr *frame, m *Map) {
	if m != nil && ex.raceActive(fr) {
		ex.raceWriteKey(fr, m, "a map")
	}
}

// acquire/release on a synchronisation object's clock
func (ex *Exec) acquireVC(src vclock) {
	if !ex.cfg.Race || ex.cur == nil || src == nil {
		return
	}
	ex.cur.vc = vcJoin(ex.curVC(), src)
}

func (ex *Exec) releaseVC(dst vclock) vclock {
	if !ex.cfg.Race || ex.cur == nil {
		return dst
	}
	dst = vcJoin(dst, ex.curVC())
	ex.Stats.SyncEdges++
	ex.tick()
	return dst
}
