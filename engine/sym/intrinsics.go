package sym

import (
	"fmt"
	"go/types"
	"strings"

	"golang.org/x/tools/go/ssa"
)

const ZZ = "github.com/filecoin-project/go-data-transfer/v2/zzverif"

type ctxObj struct {
	parent      *ctxObj
	done        *Chan // nil for background
	err         Value // Iface
	children    []*ctxObj
	timer       *timerObj
	hasDeadline bool
}

type tracerObj struct{}

type mutexState struct {
	writer  bool
	readers int
	// writersWaiting: blocked Lock calls. Go's RWMutex lets a pending writer exclude NEW readers
	// (so a recursive RLock deadlocks when a writer arrives in between).
	writersWaiting int
	relVC          vclock // released by the last writer unlock (and WaitGroup.Done / Once)
	readVC         vclock // released by reader unlocks
}

func (ex *Exec) freshInternal(label string, s Sort) *Term {
	n := ex.symCounter["$"+label]
	ex.symCounter["$"+label] = n + 1
	name := fmt.Sprintf("$%s#%d", label, n)
	if ex.cfg.FixedInputs != nil {
		if v, ok := ex.cfg.FixedInputs[name]; ok {
			return ex.constFromGo(v, s)
		}
	}
	return ex.ts.Var(name, s)
}

func argStr(v Value) string {
	t, ok := v.(*Term)
	if !ok || !t.IsConst() || t.Sort.K != SAtom {
		panic(fmt.Sprintf("zzverif: label/message argument must be a constant string, got %s", Show(v)))
	}
	return t.S
}

func (ex *Exec) ctxValue(c *ctxObj) Value {
	return Iface{T: ex.externType("context"), V: &Extern{Name: "context", Data: c}}
}

func (ex *Exec) spanValue() Value {
	return Iface{T: ex.externType("otel.span"), V: &Extern{Name: "otel.span", Data: "span"}}
}

func ctxOf(v Value) *ctxObj {
	i, ok := v.(Iface)
	if !ok || i.T == nil {
		return nil
	}
	e, ok := i.V.(*Extern)
	if !ok {
		return nil
	}
	c, _ := e.Data.(*ctxObj)
	return c
}

func (ex *Exec) cancelCtx(c *ctxObj, err Value) {
	if c.done == nil || c.done.Closed {
		return
	}
	c.done.Closed = true
	c.done.CloseVC = ex.releaseVC(c.done.CloseVC)
	c.err = err
	for _, ch := range c.children {
		ex.cancelCtx(ch, err)
	}
}

func (ex *Exec) sentinelErr(name string) Value {
	return ex.opaqueIface(name, nil)
}

// opaqueIface returns the per-path unique opaque interface value called name.
// OpaqueIface is the exported form of opaqueIface.
func (ex *Exec) OpaqueIface(name string, t types.Type) Value { return ex.opaqueIface(name, t) }

// ---- CID accessors ---------------------------------------------------------------------------
//
// A CID is an opaque identity (one atom, the hidden `str` field). Code that looks INSIDE a CID
// (Hash, Type/codec, Version, Prefix) gets a refinement: identity = (codec, multihash), i.e. each
// CID atom s is given two further inputs s@codec (64-bit) and s@hash (an atom standing for the
// multihash bytes) with s1 == s2 <=> (codec1 == codec2 and hash1 == hash2) for all CID atoms the
// accessors have been applied to; version is 1. Constant atoms (zz.CidFromAtom("x")) are raw-codec
// CIDs whose hash is the atom itself - exactly what the native zz.Cid builds from these inputs, so
// counterexamples replay.
func (ex *Exec) cidParts(s *Term) (codec, hash *Term) {
	if s.Op == OIte {
		c1, h1 := ex.cidParts(s.Args[1])
		c2, h2 := ex.cidParts(s.Args[2])
		return ex.ts.Ite(s.Args[0], c1, c2), ex.ts.Ite(s.Args[0], h1, h2)
	}
	if p, ok := ex.cidAtoms[s]; ok {
		return p[0], p[1]
	}
	if ex.cidAtoms == nil {
		ex.cidAtoms = map[*Term][2]*Term{}
	}
	if s.Op == OVar {
		codec = ex.fresh(s.S+"@codec", BV(64))
		hash = ex.fresh(s.S+"@hash", AtomSort)
	} else if s.IsConst() {
		codec = ex.ts.BVConst(0x55, 64) // cid.Raw
		hash = s
	} else {
		codec = ex.ts.App("cidcodec", BV(64), s)
		hash = ex.ts.App("cidhash", AtomSort, s)
	}
	for _, o := range ex.cidOrder {
		p := ex.cidAtoms[o]
		same := ex.ts.And(ex.ts.Eq(codec, p[0]), ex.ts.Eq(hash, p[1]))
		ex.axioms++
		ex.addPC(ex.ts.Eq(ex.ts.Eq(s, o), same))
	}
	ex.cidAtoms[s] = [2]*Term{codec, hash}
	ex.cidOrder = append(ex.cidOrder, s)
	return codec, hash
}

// ByteSlice builds a concrete []byte value (for read-only globals of dependencies).
func (ex *Exec) ByteSlice(b []byte) Value {
	out := make([]Value, len(b))
	for i, x := range b {
		out[i] = ex.ts.BVConst(uint64(x), 8)
	}
	return out
}

func (ex *Exec) opaqueIface(name string, t types.Type) Value {
	if v, ok := ex.opaques[name]; ok {
		return v
	}
	v := Iface{T: ex.externType(name), V: &Extern{Name: name, Type: t}}
	ex.opaques[name] = v
	return v
}

func (ex *Exec) newChildCtx(parent *ctxObj) *ctxObj {
	c := &ctxObj{parent: parent, done: &Chan{Cap: 0, Name: "ctx.Done"}}
	if parent != nil {
		parent.children = append(parent.children, c)
		if parent.done != nil && parent.done.Closed {
			c.done.Closed = true
			c.err = parent.err
		}
		c.hasDeadline = parent.hasDeadline
	}
	return c
}

func ctxMethod(c *ctxObj, method string) IntrinsicFn {
	switch method {
	case "Done":
		return func(ex *Exec, fr *frame, args []Value) Value { return c.done }
	case "Err":
		return func(ex *Exec, fr *frame, args []Value) Value {
			if c.done != nil && c.done.Closed {
				return c.err
			}
			return Iface{}
		}
	case "Deadline":
		return func(ex *Exec, fr *frame, args []Value) Value {
			if c.hasDeadline {
				return Tuple{ex.nowValue(), ex.ts.True()}
			}
			return Tuple{ex.zeroTime(), ex.ts.False()}
		}
	case "Value":
		return func(ex *Exec, fr *frame, args []Value) Value { return Iface{} }
	}
	return nil
}

// time.Time is modelled as its real struct shape {wall uint64, ext int64, loc *Location};
// wall is 1 for every instant produced by the clock and ext is the symbolic reading.
func (ex *Exec) timeType() types.Type {
	return ex.prog.ImportedPackage("time").Type("Time").Type()
}

func (ex *Exec) zeroTime() Value { return ex.zero(ex.timeType()) }

func (ex *Exec) nowValue() Value {
	t := ex.zero(ex.timeType()).(Struct)
	reading := ex.freshInternal("now", BV(64))
	// non-decreasing positive readings below 2^62
	lo := ex.ts.BVConst(1, 64)
	if ex.lastNow != nil {
		lo = ex.lastNow
	}
	ex.addPC(ex.ts.Bin(OSLe, lo, reading))
	ex.addPC(ex.ts.Bin(OSLt, reading, ex.ts.BVConst(1<<62, 64)))
	ex.lastNow = reading
	t[0] = ex.ts.BVConst(1, 64)
	t[1] = reading
	return t
}

func (ex *Exec) mutexOf(v Value) *mutexState {
	p := v.(*Value)
	if p == nil {
		ex.crash("nil pointer dereference (mutex)")
	}
	if ex.mutexes == nil {
		ex.mutexes = map[*Value]*mutexState{}
	}
	m := ex.mutexes[p]
	if m == nil {
		m = &mutexState{}
		ex.mutexes[p] = m
	}
	return m
}

func (ex *Exec) preemptPoint(fr *frame) {
	if ex.cfg.Preemptive && fr != nil && ex.preemptInStack(fr) {
		ex.yield()
	}
}

// preemptInStack: the function, or any of its (dynamic) callers, is listed in PreemptFns - a listed
// function is pre-emptible together with everything it calls.
func (ex *Exec) preemptInStack(fr *frame) bool {
	if len(ex.cfg.Policy.PreemptFns) == 0 {
		return true
	}
	if ex.cfg.Policy.PreemptIn(fr.fn) {
		return true
	}
	if ex.isHarnessFn(fr.fn) {
		return false // doubles called from a listed function are not pre-emptible themselves
	}
	for f := fr.caller; f != nil; f = f.caller {
		if ex.cfg.Policy.PreemptIn(f.fn) {
			return true
		}
	}
	return false
}

// errors.Is semantics over interpreted error values.
func (ex *Exec) errorsIs(fr *frame, err, target Value) bool {
	for depth := 0; depth < 12; depth++ {
		e := err.(Iface)
		if e.T == nil {
			return isNilValue(target)
		}
		tgt, _ := target.(Iface)
		if tgt.T != nil && types.Identical(e.T, tgt.T) && types.Comparable(e.T) {
			if ex.branch(ex.eq(e.T, e.V, tgt.V)) {
				return true
			}
		}
		if _, isExt := e.V.(*Extern); isExt {
			return false
		}
		// Is(error) bool method
		if m := ex.findMethod(e.T, "Is"); m != nil && m.Signature.Params().Len() == 1 {
			r := ex.callSSA(fr, m, []Value{e.V, target}, nil)
			if ex.branch(r.(*Term)) {
				return true
			}
		}
		m := ex.findMethod(e.T, "Unwrap")
		if m == nil || m.Signature.Results().Len() != 1 {
			return false
		}
		if _, ok := m.Signature.Results().At(0).Type().Underlying().(*types.Interface); !ok {
			return false
		}
		err = ex.callSSA(fr, m, []Value{e.V}, nil)
	}
	return false
}

func (ex *Exec) findMethod(t types.Type, name string) *ssa.Function {
	ms := ex.prog.MethodSets.MethodSet(t)
	for i := 0; i < ms.Len(); i++ {
		if ms.At(i).Obj().Name() == name {
			return ex.prog.MethodValue(ms.At(i))
		}
	}
	return nil
}

// newWrapError builds a *fmt.wrapError / *fmt.fmtError-like value using the real fmt types.
func (ex *Exec) newFmtError(msg *Term, wrapped Value) Value {
	fmtPkg := ex.prog.ImportedPackage("fmt")
	if wrapped != nil {
		wt := fmtPkg.Type("wrapError").Type()
		cell := new(Value)
		s := ex.zero(wt).(Struct)
		s[0] = msg
		s[1] = wrapped
		*cell = s
		return Iface{T: types.NewPointer(wt), V: cell}
	}
	errPkg := ex.prog.ImportedPackage("errors")
	et := errPkg.Type("errorString").Type()
	cell := new(Value)
	s := ex.zero(et).(Struct)
	s[0] = msg
	*cell = s
	return Iface{T: types.NewPointer(et), V: cell}
}

// sprintfTerm: formatted strings are uninterpreted functions of the format and the scalar
// arguments (so equal arguments give equal strings); anything else yields a fresh atom.
func (ex *Exec) sprintfTerm(format Value, args []Value) *Term {
	f, ok := format.(*Term)
	if !ok || !f.IsConst() {
		return ex.freshInternal("sprintf", AtomSort)
	}
	var ts []*Term
	sig := ""
	for _, a := range args {
		if i, isI := a.(Iface); isI {
			a = i.V
			if i.T == nil {
				return ex.freshInternal("sprintf", AtomSort)
			}
		}
		t, isT := a.(*Term)
		if !isT {
			return ex.freshInternal("sprintf", AtomSort)
		}
		ts = append(ts, t)
		sig += t.Sort.String()
	}
	if len(ts) == 0 {
		return ex.ts.Str(f.S)
	}
	allConst := true
	for _, t := range ts {
		if !t.IsConst() {
			allConst = false
		}
	}
	if allConst {
		parts := []string{f.S}
		for _, t := range ts {
			parts = append(parts, t.String())
		}
		return ex.ts.Str("sprintf(" + strings.Join(parts, ",") + ")")
	}
	return ex.ts.App("sprintf:"+f.S+"|"+sig, AtomSort, ts...)
}

func variadic(v Value) []Value {
	if v == nil {
		return nil
	}
	return v.([]Value)
}

// symbolicFill assigns fresh symbolic leaves to every scalar/string field reachable by value.
func (ex *Exec) symbolicFill(p *Value, t types.Type, label string) {
	switch u := t.Underlying().(type) {
	case *types.Basic:
		switch {
		case u.Info()&types.IsBoolean != 0:
			*p = ex.fresh(label, BoolSort)
		case u.Info()&types.IsString != 0:
			*p = ex.fresh(label, AtomSort)
		case u.Info()&types.IsInteger != 0:
			*p = ex.fresh(label, BV(intWidth(u)))
		case u.Info()&types.IsFloat != 0:
			*p = ex.fresh(label, FPSort)
		}
	case *types.Struct:
		s := (*p).(Struct)
		for i := 0; i < u.NumFields(); i++ {
			ex.symbolicFill(&s[i], u.Field(i).Type(), label+"."+u.Field(i).Name())
		}
	case *types.Array:
		a := (*p).(Array)
		for i := range a {
			ex.symbolicFill(&a[i], u.Elem(), fmt.Sprintf("%s[%d]", label, i))
		}
	}
}

// sameScalars: conjunction of the equalities of every bool/integer/float/string leaf reachable by
// value (the traversal of symbolicFill); pointers, slices, maps and interfaces are skipped.
func (ex *Exec) sameScalars(a, b Value, t types.Type) *Term {
	switch u := t.Underlying().(type) {
	case *types.Basic:
		return ex.eq(t, a, b)
	case *types.Struct:
		x, y := a.(Struct), b.(Struct)
		acc := ex.ts.True()
		for i := 0; i < u.NumFields(); i++ {
			acc = ex.ts.And(acc, ex.sameScalars(x[i], y[i], u.Field(i).Type()))
		}
		return acc
	case *types.Array:
		x, y := a.(Array), b.(Array)
		acc := ex.ts.True()
		for i := range x {
			acc = ex.ts.And(acc, ex.sameScalars(x[i], y[i], u.Elem()))
		}
		return acc
	}
	return ex.ts.True()
}

func qualifierName(p *types.Package) string { return p.Name() }

// opaqueNodeType is the dynamic type of zzverif.Node values: a comparable struct holding one atom.
func (ex *Exec) opaqueNodeType() types.Type {
	if t, ok := ex.externTypes["$ipldnode"]; ok {
		return t
	}
	tn := types.NewTypeName(0, nil, "opaqueNode", nil)
	st := types.NewStruct([]*types.Var{types.NewField(0, nil, "id", types.Typ[types.String], false)}, nil)
	t := types.NewNamed(tn, st, nil)
	ex.externTypes["$ipldnode"] = t
	return t
}

// BaseIntrinsics returns the engine-implemented functions.
func BaseIntrinsics() map[string]IntrinsicFn {
	m := map[string]IntrinsicFn{}
	bv64 := BV(64)

	// ---- harness API ----
	m[ZZ+".Bool"] = func(ex *Exec, fr *frame, a []Value) Value { return ex.fresh(argStr(a[0]), BoolSort) }
	m[ZZ+".Uint64"] = func(ex *Exec, fr *frame, a []Value) Value { return ex.fresh(argStr(a[0]), bv64) }
	m[ZZ+".Int64"] = func(ex *Exec, fr *frame, a []Value) Value { return ex.fresh(argStr(a[0]), bv64) }
	m[ZZ+".Int"] = func(ex *Exec, fr *frame, a []Value) Value { return ex.fresh(argStr(a[0]), bv64) }
	m[ZZ+".Uint32"] = func(ex *Exec, fr *frame, a []Value) Value { return ex.fresh(argStr(a[0]), BV(32)) }
	m[ZZ+".Float64"] = func(ex *Exec, fr *frame, a []Value) Value { return ex.fresh(argStr(a[0]), FPSort) }
	m[ZZ+".String"] = func(ex *Exec, fr *frame, a []Value) Value { return ex.fresh(argStr(a[0]), AtomSort) }
	m[ZZ+".Choice"] = func(ex *Exec, fr *frame, a []Value) Value {
		label := argStr(a[0])
		n := int(ex.concreteInt(a[1], "Choice n"))
		if ex.cfg.FixedInputs != nil {
			v := ex.fresh("choice:"+label, bv64)
			k := int(v.V)
			if k < 0 || k >= n {
				k = 0
			}
			return ex.ts.BVConst(uint64(k), 64)
		}
		// a symbolic input constrained to [0,n) and then case-split, so that the
		// counterexample carries the value
		v := ex.fresh("choice:"+label, bv64)
		ex.addPC(ex.ts.Bin(OULt, v, ex.ts.BVConst(uint64(n), 64)))
		k := ex.choose(seq(n), "choice")
		ex.addPC(ex.ts.Eq(v, ex.ts.BVConst(uint64(k), 64)))
		return ex.ts.BVConst(uint64(k), 64)
	}
	m[ZZ+".Assume"] = func(ex *Exec, fr *frame, a []Value) Value { ex.assume(a[0].(*Term)); return nil }
	m[ZZ+".Assert"] = func(ex *Exec, fr *frame, a []Value) Value {
		if ex.cfg.FixedInputs != nil {
			c := ex.simp(a[0].(*Term))
			if c.IsConst() {
				ex.ConcreteTrace = append(ex.ConcreteTrace, fmt.Sprintf("assert:%s:%v", argStr(a[1]), c.V == 1))
			} else {
				ex.ConcreteTrace = append(ex.ConcreteTrace, fmt.Sprintf("assert:%s:symbolic", argStr(a[1])))
			}
		}
		ex.obligation(a[0].(*Term), "assert", argStr(a[1]), fr)
		return nil
	}
	m[ZZ+".Fail"] = func(ex *Exec, fr *frame, a []Value) Value {
		ex.obligation(ex.ts.False(), "assert", argStr(a[0]), fr)
		return nil
	}
	m[ZZ+".Reach"] = func(ex *Exec, fr *frame, a []Value) Value {
		ex.Stats.Reached[argStr(a[0])]++
		if ex.cfg.FixedInputs != nil {
			ex.ConcreteTrace = append(ex.ConcreteTrace, "reach:"+argStr(a[0]))
		}
		return nil
	}
	m[ZZ+".Observe"] = func(ex *Exec, fr *frame, a []Value) Value {
		var parts []string
		for _, v := range variadic(a[1]) {
			parts = append(parts, Show(v))
		}
		ex.observed = append(ex.observed, argStr(a[0])+"="+strings.Join(parts, ","))
		ex.note("observe %s=%s", argStr(a[0]), strings.Join(parts, ","))
		return nil
	}
	m[ZZ+".Note"] = func(ex *Exec, fr *frame, a []Value) Value { ex.note("%s", Show(a[0])); return nil }
	m[ZZ+".Yield"] = func(ex *Exec, fr *frame, a []Value) Value { ex.yield(); return nil }
	m[ZZ+".Settle"] = func(ex *Exec, fr *frame, a []Value) Value { ex.settle(); return nil }
	m[ZZ+".FireTimer"] = func(ex *Exec, fr *frame, a []Value) Value {
		return ex.ts.Bool(ex.fireSomeTimer())
	}
	m[ZZ+".LiveTimers"] = func(ex *Exec, fr *frame, a []Value) Value {
		n := 0
		for _, t := range ex.timers {
			if !t.stopped && !t.fired {
				n++
			}
		}
		return ex.ts.BVConst(uint64(n), 64)
	}
	m[ZZ+".Symbolic"] = func(ex *Exec, fr *frame, a []Value) Value {
		itf := a[0].(Iface)
		p := itf.V.(*Value)
		ex.symbolicFill(p, mustDeref(itf.T), argStr(a[1]))
		return nil
	}
	m[ZZ+".SameScalars"] = func(ex *Exec, fr *frame, a []Value) Value {
		x, y := a[0].(Iface), a[1].(Iface)
		px, py := x.V.(*Value), y.V.(*Value)
		if px == nil || py == nil {
			ex.crash("SameScalars: nil pointer")
		}
		return ex.sameScalars(*px, *py, mustDeref(x.T))
	}
	m[ZZ+".Unexported"] = func(ex *Exec, fr *frame, a []Value) Value {
		itf := a[0].(Iface)
		name := argStr(a[1])
		t := itf.T
		v := itf.V
		if pt, ok := t.Underlying().(*types.Pointer); ok {
			p := v.(*Value)
			if p == nil {
				ex.crash("Unexported: nil pointer")
			}
			v = *p
			t = pt.Elem()
		}
		st, ok := t.Underlying().(*types.Struct)
		if !ok {
			panic("Unexported: not a struct: " + t.String())
		}
		for i := 0; i < st.NumFields(); i++ {
			if st.Field(i).Name() == name {
				fv := v.(Struct)[i]
				ft := st.Field(i).Type()
				if _, isI := ft.Underlying().(*types.Interface); isI {
					return fv
				}
				return Iface{T: ft, V: fv}
			}
		}
		panic("Unexported: no field " + name + " in " + t.String())
	}
	m[ZZ+".FieldNames"] = func(ex *Exec, fr *frame, a []Value) Value {
		itf := a[0].(Iface)
		t := itf.T
		if pt, ok := t.Underlying().(*types.Pointer); ok {
			t = pt.Elem()
		}
		st, ok := t.Underlying().(*types.Struct)
		if !ok {
			panic("FieldNames: not a struct: " + t.String())
		}
		var names []string
		for i := 0; i < st.NumFields(); i++ {
			names = append(names, st.Field(i).Name())
		}
		return ex.ts.Str(strings.Join(names, ","))
	}
	m[ZZ+".TypeName"] = func(ex *Exec, fr *frame, a []Value) Value {
		itf := a[0].(Iface)
		if itf.T == nil {
			return ex.ts.Str("<nil>")
		}
		return ex.ts.Str(types.TypeString(itf.T, qualifierName))
	}
	m[ZZ+".Error"] = func(ex *Exec, fr *frame, a []Value) Value {
		// an opaque non-nil error with its own identity
		label := argStr(a[0])
		return ex.newFmtError(ex.fresh("errmsg:"+label, AtomSort), nil)
	}
	m[ZZ+".Cid"] = func(ex *Exec, fr *frame, a []Value) Value {
		return Struct{ex.fresh(argStr(a[0])+".str", AtomSort)}
	}
	m[ZZ+".CidFromAtom"] = func(ex *Exec, fr *frame, a []Value) Value { return Struct{a[0]} }
	cidStr := func(v Value) *Term { return v.(Struct)[0].(*Term) }
	m["(github.com/ipfs/go-cid.Cid).Hash"] = func(ex *Exec, fr *frame, a []Value) Value {
		_, h := ex.cidParts(cidStr(a[0]))
		return h // an atom standing for the multihash bytes (only equality is interpreted)
	}
	m["(github.com/ipfs/go-cid.Cid).Type"] = func(ex *Exec, fr *frame, a []Value) Value {
		c, _ := ex.cidParts(cidStr(a[0]))
		return c
	}
	m["(github.com/ipfs/go-cid.Cid).Version"] = func(ex *Exec, fr *frame, a []Value) Value { return ex.ts.BVConst(1, 64) }
	m["bytes.Equal"] = func(ex *Exec, fr *frame, a []Value) Value {
		x, okx := a[0].(*Term)
		y, oky := a[1].(*Term)
		if okx && oky {
			return ex.ts.Eq(x, y)
		}
		xs, okx := a[0].([]Value)
		ys, oky := a[1].([]Value)
		if okx && oky {
			if len(xs) != len(ys) {
				return ex.ts.False()
			}
			acc := ex.ts.True()
			for i := range xs {
				acc = ex.ts.And(acc, ex.ts.Eq(xs[i].(*Term), ys[i].(*Term)))
			}
			return acc
		}
		panic("bytes.Equal: unsupported operands")
	}
	m[ZZ+".Node"] = func(ex *Exec, fr *frame, a []Value) Value {
		return Iface{T: ex.opaqueNodeType(), V: Struct{ex.fresh(argStr(a[0]), AtomSort)}}
	}
	deepEqual := func(ex *Exec, fr *frame, a []Value) Value {
		x, y := a[0].(Iface), a[1].(Iface)
		if x.T == nil || y.T == nil {
			return ex.ts.Bool(x.T == nil && y.T == nil)
		}
		if !types.Identical(x.T, y.T) {
			return ex.ts.False()
		}
		return ex.eq(x.T, x.V, y.V)
	}
	m["github.com/ipld/go-ipld-prime/datamodel.DeepEqual"] = deepEqual
	m["github.com/ipld/go-ipld-prime.DeepEqual"] = deepEqual
	m[ZZ+".Ite"] = func(ex *Exec, fr *frame, a []Value) Value {
		c := a[0].(*Term)
		if v, ok := ex.valueIte(c, a[1], a[2]); ok {
			return v
		}
		if ex.branch(c) {
			return a[1]
		}
		return a[2]
	}
	m[ZZ+".Engine"] = func(ex *Exec, fr *frame, a []Value) Value { return ex.ts.True() }
	m[ZZ+".Preempt"] = func(ex *Exec, fr *frame, a []Value) Value { ex.yield(); return nil }

	// ---- sync ----
	lock := func(ex *Exec, fr *frame, a []Value) Value {
		ms := ex.mutexOf(a[0])
		ex.preemptPoint(fr)
		ms.writersWaiting++
		ex.block("mutex Lock at "+ex.posOf(fr), func() bool { return !ms.writer && ms.readers == 0 })
		ms.writersWaiting--
		ms.writer = true
		ex.acquireVC(ms.relVC)
		ex.acquireVC(ms.readVC)
		return nil
	}
	unlock := func(ex *Exec, fr *frame, a []Value) Value {
		ms := ex.mutexOf(a[0])
		if !ms.writer {
			ex.crash("sync: unlock of unlocked mutex")
		}
		ms.writer = false
		ms.relVC = ex.releaseVC(ms.relVC)
		ex.preemptPoint(fr)
		return nil
	}
	m["(*sync.Mutex).Lock"] = lock
	m["(*sync.Mutex).Unlock"] = unlock
	m["(*sync.RWMutex).Lock"] = lock
	m["(*sync.RWMutex).Unlock"] = unlock
	m["(*sync.RWMutex).RLock"] = func(ex *Exec, fr *frame, a []Value) Value {
		ms := ex.mutexOf(a[0])
		ex.preemptPoint(fr)
		ex.block("mutex RLock at "+ex.posOf(fr), func() bool { return !ms.writer && ms.writersWaiting == 0 })
		ms.readers++
		ex.acquireVC(ms.relVC)
		return nil
	}
	m["(*sync.RWMutex).RUnlock"] = func(ex *Exec, fr *frame, a []Value) Value {
		ms := ex.mutexOf(a[0])
		if ms.readers == 0 {
			ex.crash("sync: RUnlock of unlocked RWMutex")
		}
		ms.readers--
		ms.readVC = ex.releaseVC(ms.readVC)
		ex.preemptPoint(fr)
		return nil
	}
	m["(*sync.Once).Do"] = func(ex *Exec, fr *frame, a []Value) Value {
		ms := ex.mutexOf(a[0])
		if ms.readers == 0 {
			ms.readers = 1
			ex.call(fr, a[1], nil)
			ms.relVC = ex.releaseVC(ms.relVC)
		} else {
			ex.acquireVC(ms.relVC)
		}
		return nil
	}
	m["(*sync.WaitGroup).Add"] = func(ex *Exec, fr *frame, a []Value) Value {
		ms := ex.mutexOf(a[0])
		ms.readers += int(ex.concreteInt(a[1], "WaitGroup.Add"))
		return nil
	}
	m["(*sync.WaitGroup).Done"] = func(ex *Exec, fr *frame, a []Value) Value {
		ms := ex.mutexOf(a[0])
		ms.readers--
		ms.relVC = ex.releaseVC(ms.relVC)
		return nil
	}
	m["(*sync.WaitGroup).Wait"] = func(ex *Exec, fr *frame, a []Value) Value {
		ms := ex.mutexOf(a[0])
		ex.block("WaitGroup.Wait", func() bool { return ms.readers <= 0 })
		ex.acquireVC(ms.relVC)
		return nil
	}

	// ---- sync/atomic ----
	atomicPtr := func(ex *Exec, v Value) *Value {
		p := v.(*Value)
		if p == nil {
			ex.crash("nil pointer dereference (atomic)")
		}
		if ex.cfg.Race && ex.cur != nil {
			// sequentially consistent atomics: acquire and release on the cell's clock
			if ex.atomicVC == nil {
				ex.atomicVC = map[*Value]vclock{}
			}
			ex.acquireVC(ex.atomicVC[p])
			ex.atomicVC[p] = ex.releaseVC(ex.atomicVC[p])
		}
		return p
	}
	for _, w := range []string{"Int32", "Int64", "Uint32", "Uint64"} {
		w := w
		m["sync/atomic.Load"+w] = func(ex *Exec, fr *frame, a []Value) Value {
			ex.preemptPoint(fr)
			return *atomicPtr(ex, a[0])
		}
		m["sync/atomic.Store"+w] = func(ex *Exec, fr *frame, a []Value) Value {
			ex.preemptPoint(fr)
			*atomicPtr(ex, a[0]) = a[1]
			return nil
		}
		m["sync/atomic.Add"+w] = func(ex *Exec, fr *frame, a []Value) Value {
			ex.preemptPoint(fr)
			p := atomicPtr(ex, a[0])
			nv := ex.ts.Bin(OAdd, (*p).(*Term), a[1].(*Term))
			*p = nv
			return nv
		}
		m["sync/atomic.Swap"+w] = func(ex *Exec, fr *frame, a []Value) Value {
			ex.preemptPoint(fr)
			p := atomicPtr(ex, a[0])
			old := *p
			*p = a[1]
			return old
		}
		m["sync/atomic.CompareAndSwap"+w] = func(ex *Exec, fr *frame, a []Value) Value {
			ex.preemptPoint(fr)
			p := atomicPtr(ex, a[0])
			if ex.branch(ex.ts.Eq((*p).(*Term), a[1].(*Term))) {
				*p = a[2]
				return ex.ts.True()
			}
			return ex.ts.False()
		}
	}

	// typed atomics (sync/atomic.Uint64 etc.): struct{ _ noCopy; [_ align64;] v T } - the value is
	// the LAST field
	typedCell := func(ex *Exec, v Value) Value {
		p := v.(*Value)
		if p == nil {
			ex.crash("nil pointer dereference (atomic)")
		}
		st := (*p).(Struct)
		return &st[len(st)-1]
	}
	for _, w := range []string{"Int32", "Int64", "Uint32", "Uint64"} {
		w := w
		m["(*sync/atomic."+w+").Load"] = func(ex *Exec, fr *frame, a []Value) Value {
			return m["sync/atomic.Load"+w](ex, fr, []Value{typedCell(ex, a[0])})
		}
		m["(*sync/atomic."+w+").Store"] = func(ex *Exec, fr *frame, a []Value) Value {
			return m["sync/atomic.Store"+w](ex, fr, []Value{typedCell(ex, a[0]), a[1]})
		}
		m["(*sync/atomic."+w+").Add"] = func(ex *Exec, fr *frame, a []Value) Value {
			return m["sync/atomic.Add"+w](ex, fr, []Value{typedCell(ex, a[0]), a[1]})
		}
		m["(*sync/atomic."+w+").Swap"] = func(ex *Exec, fr *frame, a []Value) Value {
			return m["sync/atomic.Swap"+w](ex, fr, []Value{typedCell(ex, a[0]), a[1]})
		}
		m["(*sync/atomic."+w+").CompareAndSwap"] = func(ex *Exec, fr *frame, a []Value) Value {
			return m["sync/atomic.CompareAndSwap"+w](ex, fr, []Value{typedCell(ex, a[0]), a[1], a[2]})
		}
	}
	m["(*sync/atomic.Bool).Load"] = func(ex *Exec, fr *frame, a []Value) Value {
		ex.preemptPoint(fr)
		c := atomicPtr(ex, typedCell(ex, a[0]))
		return ex.ts.Not(ex.ts.Eq((*c).(*Term), ex.ts.BVConst(0, 32)))
	}
	m["(*sync/atomic.Bool).Store"] = func(ex *Exec, fr *frame, a []Value) Value {
		ex.preemptPoint(fr)
		c := atomicPtr(ex, typedCell(ex, a[0]))
		*c = ex.ts.Ite(a[1].(*Term), ex.ts.BVConst(1, 32), ex.ts.BVConst(0, 32))
		return nil
	}

	// ---- errors / fmt ----
	m["errors.New"] = func(ex *Exec, fr *frame, a []Value) Value { return ex.newFmtError(a[0].(*Term), nil) }
	m["golang.org/x/xerrors.New"] = m["errors.New"]
	m["errors.Is"] = func(ex *Exec, fr *frame, a []Value) Value { return ex.ts.Bool(ex.errorsIs(fr, a[0], a[1])) }
	m["golang.org/x/xerrors.Is"] = m["errors.Is"]
	m["errors.Unwrap"] = func(ex *Exec, fr *frame, a []Value) Value {
		e := a[0].(Iface)
		if e.T == nil {
			return Iface{}
		}
		if _, isExt := e.V.(*Extern); isExt {
			return Iface{}
		}
		if mm := ex.findMethod(e.T, "Unwrap"); mm != nil {
			return ex.callSSA(fr, mm, []Value{e.V}, nil)
		}
		return Iface{}
	}
	errorf := func(ex *Exec, fr *frame, a []Value) Value {
		format := a[0].(*Term)
		args := variadic(a[1])
		var wrapped Value
		if format.IsConst() && strings.Contains(format.S, "%w") {
			// find the operand matching %w: count verbs before it
			idx := 0
			f := format.S
			for i := 0; i < len(f)-1; i++ {
				if f[i] == '%' {
					if f[i+1] == '%' {
						i++
						continue
					}
					// skip flags
					j := i + 1
					for j < len(f) && strings.ContainsRune("+-# 0123456789.", rune(f[j])) {
						j++
					}
					if j < len(f) && f[j] == 'w' {
						if idx < len(args) {
							if w, ok := args[idx].(Iface); ok && w.T != nil {
								wrapped = w
							}
						}
						break
					}
					idx++
					i = j
				}
			}
		}
		return ex.newFmtError(ex.sprintfTerm(format, args), wrapped)
	}
	m["fmt.Errorf"] = errorf
	m["golang.org/x/xerrors.Errorf"] = errorf
	m["fmt.Sprintf"] = func(ex *Exec, fr *frame, a []Value) Value { return ex.sprintfTerm(a[0], variadic(a[1])) }
	m["fmt.Sprint"] = func(ex *Exec, fr *frame, a []Value) Value { return ex.freshInternal("sprint", AtomSort) }
	m["fmt.Sprintln"] = m["fmt.Sprint"]
	m["fmt.Println"] = func(ex *Exec, fr *frame, a []Value) Value {
		return Tuple{ex.ts.BVConst(0, 64), Iface{}}
	}
	m["fmt.Printf"] = func(ex *Exec, fr *frame, a []Value) Value {
		return Tuple{ex.ts.BVConst(0, 64), Iface{}}
	}
	m["strconv.Itoa"] = func(ex *Exec, fr *frame, a []Value) Value {
		t := a[0].(*Term)
		if t.IsConst() {
			return ex.ts.Str(fmt.Sprint(sext(t.V, 64)))
		}
		return ex.ts.App("itoa", AtomSort, t)
	}

	// ---- time ----
	m["time.Now"] = func(ex *Exec, fr *frame, a []Value) Value { return ex.nowValue() }
	m["(time.Time).IsZero"] = func(ex *Exec, fr *frame, a []Value) Value {
		s := a[0].(Struct)
		return ex.ts.And(ex.ts.Eq(s[0].(*Term), ex.ts.BVConst(0, 64)), ex.ts.Eq(s[1].(*Term), ex.ts.BVConst(0, 64)))
	}
	m["time.Since"] = func(ex *Exec, fr *frame, a []Value) Value { return ex.freshInternal("since", bv64) }
	m["time.Until"] = m["time.Since"]
	m["(time.Time).Sub"] = func(ex *Exec, fr *frame, a []Value) Value {
		return ex.ts.Bin(OSub, a[0].(Struct)[1].(*Term), a[1].(Struct)[1].(*Term))
	}
	m["(time.Time).Add"] = func(ex *Exec, fr *frame, a []Value) Value {
		s := copyVal(a[0]).(Struct)
		s[1] = ex.ts.Bin(OAdd, s[1].(*Term), a[1].(*Term))
		return s
	}
	m["(time.Time).UnixNano"] = func(ex *Exec, fr *frame, a []Value) Value { return a[0].(Struct)[1] }
	m["(time.Time).UnixMilli"] = func(ex *Exec, fr *frame, a []Value) Value {
		return ex.ts.Bin(OSDiv, a[0].(Struct)[1].(*Term), ex.ts.BVConst(1000000, 64))
	}
	m["(time.Time).UnixMicro"] = func(ex *Exec, fr *frame, a []Value) Value {
		return ex.ts.Bin(OSDiv, a[0].(Struct)[1].(*Term), ex.ts.BVConst(1000, 64))
	}
	m["(time.Time).Unix"] = func(ex *Exec, fr *frame, a []Value) Value {
		return ex.ts.Bin(OSDiv, a[0].(Struct)[1].(*Term), ex.ts.BVConst(1000000000, 64))
	}
	m["(time.Time).UTC"] = func(ex *Exec, fr *frame, a []Value) Value { return a[0] }
	m["time.Unix"] = func(ex *Exec, fr *frame, a []Value) Value {
		t := ex.zero(ex.timeType()).(Struct)
		t[0] = ex.ts.BVConst(1, 64)
		sec, nsec := a[0].(*Term), a[1].(*Term)
		if sec.IsConst() && sec.V == 0 {
			t[1] = nsec
		} else {
			t[1] = ex.ts.Bin(OAdd, ex.ts.Bin(OMul, sec, ex.ts.BVConst(1000000000, 64)), nsec)
		}
		return t
	}
	m["(time.Time).Before"] = func(ex *Exec, fr *frame, a []Value) Value {
		return ex.ts.Bin(OSLt, a[0].(Struct)[1].(*Term), a[1].(Struct)[1].(*Term))
	}
	m["(time.Time).After"] = func(ex *Exec, fr *frame, a []Value) Value {
		return ex.ts.Bin(OSLt, a[1].(Struct)[1].(*Term), a[0].(Struct)[1].(*Term))
	}
	m["time.After"] = func(ex *Exec, fr *frame, a []Value) Value {
		t := ex.newTimer("time.After@" + ex.posOf(fr))
		return t.ch
	}
	m["time.NewTimer"] = func(ex *Exec, fr *frame, a []Value) Value {
		t := ex.newTimer("time.NewTimer@" + ex.posOf(fr))
		tt := ex.prog.ImportedPackage("time").Type("Timer").Type()
		s := ex.zero(tt).(Struct)
		s[0] = t.ch
		cell := new(Value)
		*cell = s
		return cell
	}
	m["(*time.Timer).Stop"] = func(ex *Exec, fr *frame, a []Value) Value {
		p := a[0].(*Value)
		if p == nil {
			ex.crash("nil pointer dereference ((*Timer).Stop)")
		}
		ch := (*p).(Struct)[0].(*Chan)
		was := !ch.Timer.stopped && !ch.Timer.fired
		ch.Timer.stopped = true
		return ex.ts.Bool(was)
	}
	m["time.Sleep"] = func(ex *Exec, fr *frame, a []Value) Value { ex.yield(); return nil }
	m["(time.Duration).String"] = func(ex *Exec, fr *frame, a []Value) Value { return ex.freshInternal("dur", AtomSort) }

	// ---- context ----
	m["context.Background"] = func(ex *Exec, fr *frame, a []Value) Value { return ex.ctxValue(&ctxObj{}) }
	m["context.TODO"] = m["context.Background"]
	withCancel := func(ex *Exec, fr *frame, a []Value) Value {
		parent := ctxOf(a[0])
		if parent == nil {
			ex.crash("cannot create context from nil parent")
		}
		c := ex.newChildCtx(parent)
		cancel := &Intrinsic{Name: "context.cancel", Fn: func(ex *Exec, fr *frame, _ []Value) Value {
			ex.cancelCtx(c, ex.cfg.Policy.globalIface(ex, "context.Canceled"))
			if c.timer != nil {
				c.timer.stopped = true
			}
			return nil
		}}
		return Tuple{ex.ctxValue(c), cancel}
	}
	m["context.WithCancel"] = withCancel
	withTimeout := func(ex *Exec, fr *frame, a []Value) Value {
		res := withCancel(ex, fr, a[:1]).(Tuple)
		c := ctxOf(res[0])
		c.hasDeadline = true
		t := ex.newTimer("ctx deadline@" + ex.posOf(fr))
		t.ch = nil
		c.timer = t
		t.onFire = func() { ex.cancelCtx(c, ex.cfg.Policy.globalIface(ex, "context.DeadlineExceeded")) }
		return res
	}
	m["context.WithTimeout"] = withTimeout
	m["context.WithDeadline"] = withTimeout
	m["context.WithValue"] = func(ex *Exec, fr *frame, a []Value) Value { return a[0] }

	// ---- tracing ----
	m["go.opentelemetry.io/otel.Tracer"] = func(ex *Exec, fr *frame, a []Value) Value {
		return Iface{T: ex.externType("otel.tracer"), V: &Extern{Name: "otel.tracer", Data: &tracerObj{}}}
	}
	m["go.opentelemetry.io/otel/trace.ContextWithSpan"] = func(ex *Exec, fr *frame, a []Value) Value { return a[0] }
	m["go.opentelemetry.io/otel/trace.SpanFromContext"] = func(ex *Exec, fr *frame, a []Value) Value { return ex.spanValue() }

	return m
}

func (p *Policy) globalIface(ex *Exec, name string) Value {
	return ex.sentinelErr(name)
}
