package sym

import (
	"fmt"
	"go/constant"
	"go/token"
	"go/types"

	"golang.org/x/tools/go/ssa"
)

func constantStringVal(c *ssa.Const) string {
	if c.Value.Kind() == constant.String {
		return constant.StringVal(c.Value)
	}
	// conversion of integer constant to string
	if c.Value.Kind() == constant.Int {
		v, _ := constant.Int64Val(c.Value)
		return string(rune(v))
	}
	return c.Value.String()
}

func (ex *Exec) unop(fr *frame, instr *ssa.UnOp, x Value) Value {
	switch instr.Op {
	case token.MUL: // load
		p := ex.derefPtr(fr, x, "load")
		ex.sharedAccess(fr, instr.X)
		ex.raceRead(fr, p, "memory")
		return load(p)
	case token.ARROW:
		ch := x.(*Chan)
		var elemT types.Type
		elemT = instr.X.Type().Underlying().(*types.Chan).Elem()
		v, ok := ex.chanRecv(ch, ex.zero(elemT))
		if instr.CommaOk {
			return Tuple{v, ex.ts.Bool(ok)}
		}
		return v
	case token.NOT:
		return ex.ts.Not(x.(*Term))
	case token.SUB:
		t := x.(*Term)
		if t.Sort.K == SFP {
			if t.IsConst() {
				return ex.ts.FPConst(-t.F)
			}
			panic("symbolic float negation unsupported")
		}
		return ex.ts.Un(ONeg, t)
	case token.XOR:
		return ex.ts.Un(OBNot, x.(*Term))
	}
	panic(fmt.Sprintf("unop: unexpected %v", instr.Op))
}

func (ex *Exec) binop(fr *frame, op token.Token, t types.Type, x, y Value) Value {
	ts := ex.ts
	switch op {
	case token.EQL:
		return ex.eq(t, x, y)
	case token.NEQ:
		return ts.Not(ex.eq(t, x, y))
	}
	a, aok := x.(*Term)
	b, bok := y.(*Term)
	if !aok || !bok {
		panic(fmt.Sprintf("binop %v on %T, %T", op, x, y))
	}
	switch {
	case isString(t):
		switch op {
		case token.ADD:
			if a.IsConst() && b.IsConst() {
				return ts.Str(a.S + b.S)
			}
			if a.IsConst() && a.S == "" {
				return b
			}
			if b.IsConst() && b.S == "" {
				return a
			}
			return ts.App("strcat", AtomSort, a, b)
		case token.LSS, token.LEQ, token.GTR, token.GEQ:
			if a.IsConst() && b.IsConst() {
				switch op {
				case token.LSS:
					return ts.Bool(a.S < b.S)
				case token.LEQ:
					return ts.Bool(a.S <= b.S)
				case token.GTR:
					return ts.Bool(a.S > b.S)
				case token.GEQ:
					return ts.Bool(a.S >= b.S)
				}
			}
			panic("ordering of symbolic strings unsupported")
		}
	case isFloat(t):
		switch op {
		case token.ADD:
			return ts.FPBin(OFPAdd, a, b)
		case token.LSS:
			return ts.FPBin(OFPLt, a, b)
		case token.LEQ:
			return ts.FPBin(OFPLe, a, b)
		case token.GTR:
			return ts.FPBin(OFPLt, b, a)
		case token.GEQ:
			return ts.FPBin(OFPLe, b, a)
		case token.SUB, token.MUL, token.QUO:
			if a.IsConst() && b.IsConst() {
				switch op {
				case token.SUB:
					return ts.FPConst(a.F - b.F)
				case token.MUL:
					return ts.FPConst(a.F * b.F)
				case token.QUO:
					return ts.FPConst(a.F / b.F)
				}
			}
		}
		panic(fmt.Sprintf("float op %v on symbolic values unsupported", op))
	case isInteger(t):
		signed := isSigned(t)
		switch op {
		case token.ADD:
			return ts.Bin(OAdd, a, b)
		case token.SUB:
			return ts.Bin(OSub, a, b)
		case token.MUL:
			return ts.Bin(OMul, a, b)
		case token.QUO, token.REM:
			w := int(a.Sort.W)
			ex.obligation(ts.Not(ts.Eq(b, ts.BVConst(0, w))), "div", "integer divide by zero", fr)
			if op == token.QUO {
				if signed {
					return ts.Bin(OSDiv, a, b)
				}
				return ts.Bin(OUDiv, a, b)
			}
			if signed {
				return ts.Bin(OSRem, a, b)
			}
			return ts.Bin(OURem, a, b)
		case token.AND:
			return ts.Bin(OBAnd, a, b)
		case token.OR:
			return ts.Bin(OBOr, a, b)
		case token.XOR:
			return ts.Bin(OBXor, a, b)
		case token.AND_NOT:
			return ts.Bin(OBAnd, a, ts.Un(OBNot, b))
		case token.SHL, token.SHR:
			// shift count may have a different width/signedness
			bb := ts.Resize(b, int(a.Sort.W), false)
			if op == token.SHL {
				return ts.Bin(OShl, a, bb)
			}
			if signed {
				return ts.Bin(OAShr, a, bb)
			}
			return ts.Bin(OLShr, a, bb)
		case token.LSS:
			if signed {
				return ts.Bin(OSLt, a, b)
			}
			return ts.Bin(OULt, a, b)
		case token.LEQ:
			if signed {
				return ts.Bin(OSLe, a, b)
			}
			return ts.Bin(OULe, a, b)
		case token.GTR:
			if signed {
				return ts.Bin(OSLt, b, a)
			}
			return ts.Bin(OULt, b, a)
		case token.GEQ:
			if signed {
				return ts.Bin(OSLe, b, a)
			}
			return ts.Bin(OULe, b, a)
		}
	case isBool(t):
		switch op {
		case token.AND, token.LAND:
			return ts.And(a, b)
		case token.OR, token.LOR:
			return ts.Or(a, b)
		}
	}
	panic(fmt.Sprintf("binop: unhandled %v at type %v", op, t))
}

func (ex *Exec) conv(tdst, tsrc types.Type, x Value) Value {
	udst := tdst.Underlying()
	usrc := tsrc.Underlying()
	ts := ex.ts
	switch {
	case isInteger(udst) && isInteger(usrc):
		return ts.Resize(x.(*Term), intWidth(udst.(*types.Basic)), isSigned(usrc))
	case isFloat(udst) && isInteger(usrc):
		return ts.FPFromBV(x.(*Term), isSigned(usrc))
	case isFloat(udst) && isFloat(usrc):
		return x
	case isInteger(udst) && isFloat(usrc):
		t := x.(*Term)
		if t.IsConst() {
			return ts.BVConst(uint64(int64(t.F)), intWidth(udst.(*types.Basic)))
		}
		panic("float->int conversion of symbolic value unsupported")
	case isString(udst) && isString(usrc):
		return x
	case isString(udst):
		// []byte/[]rune/int -> string: concrete only
		switch v := x.(type) {
		case []Value:
			b := make([]byte, 0, len(v))
			for _, e := range v {
				t := e.(*Term)
				if !t.IsConst() {
					panic("string([]byte) of symbolic bytes unsupported")
				}
				b = append(b, byte(t.V))
			}
			return ts.Str(string(b))
		case *Term:
			if v.IsConst() {
				return ts.Str(string(rune(v.V)))
			}
		}
		panic("conversion to string of symbolic value unsupported")
	case isString(usrc):
		t := x.(*Term)
		if !t.IsConst() {
			panic("[]byte(string) of symbolic string unsupported")
		}
		if sl, ok := udst.(*types.Slice); ok {
			eb := sl.Elem().Underlying().(*types.Basic)
			if eb.Kind() == types.Uint8 {
				out := make([]Value, len(t.S))
				for i := 0; i < len(t.S); i++ {
					out[i] = ts.BVConst(uint64(t.S[i]), 8)
				}
				return out
			}
			var out []Value
			for _, r := range t.S {
				out = append(out, ts.BVConst(uint64(r), 32))
			}
			return out
		}
	}
	switch udst.(type) {
	case *types.Pointer, *types.Slice, *types.Map, *types.Chan, *types.Signature, *types.Struct, *types.Array:
		return x
	}
	if b, ok := udst.(*types.Basic); ok && b.Kind() == types.UnsafePointer {
		return x
	}
	panic(fmt.Sprintf("conv: unsupported %v -> %v", tsrc, tdst))
}

func (ex *Exec) slice(fr *frame, instr *ssa.Slice, x, lo, hi, max Value) Value {
	getInt := func(v Value, def int) int {
		if v == nil {
			return def
		}
		return int(ex.concreteInt(v, "slice bound"))
	}
	switch x := x.(type) {
	case *Term: // string
		if !x.IsConst() {
			if lo == nil && hi == nil {
				return x
			}
			panic("slicing of symbolic string unsupported")
		}
		l, h := getInt(lo, 0), getInt(hi, len(x.S))
		if l < 0 || h > len(x.S) || l > h {
			ex.crash("slice bounds out of range")
		}
		return ex.ts.Str(x.S[l:h])
	case []Value:
		l, h, m := getInt(lo, 0), getInt(hi, len(x)), getInt(max, cap(x))
		if l < 0 || h > cap(x) || l > h || m > cap(x) || h > m {
			ex.crash(fmt.Sprintf("slice bounds out of range [%d:%d:%d] with capacity %d", l, h, m, cap(x)))
		}
		if x == nil {
			return []Value(nil)
		}
		return x[l:h:m]
	case *Value: // *array
		if x == nil {
			ex.crash("nil pointer dereference (slice of nil array pointer)")
		}
		a := (*x).(Array)
		l, h, m := getInt(lo, 0), getInt(hi, len(a)), getInt(max, len(a))
		if l < 0 || h > len(a) || l > h || m > len(a) || h > m {
			ex.crash("slice bounds out of range")
		}
		return []Value(a)[l:h:m]
	}
	panic(fmt.Sprintf("slice: unexpected X type: %T", x))
}

// --- maps -------------------------------------------------------------------

// mapFind returns the index of the entry whose key equals k on this path (forking as needed), or -1.
func (ex *Exec) mapFind(m *Map, k Value) int {
	if m == nil {
		return -1
	}
	for i := range m.Entries {
		c := ex.eq(m.KeyT, m.Entries[i].k, k)
		if ex.branch(c) {
			return i
		}
	}
	return -1
}

func (ex *Exec) lookup(fr *frame, instr *ssa.Lookup, x, idx Value) Value {
	switch x := x.(type) {
	case *Map:
		var elemT types.Type = instr.X.Type().Underlying().(*types.Map).Elem()
		ex.raceMapRead(fr, x)
		i := ex.mapFind(x, idx)
		var v Value
		ok := i >= 0
		if ok {
			v = copyVal(x.Entries[i].v)
		} else {
			v = ex.zero(elemT)
		}
		if instr.CommaOk {
			return Tuple{v, ex.ts.Bool(ok)}
		}
		return v
	case *Term: // string index
		if !x.IsConst() {
			panic("index of symbolic string")
		}
		i := ex.checkIndex(fr, idx, len(x.S))
		return ex.ts.BVConst(uint64(x.S[i]), 8)
	}
	panic(fmt.Sprintf("lookup: unexpected %T", x))
}

func (ex *Exec) mapUpdate(m *Map, k, v Value) {
	i := ex.mapFind(m, k)
	if i >= 0 {
		m.Entries[i].v = v
		return
	}
	m.Entries = append(m.Entries, mapEntry{k: copyVal(k), v: v})
}

func (ex *Exec) mapDelete(m *Map, k Value) {
	if m == nil {
		return
	}
	i := ex.mapFind(m, k)
	if i >= 0 {
		// preserve order of the rest; iteration snapshots are unaffected
		m.Entries = append(append([]mapEntry(nil), m.Entries[:i]...), m.Entries[i+1:]...)
	}
}

// --- range ------------------------------------------------------------------

type iter interface {
	next(ex *Exec) Tuple
}

type mapIter struct {
	m    *Map
	snap []mapEntry
	i    int
}

func (it *mapIter) next(ex *Exec) Tuple {
	for it.i < len(it.snap) {
		e := it.snap[it.i]
		it.i++
		// skip entries deleted during iteration (key identity by position in current map)
		present := false
		for _, cur := range it.m.Entries {
			if sameKeyObject(cur.k, e.k) {
				present = true
				e = cur
				break
			}
		}
		if !present {
			continue
		}
		return Tuple{ex.ts.True(), copyVal(e.k), copyVal(e.v)}
	}
	return Tuple{ex.ts.False(), nil, nil}
}

// sameKeyObject reports structural identity of two key values (same terms).
func sameKeyObject(a, b Value) bool {
	switch a := a.(type) {
	case *Term:
		bt, ok := b.(*Term)
		return ok && a == bt
	case Struct:
		bs, ok := b.(Struct)
		if !ok || len(a) != len(bs) {
			return false
		}
		for i := range a {
			if !sameKeyObject(a[i], bs[i]) {
				return false
			}
		}
		return true
	case Array:
		bs, ok := b.(Array)
		if !ok || len(a) != len(bs) {
			return false
		}
		for i := range a {
			if !sameKeyObject(a[i], bs[i]) {
				return false
			}
		}
		return true
	case Iface:
		bi, ok := b.(Iface)
		if !ok {
			return false
		}
		if a.T == nil || bi.T == nil {
			return a.T == nil && bi.T == nil
		}
		return types.Identical(a.T, bi.T) && sameKeyObject(a.V, bi.V)
	case *Value:
		bp, ok := b.(*Value)
		return ok && a == bp
	case *Extern:
		be, ok := b.(*Extern)
		return ok && a == be
	case nil:
		return b == nil
	}
	return false
}

type stringIter struct {
	s   string
	pos int
}

func (it *stringIter) next(ex *Exec) Tuple {
	if it.pos >= len(it.s) {
		return Tuple{ex.ts.False(), nil, nil}
	}
	for i, r := range it.s[it.pos:] {
		idx := it.pos + i
		it.pos = idx + len(string(r))
		return Tuple{ex.ts.True(), ex.ts.BVConst(uint64(idx), 64), ex.ts.BVConst(uint64(r), 32)}
	}
	return Tuple{ex.ts.False(), nil, nil}
}

func (ex *Exec) rangeIter(fr *frame, x Value, t types.Type) iter {
	switch x := x.(type) {
	case *Map:
		if x == nil {
			return &mapIter{m: &Map{}}
		}
		ex.raceMapRead(fr, x)
		return &mapIter{m: x, snap: append([]mapEntry(nil), x.Entries...)}
	case *Term:
		if !x.IsConst() {
			panic("range over symbolic string")
		}
		return &stringIter{s: x.S}
	}
	panic(fmt.Sprintf("cannot range over %T", x))
}

// --- select -----------------------------------------------------------------

func (ex *Exec) selectInstr(fr *frame, instr *ssa.Select) Value {
	type cs struct {
		ch   *Chan
		send Value
		recv bool
	}
	cases := make([]cs, len(instr.States))
	for i, st := range instr.States {
		ch, _ := fr.get(st.Chan).(*Chan)
		cases[i] = cs{ch: ch, recv: st.Dir == types.RecvOnly}
		if st.Send != nil {
			cases[i].send = fr.get(st.Send)
		}
	}
	ready := func() []int {
		var r []int
		for i, c := range cases {
			if c.recv && chanRecvReady(c.ch) || !c.recv && chanSendReady(c.ch) {
				r = append(r, i)
			}
		}
		return r
	}
	chosen := -1
	r := ready()
	if len(r) == 0 && instr.Blocking {
		for _, c := range cases {
			if c.recv && c.ch != nil {
				c.ch.recvWaiting++
			}
		}
		ex.block("select "+ex.posOf(fr), func() bool { return len(ready()) > 0 })
		for _, c := range cases {
			if c.recv && c.ch != nil {
				c.ch.recvWaiting--
			}
		}
		r = ready()
	}
	if len(r) > 0 {
		if len(r) == 1 {
			chosen = r[0]
		} else {
			chosen = r[ex.choose(seq(len(r)), "select")]
		}
	}
	res := Tuple{ex.ts.BVConst(uint64(int64(chosen)), 64), ex.ts.False()}
	var recvOk bool
	var recvVal Value
	if chosen >= 0 {
		c := cases[chosen]
		if c.recv {
			elemT := instr.States[chosen].Chan.Type().Underlying().(*types.Chan).Elem()
			recvVal, recvOk = ex.chanRecv(c.ch, ex.zero(elemT))
		} else {
			ex.chanSend(c.ch, c.send)
		}
	}
	res[1] = ex.ts.Bool(recvOk)
	for i, st := range instr.States {
		if st.Dir == types.RecvOnly {
			if i == chosen && recvOk {
				res = append(res, recvVal)
			} else {
				res = append(res, ex.zero(st.Chan.Type().Underlying().(*types.Chan).Elem()))
			}
		}
	}
	return res
}

func seq(n int) []int {
	a := make([]int, n)
	for i := range a {
		a[i] = i
	}
	return a
}

// --- builtins ---------------------------------------------------------------

func (ex *Exec) callBuiltin(fr *frame, fn *ssa.Builtin, args []Value) Value {
	ts := ex.ts
	switch fn.Name() {
	case "append":
		if len(args) == 1 {
			return args[0]
		}
		if s, ok := args[1].(*Term); ok { // append([]byte, string...)
			if !s.IsConst() {
				panic("append of symbolic string bytes")
			}
			out := args[0].([]Value)
			for i := 0; i < len(s.S); i++ {
				out = append(out, ts.BVConst(uint64(s.S[i]), 8))
			}
			return out
		}
		src := args[1].([]Value)
		cp := make([]Value, len(src))
		for i, v := range src {
			cp[i] = copyVal(v)
		}
		return append(args[0].([]Value), cp...)
	case "copy":
		dst := args[0].([]Value)
		if s, ok := args[1].(*Term); ok {
			n := 0
			for i := 0; i < len(s.S) && i < len(dst); i++ {
				dst[i] = ts.BVConst(uint64(s.S[i]), 8)
				n++
			}
			return ts.BVConst(uint64(n), 64)
		}
		src := args[1].([]Value)
		n := len(src)
		if len(dst) < n {
			n = len(dst)
		}
		tmp := make([]Value, n)
		for i := 0; i < n; i++ {
			tmp[i] = copyVal(src[i])
		}
		copy(dst, tmp)
		return ts.BVConst(uint64(n), 64)
	case "close":
		ex.chanClose(args[0].(*Chan))
		return nil
	case "delete":
		ex.raceMapWrite(fr, args[0].(*Map))
		ex.mapDelete(args[0].(*Map), args[1])
		return nil
	case "print", "println":
		return nil
	case "len":
		switch x := args[0].(type) {
		case *Term:
			if x.IsConst() {
				return ts.BVConst(uint64(len(x.S)), 64)
			}
			return ex.strlen(x)
		case Array:
			return ts.BVConst(uint64(len(x)), 64)
		case *Value:
			if x == nil {
				return ts.BVConst(0, 64)
			}
			return ts.BVConst(uint64(len((*x).(Array))), 64)
		case []Value:
			return ts.BVConst(uint64(len(x)), 64)
		case *Map:
			if x == nil {
				return ts.BVConst(0, 64)
			}
			return ts.BVConst(uint64(len(x.Entries)), 64)
		case *Chan:
			if x == nil {
				return ts.BVConst(0, 64)
			}
			return ts.BVConst(uint64(len(x.Buf)), 64)
		}
		panic(fmt.Sprintf("len: illegal operand: %T", args[0]))
	case "cap":
		switch x := args[0].(type) {
		case Array:
			return ts.BVConst(uint64(len(x)), 64)
		case []Value:
			return ts.BVConst(uint64(cap(x)), 64)
		case *Chan:
			if x == nil {
				return ts.BVConst(0, 64)
			}
			return ts.BVConst(uint64(x.Cap), 64)
		}
		panic(fmt.Sprintf("cap: illegal operand: %T", args[0]))
	case "min", "max":
		acc := args[0].(*Term)
		signed := true
		if sig, ok := fn.Type().(*types.Signature); ok && sig.Params().Len() > 0 {
			signed = isSigned(sig.Params().At(0).Type())
		}
		for _, a := range args[1:] {
			b := a.(*Term)
			var lt *Term
			if signed {
				lt = ts.Bin(OSLt, b, acc)
			} else {
				lt = ts.Bin(OULt, b, acc)
			}
			if fn.Name() == "max" {
				lt = ts.Not(ts.Or(lt, ts.Eq(acc, b)))
				// b > acc
			}
			acc = ts.Ite(lt, b, acc)
		}
		return acc
	case "recover":
		return Iface{}
	case "ssa:wrapnilchk":
		recv := args[0]
		if p, ok := recv.(*Value); ok && p == nil {
			ex.crash("value method called using nil pointer")
		}
		return recv
	case "panic":
		ex.crash("panic: " + Show(args[0]))
	}
	panic("unknown built-in: " + fn.Name())
}

// strlen returns a non-negative symbolic length for a symbolic string.
func (ex *Exec) strlen(s *Term) *Term {
	l := ex.ts.App("strlen", BV(64), s)
	// a Go string length is a non-negative int
	if ex.strlenSeen == nil {
		ex.strlenSeen = map[*Term]bool{}
	}
	if !ex.strlenSeen[l] {
		ex.strlenSeen[l] = true
		ex.axioms++ // valid on every path: may be added during speculative evaluation
		ex.addPC(ex.ts.Bin(OSLe, ex.ts.BVConst(0, 64), l))
	}
	return l
}

// sharedAccess is a pre-emption point (only in pre-emptive mode) before an
// access through a pointer that may be shared between tasks.
func (ex *Exec) sharedAccess(fr *frame, addr ssa.Value) {
	if !ex.cfg.Preemptive || ex.cfg.PreemptSyncOnly || ex.cur == nil {
		return
	}
	switch a := addr.(type) {
	case *ssa.Alloc:
		if !a.Heap {
			return
		}
		// heap allocs captured by closures may be shared
	case *ssa.FieldAddr, *ssa.IndexAddr, *ssa.Global, *ssa.Parameter, *ssa.FreeVar, *ssa.Phi, *ssa.UnOp, *ssa.Call, *ssa.Extract:
	default:
	}
	if !ex.preemptInStack(fr) {
		return
	}
	ex.yield()
}
