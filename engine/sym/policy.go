package sym

import (
	"go/types"
	"strings"

	"golang.org/x/tools/go/ssa"
)

type CallKind int

const (
	CallUnknown CallKind = iota
	CallIntrinsic
	CallStub
	CallHavoc
	CallInterpret
)

type IntrinsicFn func(ex *Exec, fr *frame, args []Value) Value

// Policy decides how each callee is treated.
type Policy struct {
	Intrinsics    map[string]IntrinsicFn
	Stubs         map[string]*ssa.Function // full callee name -> harness function
	InterpretPkgs []string                 // package path prefixes whose functions are interpreted
	InterpretFns  map[string]bool          // individual functions interpreted although their package is not
	IgnorePkgs    []string                 // package path prefixes whose functions are no-ops returning zero values (logging, tracing)
	InitPkgs      []string                 // package path prefixes whose initialisers are interpreted
	PreemptFns    map[string]bool          // functions in which shared accesses are pre-emption points
	Globals       map[string]func(ex *Exec, t types.Type) Value
}

func hasPrefixIn(path string, prefixes []string) bool {
	for _, p := range prefixes {
		if path == p || strings.HasPrefix(path, p+"/") || (strings.HasSuffix(p, "*") && strings.HasPrefix(path, strings.TrimSuffix(p, "*"))) {
			return true
		}
	}
	return false
}

func (p *Policy) InitInterpreted(pkgPath string) bool { return hasPrefixIn(pkgPath, p.InitPkgs) }

func (p *Policy) GlobalValue(ex *Exec, name string, t types.Type) (Value, bool) {
	if f, ok := p.Globals[name]; ok {
		return f(ex, t), true
	}
	return nil, false
}

func fnPkgPath(fn *ssa.Function) string {
	if fn.Pkg != nil {
		return fn.Pkg.Pkg.Path()
	}
	if fn.Origin() != nil && fn.Origin().Pkg != nil {
		return fn.Origin().Pkg.Pkg.Path()
	}
	// wrappers and bound methods: use the receiver / object package
	if obj := fn.Object(); obj != nil && obj.Pkg() != nil {
		return obj.Pkg().Path()
	}
	if fn.Signature.Recv() != nil {
		t := fn.Signature.Recv().Type()
		if pt, ok := t.(*types.Pointer); ok {
			t = pt.Elem()
		}
		if n, ok := t.(*types.Named); ok && n.Obj().Pkg() != nil {
			return n.Obj().Pkg().Path()
		}
	}
	return ""
}

// Resolve classifies a static callee.
func (p *Policy) Resolve(fn *ssa.Function, name string) (CallKind, IntrinsicFn, *ssa.Function) {
	if impl, ok := p.Intrinsics[name]; ok {
		return CallIntrinsic, impl, nil
	}
	if s, ok := p.Stubs[name]; ok {
		return CallStub, nil, s
	}
	// closures and synthetic wrappers follow their parent / target
	if fn.Parent() != nil {
		return CallInterpret, nil, nil
	}
	if fn.Synthetic != "" && fn.Blocks != nil && fn.Name() != "init" {
		// wrapper, bound method, thunk, instantiation: interpret the wrapper; the target is resolved again
		return CallInterpret, nil, nil
	}
	path := fnPkgPath(fn)
	if fn.Name() == "init" && fn.Synthetic != "" {
		if p.InitInterpreted(path) {
			return CallInterpret, nil, nil
		}
		return CallHavoc, nil, nil
	}
	if p.InterpretFns[name] {
		return CallInterpret, nil, nil
	}
	if hasPrefixIn(path, p.InterpretPkgs) {
		return CallInterpret, nil, nil
	}
	if hasPrefixIn(path, p.IgnorePkgs) {
		return CallHavoc, nil, nil
	}
	// formatting methods of unmodelled packages are stubbed to fresh atoms
	switch fn.Name() {
	case "String", "Error", "GoString":
		if fn.Signature.Results().Len() == 1 && isString(fn.Signature.Results().At(0).Type()) {
			return CallIntrinsic, func(ex *Exec, fr *frame, args []Value) Value {
				ex.Stats.Havocked[name]++
				return ex.freshInternal("fmt:"+fn.Name(), AtomSort)
			}, nil
		}
	}
	return CallUnknown, nil, nil
}

func (p *Policy) PreemptIn(fn *ssa.Function) bool {
	if len(p.PreemptFns) == 0 {
		return true
	}
	for f := fn; f != nil; f = f.Parent() {
		if p.PreemptFns[f.String()] {
			return true
		}
	}
	return false
}

// ExternMethod returns an engine implementation for a method on an opaque value.
func (p *Policy) ExternMethod(e *Extern, method string) IntrinsicFn {
	if strings.HasSuffix(e.Name, "datamodel.Null") {
		switch method {
		case "IsNull":
			return func(ex *Exec, fr *frame, args []Value) Value { return ex.ts.True() }
		case "IsAbsent":
			return func(ex *Exec, fr *frame, args []Value) Value { return ex.ts.False() }
		}
	}
	switch d := e.Data.(type) {
	case *ctxObj:
		return ctxMethod(d, method)
	case *tracerObj:
		if method == "Start" {
			return func(ex *Exec, fr *frame, args []Value) Value {
				// args: recv, ctx, name, opts...
				return Tuple{args[1], ex.spanValue()}
			}
		}
	}
	return nil
}

// HavocExternMethod reports whether an unmodelled method on an opaque value may be treated as a no-op / fresh result.
func (p *Policy) HavocExternMethod(e *Extern, m *types.Func) bool {
	switch m.Name() {
	case "Error", "String":
		return true
	}
	if m.Pkg() != nil && hasPrefixIn(m.Pkg().Path(), p.IgnorePkgs) {
		return true
	}
	if e.Type != nil {
		if n, ok := e.Type.(*types.Named); ok && n.Obj().Pkg() != nil && hasPrefixIn(n.Obj().Pkg().Path(), p.IgnorePkgs) {
			return true
		}
	}
	return false
}

func (p *Policy) ExternImplements(e *Extern, t types.Type) bool {
	if e.Type != nil {
		if i, ok := t.Underlying().(*types.Interface); ok {
			return types.Implements(e.Type, i)
		}
	}
	return false
}
