package sym

import (
	"go/token"
	"go/types"

	"golang.org/x/tools/go/ssa"
)

// valueIte merges two values under condition c; ok=false if they cannot be merged without forking.
func (ex *Exec) valueIte(c *Term, a, b Value) (Value, bool) {
	switch x := a.(type) {
	case *Term:
		y, ok := b.(*Term)
		if !ok || x.Sort != y.Sort {
			return nil, false
		}
		return ex.ts.Ite(c, x, y), true
	case Struct:
		y, ok := b.(Struct)
		if !ok || len(x) != len(y) {
			return nil, false
		}
		out := make(Struct, len(x))
		for i := range x {
			v, ok := ex.valueIte(c, x[i], y[i])
			if !ok {
				return nil, false
			}
			out[i] = v
		}
		return out, true
	case Array:
		y, ok := b.(Array)
		if !ok || len(x) != len(y) {
			return nil, false
		}
		out := make(Array, len(x))
		for i := range x {
			v, ok := ex.valueIte(c, x[i], y[i])
			if !ok {
				return nil, false
			}
			out[i] = v
		}
		return out, true
	case Tuple:
		y, ok := b.(Tuple)
		if !ok || len(x) != len(y) {
			return nil, false
		}
		out := make(Tuple, len(x))
		for i := range x {
			v, ok := ex.valueIte(c, x[i], y[i])
			if !ok {
				return nil, false
			}
			out[i] = v
		}
		return out, true
	case Iface:
		y, ok := b.(Iface)
		if !ok {
			return nil, false
		}
		if x.T == nil && y.T == nil {
			return x, true
		}
		if x.T == nil || y.T == nil || !types.Identical(x.T, y.T) {
			return nil, false
		}
		v, ok := ex.valueIte(c, x.V, y.V)
		if !ok {
			return nil, false
		}
		return Iface{T: x.T, V: v}, true
	case *Value:
		y, ok := b.(*Value)
		if ok && x == y {
			return x, true
		}
		return nil, false
	case *Map:
		y, ok := b.(*Map)
		if ok && x == y {
			return x, true
		}
		return nil, false
	case *Chan:
		y, ok := b.(*Chan)
		if ok && x == y {
			return x, true
		}
		return nil, false
	case *Extern:
		y, ok := b.(*Extern)
		if ok && x == y {
			return x, true
		}
		return nil, false
	case nil:
		if b == nil {
			return nil, true
		}
		return nil, false
	case []Value:
		y, ok := b.([]Value)
		if ok && x == nil && y == nil {
			return x, true
		}
		if ok && len(x) == len(y) && len(x) > 0 && &x[0] == &y[0] {
			return x, true
		}
		return nil, false
	case *Closure:
		y, ok := b.(*Closure)
		if ok && x == y {
			return x, true
		}
		return nil, false
	case *ssa.Function:
		y, ok := b.(*ssa.Function)
		if ok && x == y {
			return x, true
		}
		return nil, false
	}
	return nil, false
}

type specAbort struct{}

// specEval evaluates a pure instruction speculatively; panics specAbort if it is not pure/safe.
func (ex *Exec) specEval(fr *frame, instr ssa.Instruction) {
	switch in := instr.(type) {
	case *ssa.DebugRef:
	case *ssa.BinOp:
		switch in.Op {
		case token.QUO, token.REM:
			panic(specAbort{})
		}
		x, y := fr.get(in.X), fr.get(in.Y)
		if in.Op == token.EQL || in.Op == token.NEQ {
			if xi, ok := x.(Iface); ok && xi.T != nil && !types.Comparable(xi.T) {
				panic(specAbort{})
			}
		}
		fr.env[in] = ex.binop(fr, in.Op, in.X.Type(), x, y)
	case *ssa.UnOp:
		switch in.Op {
		case token.MUL:
			p, ok := fr.get(in.X).(*Value)
			if !ok || p == nil || ex.cfg.Preemptive {
				panic(specAbort{})
			}
			fr.env[in] = load(p)
		case token.ARROW:
			panic(specAbort{})
		default:
			fr.env[in] = ex.unop(fr, in, fr.get(in.X))
		}
	case *ssa.Field:
		fr.env[in] = fr.get(in.X).(Struct)[in.Field]
	case *ssa.FieldAddr:
		p, ok := fr.get(in.X).(*Value)
		if !ok || p == nil {
			panic(specAbort{})
		}
		fr.env[in] = &(*p).(Struct)[in.Field]
	case *ssa.Convert:
		fr.env[in] = ex.conv(in.Type(), in.X.Type(), fr.get(in.X))
	case *ssa.ChangeType:
		fr.env[in] = fr.get(in.X)
	case *ssa.ChangeInterface:
		fr.env[in] = fr.get(in.X)
	case *ssa.MakeInterface:
		fr.env[in] = Iface{T: in.X.Type(), V: fr.get(in.X)}
	case *ssa.Extract:
		fr.env[in] = fr.get(in.Tuple).(Tuple)[in.Index]
	case *ssa.TypeAssert:
		if !in.CommaOk {
			panic(specAbort{})
		}
		fr.env[in] = ex.typeAssert(fr, in, fr.get(in.X).(Iface))
	case *ssa.IndexAddr:
		idx, ok := fr.get(in.Index).(*Term)
		if !ok || !idx.IsConst() {
			panic(specAbort{})
		}
		i := int(sext(idx.V, idx.Sort.W))
		switch x := fr.get(in.X).(type) {
		case []Value:
			if i < 0 || i >= len(x) {
				panic(specAbort{})
			}
			fr.env[in] = &x[i]
		default:
			panic(specAbort{})
		}
	case *ssa.Call:
		// calls to side-effect-free builtins only
		if b, ok := in.Call.Value.(*ssa.Builtin); ok && (b.Name() == "len" || b.Name() == "cap") {
			fr.env[in] = ex.callBuiltin(fr, b, []Value{fr.get(in.Call.Args[0])})
			return
		}
		panic(specAbort{})
	default:
		panic(specAbort{})
	}
}

// tryIfConvert turns a diamond whose arms are pure straight-line blocks into ite terms
// so that `a && b`, `a || b` and simple conditional expressions do not fork the path.
func (ex *Exec) tryIfConvert(fr *frame, instr *ssa.If, c *Term) (done bool) {
	B := fr.block
	T, F := B.Succs[0], B.Succs[1]
	side := func(S *ssa.BasicBlock) (sideBlk, join *ssa.BasicBlock) {
		if len(S.Preds) == 1 && len(S.Succs) == 1 {
			if _, ok := S.Instrs[len(S.Instrs)-1].(*ssa.Jump); ok {
				if _, hasPhi := S.Instrs[0].(*ssa.Phi); !hasPhi {
					return S, S.Succs[0]
				}
			}
		}
		return nil, S
	}
	sT, jT := side(T)
	sF, jF := side(F)
	// prefer interpretations in which the joins coincide
	if jT != jF {
		if sT != nil && T == jF {
			// T is itself the join for F's side? (T has one pred, so it cannot be a join of two edges)
			return false
		}
		// maybe one arm is direct: try treating T as join (sT=nil)
		if sT != nil && jF == T {
			return false
		}
		if sF != nil && jT == F {
			return false
		}
		// try: T direct join
		if sF != nil && jF == T {
			sT, jT = nil, T
		} else if sT != nil && jT == F {
			sF, jF = nil, F
		} else {
			return false
		}
	}
	J := jT
	if J == B || (sT == nil && sF == nil) {
		return false
	}
	// J must start with phis or nothing to merge; values defined in side blocks must not be used beyond phis
	// (guaranteed by dominance: a side block dominates only itself).
	defer func() {
		if r := recover(); r != nil {
			if _, ok := r.(specAbort); ok {
				done = false
				return
			}
			panic(r)
		}
	}()
	savedInstr := fr.curInstr
	evalSide := func(S *ssa.BasicBlock) {
		if S == nil {
			return
		}
		for _, in := range S.Instrs[:len(S.Instrs)-1] {
			ex.specEval(fr, in)
		}
	}
	nDec, nPC, nAx := ex.dpos, len(ex.pc), ex.axioms
	evalSide(sT)
	evalSide(sF)
	if ex.dpos != nDec || len(ex.pc)-nPC != ex.axioms-nAx {
		panic("speculative evaluation consumed decisions")
	}
	predT, predF := B, B
	if sT != nil {
		predT = sT
	}
	if sF != nil {
		predF = sF
	}
	idxT, idxF := -1, -1
	for i, p := range J.Preds {
		if p == predT && idxT < 0 {
			idxT = i
		}
	}
	for i, p := range J.Preds {
		if p == predF && (i != idxT || predT != predF) && idxF < 0 {
			idxF = i
		}
	}
	if predT == predF {
		// both edges come from B: T==F==J handled above
		return false
	}
	if idxT < 0 || idxF < 0 {
		return false
	}
	var phis []*ssa.Phi
	var vals []Value
	for _, in := range J.Instrs {
		phi, ok := in.(*ssa.Phi)
		if !ok {
			break
		}
		vT, vF := fr.get(phi.Edges[idxT]), fr.get(phi.Edges[idxF])
		m, ok := ex.valueIte(c, vT, vF)
		if !ok {
			return false
		}
		phis = append(phis, phi)
		vals = append(vals, m)
	}
	for i, phi := range phis {
		fr.env[phi] = vals[i]
	}
	fr.curInstr = savedInstr
	fr.prevBlock, fr.block = predT, J
	fr.phisDone = true
	ex.Stats.IfConverted++
	return true
}
