package sym

import (
	"fmt"
	"go/types"
	"strings"

	"golang.org/x/tools/go/ssa"
)

// Value is a dynamically typed value of the interpreted program.
//
//	*Term            bool, integers, floats, strings (atoms)
//	Struct           struct (value semantics; copied on load/store)
//	Array            array  (value semantics)
//	*Value           pointer (nil pointer = (*Value)(nil))
//	[]Value          slice
//	*Map             map (nil map = (*Map)(nil))
//	Iface            interface value (zero Iface = nil interface)
//	*Closure, *ssa.Function, *ssa.Builtin, *Intrinsic   func values ((*Closure)(nil) = nil func)
//	*Chan            channel
//	Tuple            multiple results
//	*Extern          opaque value of a type that is not modelled
type Value interface{}

type Struct []Value
type Array []Value
type Tuple []Value

type Iface struct {
	T types.Type // dynamic type; nil for nil interface
	V Value
}

type Closure struct {
	Fn  *ssa.Function
	Env []Value
}

// Intrinsic is a func value implemented by the engine.
type Intrinsic struct {
	Name string
	Fn   func(ex *Exec, fr *frame, args []Value) Value
}

// Extern is an opaque object with identity.
type Extern struct {
	Name string
	Type types.Type
	Data interface{} // engine-private payload (e.g. *ctxObj, *timerObj)
}

type mapEntry struct {
	k, v Value
}

// Map is an insertion-ordered association list; key comparison may be symbolic.
type Map struct {
	KeyT    types.Type
	Entries []mapEntry
}

type chanItem struct{ v Value }

type Chan struct {
	Cap    int
	Buf    []Value
	Closed bool
	ElemT  types.Type
	Timer  *timerObj // non-nil if this is a timer channel
	Name   string
	// rendezvous support for unbuffered channels
	recvWaiting int
	sent, recvd int
	BufVC       []vclock // release clocks of the buffered items (race detection)
	CloseVC     vclock
}

type timerObj struct {
	ch      *Chan
	stopped bool
	fired   bool
	label   string
	onFire  func()
}

func isNilValue(v Value) bool {
	switch v := v.(type) {
	case nil:
		return true
	case *Value:
		return v == nil
	case []Value:
		return v == nil
	case *Map:
		return v == nil
	case Iface:
		return v.T == nil
	case *Closure:
		return v == nil
	case *ssa.Function:
		return v == nil
	case *Chan:
		return v == nil
	case *Intrinsic:
		return v == nil
	}
	return false
}

// zero returns the zero value of type t.
func (ex *Exec) zero(t types.Type) Value {
	switch t := t.(type) {
	case *types.Basic:
		switch {
		case t.Kind() == types.UntypedNil:
			return nil
		case t.Info()&types.IsBoolean != 0:
			return ex.ts.False()
		case t.Info()&types.IsString != 0:
			return ex.ts.Str("")
		case t.Info()&types.IsInteger != 0:
			return ex.ts.BVConst(0, intWidth(t))
		case t.Info()&types.IsFloat != 0:
			return ex.ts.FPConst(0)
		case t.Kind() == types.UnsafePointer:
			return (*Value)(nil)
		}
		panic(fmt.Sprintf("zero: unsupported basic type %v", t))
	case *types.Pointer:
		return (*Value)(nil)
	case *types.Array:
		a := make(Array, t.Len())
		for i := range a {
			a[i] = ex.zero(t.Elem())
		}
		return a
	case *types.Named:
		return ex.zero(t.Underlying())
	case *types.Alias:
		return ex.zero(types.Unalias(t))
	case *types.Interface:
		return Iface{}
	case *types.Slice:
		return []Value(nil)
	case *types.Struct:
		s := make(Struct, t.NumFields())
		for i := range s {
			s[i] = ex.zero(t.Field(i).Type())
		}
		return s
	case *types.Tuple:
		if t.Len() == 1 {
			return ex.zero(t.At(0).Type())
		}
		s := make(Tuple, t.Len())
		for i := range s {
			s[i] = ex.zero(t.At(i).Type())
		}
		return s
	case *types.Chan:
		return (*Chan)(nil)
	case *types.Map:
		return (*Map)(nil)
	case *types.Signature:
		return (*Closure)(nil)
	case *types.TypeParam:
		panic("zero of type parameter")
	}
	panic(fmt.Sprintf("zero: unexpected type %T %v", t, t))
}

func intWidth(t *types.Basic) int {
	switch t.Kind() {
	case types.Int8, types.Uint8:
		return 8
	case types.Int16, types.Uint16:
		return 16
	case types.Int32, types.Uint32:
		return 32
	case types.Int, types.Uint, types.Int64, types.Uint64, types.Uintptr, types.UntypedInt, types.UntypedRune:
		return 64
	}
	panic(fmt.Sprintf("intWidth: %v", t))
}

func isSigned(t types.Type) bool {
	b, ok := t.Underlying().(*types.Basic)
	return ok && b.Info()&types.IsInteger != 0 && b.Info()&types.IsUnsigned == 0
}

func isInteger(t types.Type) bool {
	b, ok := t.Underlying().(*types.Basic)
	return ok && b.Info()&types.IsInteger != 0
}

func isString(t types.Type) bool {
	b, ok := t.Underlying().(*types.Basic)
	return ok && b.Info()&types.IsString != 0
}

func isFloat(t types.Type) bool {
	b, ok := t.Underlying().(*types.Basic)
	return ok && b.Info()&types.IsFloat != 0
}

func isBool(t types.Type) bool {
	b, ok := t.Underlying().(*types.Basic)
	return ok && b.Info()&types.IsBoolean != 0
}

// copyVal makes a deep copy of aggregate values (structs, arrays).
func copyVal(v Value) Value {
	switch v := v.(type) {
	case Struct:
		a := make(Struct, len(v))
		for i, x := range v {
			a[i] = copyVal(x)
		}
		return a
	case Array:
		a := make(Array, len(v))
		for i, x := range v {
			a[i] = copyVal(x)
		}
		return a
	case Tuple:
		// tuples are immutable
		return v
	}
	return v
}

// store writes v to *addr preserving the identity of aggregate sub-objects.
func store(addr *Value, v Value) {
	switch lhs := (*addr).(type) {
	case Struct:
		rhs := v.(Struct)
		for i := range lhs {
			store(&lhs[i], rhs[i])
		}
	case Array:
		rhs := v.(Array)
		for i := range lhs {
			store(&lhs[i], rhs[i])
		}
	default:
		*addr = v
	}
}

func load(addr *Value) Value { return copyVal(*addr) }

// eq returns the term for x == y at static type t.
func (ex *Exec) eq(t types.Type, x, y Value) *Term {
	ts := ex.ts
	switch x := x.(type) {
	case *Term:
		return ts.Eq(x, y.(*Term))
	case nil:
		return ts.Bool(isNilValue(y))
	case *Value:
		if y == nil {
			return ts.Bool(x == nil)
		}
		return ts.Bool(x == y.(*Value))
	case Struct:
		ys := y.(Struct)
		st, _ := t.Underlying().(*types.Struct)
		parts := make([]*Term, 0, len(x))
		for i := range x {
			var ft types.Type
			if st != nil {
				if st.Field(i).Name() == "_" {
					continue
				}
				ft = st.Field(i).Type()
			}
			parts = append(parts, ex.eq(ft, x[i], ys[i]))
		}
		return ts.And(parts...)
	case Array:
		ya := y.(Array)
		var et types.Type
		if at, ok := t.Underlying().(*types.Array); ok {
			et = at.Elem()
		}
		parts := make([]*Term, 0, len(x))
		for i := range x {
			parts = append(parts, ex.eq(et, x[i], ya[i]))
		}
		return ts.And(parts...)
	case Iface:
		yi, ok := y.(Iface)
		if !ok {
			if y == nil {
				return ts.Bool(x.T == nil)
			}
			panic(fmt.Sprintf("eq: iface vs %T", y))
		}
		if x.T == nil || yi.T == nil {
			return ts.Bool(x.T == nil && yi.T == nil)
		}
		if !types.Identical(x.T, yi.T) {
			return ts.False()
		}
		if !types.Comparable(x.T) {
			ex.crash("runtime error: comparing uncomparable type " + x.T.String())
		}
		return ex.eq(x.T, x.V, yi.V)
	case *Map:
		if y == nil {
			return ts.Bool(x == nil)
		}
		return ts.Bool(x == y.(*Map))
	case []Value:
		return ts.Bool(x == nil && isNilValue(y)) // only nil comparison is legal
	case *Chan:
		if y == nil {
			return ts.Bool(x == nil)
		}
		return ts.Bool(x == y.(*Chan))
	case *Closure:
		return ts.Bool(x == nil && isNilValue(y))
	case *ssa.Function:
		return ts.Bool(x == nil && isNilValue(y))
	case *Intrinsic:
		return ts.Bool(x == nil && isNilValue(y))
	case *Extern:
		ye, _ := y.(*Extern)
		return ts.Bool(x == ye)
	}
	panic(fmt.Sprintf("eq: unhandled %T vs %T", x, y))
}

// Show renders a value for diagnostics and samples.
func Show(v Value) string { return show(v, 0) }

func show(v Value, depth int) string {
	if depth > 4 {
		return "…"
	}
	switch v := v.(type) {
	case nil:
		return "nil"
	case *Term:
		return v.String()
	case Struct:
		var p []string
		for _, x := range v {
			p = append(p, show(x, depth+1))
		}
		return "{" + strings.Join(p, " ") + "}"
	case Array:
		var p []string
		for _, x := range v {
			p = append(p, show(x, depth+1))
		}
		return "[" + strings.Join(p, " ") + "]"
	case Tuple:
		var p []string
		for _, x := range v {
			p = append(p, show(x, depth+1))
		}
		return "(" + strings.Join(p, ", ") + ")"
	case *Value:
		if v == nil {
			return "nil"
		}
		return "&" + show(*v, depth+1)
	case []Value:
		if v == nil {
			return "[]nil"
		}
		var p []string
		for _, x := range v {
			p = append(p, show(x, depth+1))
		}
		return "[" + strings.Join(p, " ") + "]"
	case *Map:
		if v == nil {
			return "map(nil)"
		}
		var p []string
		for _, e := range v.Entries {
			p = append(p, show(e.k, depth+1)+":"+show(e.v, depth+1))
		}
		return "map[" + strings.Join(p, " ") + "]"
	case Iface:
		if v.T == nil {
			return "nil"
		}
		return fmt.Sprintf("(%s)%s", types.TypeString(v.T, func(p *types.Package) string { return p.Name() }), show(v.V, depth+1))
	case *Closure:
		if v == nil {
			return "func(nil)"
		}
		return "func:" + v.Fn.String()
	case *ssa.Function:
		return "func:" + v.String()
	case *Chan:
		if v == nil {
			return "chan(nil)"
		}
		return fmt.Sprintf("chan(%d/%d)", len(v.Buf), v.Cap)
	case *Extern:
		return "extern:" + v.Name
	case *Intrinsic:
		return "intrinsic:" + v.Name
	}
	return fmt.Sprintf("%T", v)
}
