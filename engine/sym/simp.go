package sym

// Equality propagation: when the path condition pins a variable to a constant
// (x == k, b, !b), later terms are rewritten with that value before any solver
// call, so that branches decided by the path condition cost no query.

func (ex *Exec) addPC(t *Term) {
	ex.pc = append(ex.pc, t)
	ex.learn(t)
}

func (ex *Exec) learn(t *Term) {
	switch t.Op {
	case OAnd:
		for _, a := range t.Args {
			ex.learn(a)
		}
	case OConst:
	case ONot:
		ex.setKnown(t.Args[0], ex.ts.False())
		if t.Args[0].Op == OOr {
			for _, a := range t.Args[0].Args {
				ex.learn(ex.ts.Not(a))
			}
		}
	case OEq:
		a, b := t.Args[0], t.Args[1]
		if a.Op == OVar && b.Op == OConst {
			ex.setKnown(a, b)
		} else if b.Op == OVar && a.Op == OConst {
			ex.setKnown(b, a)
		}
		ex.setKnown(t, ex.ts.True())
	default:
		ex.setKnown(t, ex.ts.True())
	}
}

func (ex *Exec) setKnown(v, c *Term) {
	if ex.known == nil {
		ex.known = map[int]*Term{}
	}
	if _, ok := ex.known[v.id]; ok {
		return
	}
	ex.known[v.id] = c
	ex.simpMemo = nil
}

// simp rewrites t under the known variable values.
func (ex *Exec) simp(t *Term) *Term {
	if len(ex.known) == 0 || t.IsConst() {
		return t
	}
	if ex.simpMemo == nil {
		ex.simpMemo = map[int]*Term{}
	}
	return ex.simpRec(t)
}

func (ex *Exec) simpRec(t *Term) *Term {
	if t.Op == OConst {
		return t
	}
	if r, ok := ex.simpMemo[t.id]; ok {
		return r
	}
	var r *Term
	if k, ok := ex.known[t.id]; ok {
		ex.simpMemo[t.id] = k
		return k
	}
	if t.Op == OVar {
		ex.simpMemo[t.id] = t
		return t
	}
	args := make([]*Term, len(t.Args))
	changed := false
	for i, a := range t.Args {
		args[i] = ex.simpRec(a)
		if args[i] != a {
			changed = true
		}
	}
	if !changed {
		r = t
	} else {
		r = ex.rebuild(t, args)
	}
	ex.simpMemo[t.id] = r
	return r
}

func (ex *Exec) rebuild(t *Term, args []*Term) *Term {
	ts := ex.ts
	switch t.Op {
	case ONot:
		return ts.Not(args[0])
	case OAnd:
		return ts.And(args...)
	case OOr:
		return ts.Or(args...)
	case OEq, OFPEq:
		return ts.Eq(args[0], args[1])
	case OIte:
		return ts.Ite(args[0], args[1], args[2])
	case OAdd, OSub, OMul, OUDiv, OSDiv, OURem, OSRem, OBAnd, OBOr, OBXor, OShl, OLShr, OAShr, OULt, OULe, OSLt, OSLe:
		return ts.Bin(t.Op, args[0], args[1])
	case OBNot, ONeg:
		return ts.Un(t.Op, args[0])
	case OZExt:
		return ts.Resize(args[0], int(t.Sort.W), false)
	case OSExt:
		return ts.Resize(args[0], int(t.Sort.W), true)
	case OExtract:
		return ts.Resize(args[0], int(t.Sort.W), false)
	case OApp:
		return ts.App(t.S, t.Sort, args...)
	case OFPAdd, OFPLt, OFPLe:
		return ts.FPBin(t.Op, args[0], args[1])
	case OFPFromUBV:
		return ts.FPFromBV(args[0], false)
	case OFPFromSBV:
		return ts.FPFromBV(args[0], true)
	}
	panic("rebuild: unhandled op")
}
