// Package sym is a symbolic executor for Go SSA (golang.org/x/tools/go/ssa)
// that produces SMT-LIB2 queries. Scalars are hash-consed terms; constants
// fold eagerly so concrete execution is just constant folding.
package sym

import (
	"fmt"
	"math"
	"math/bits"
	"sort"
	"strconv"
	"strings"
)

// Sort kinds.
type SortKind uint8

const (
	SBool SortKind = iota
	SBV            // bit-vector of Width bits
	SAtom          // opaque identity (strings, ids): SMT Int
	SFP            // float64
)

type Sort struct {
	K SortKind
	W uint8 // width for SBV
}

func (s Sort) String() string {
	switch s.K {
	case SBool:
		return "Bool"
	case SBV:
		return fmt.Sprintf("(_ BitVec %d)", s.W)
	case SAtom:
		return "Int"
	case SFP:
		return "(_ FloatingPoint 11 53)"
	}
	return "?"
}

var (
	BoolSort = Sort{K: SBool}
	AtomSort = Sort{K: SAtom}
	FPSort   = Sort{K: SFP}
)

func BV(w int) Sort { return Sort{K: SBV, W: uint8(w)} }

type Op uint8

const (
	OConst Op = iota // V (bv/bool) or S (atom: interned string)
	OVar             // Name
	ONot
	OAnd
	OOr
	OEq
	OIte
	OAdd
	OSub
	OMul
	OUDiv
	OSDiv
	OURem
	OSRem
	OBAnd
	OBOr
	OBXor
	OBNot
	ONeg
	OShl
	OLShr
	OAShr
	OULt
	OULe
	OSLt
	OSLe
	OZExt    // to Sort width
	OSExt    // to Sort width
	OExtract // low W bits
	OApp     // uninterpreted function Name(args...)
	OFPAdd
	OFPLt
	OFPLe
	OFPEq
	OFPFromUBV
	OFPFromSBV
)

var opNames = map[Op]string{ONot: "not", OAnd: "and", OOr: "or", OEq: "=", OIte: "ite", OAdd: "bvadd", OSub: "bvsub",
	OMul: "bvmul", OUDiv: "bvudiv", OSDiv: "bvsdiv", OURem: "bvurem", OSRem: "bvsrem", OBAnd: "bvand", OBOr: "bvor",
	OBXor: "bvxor", OBNot: "bvnot", ONeg: "bvneg", OShl: "bvshl", OLShr: "bvlshr", OAShr: "bvashr", OULt: "bvult",
	OULe: "bvule", OSLt: "bvslt", OSLe: "bvsle", OFPAdd: "fp.add RNE", OFPLt: "fp.lt", OFPLe: "fp.leq", OFPEq: "fp.eq"}

// Term is an immutable hash-consed SMT term.
type Term struct {
	Op   Op
	Sort Sort
	Args []*Term
	V    uint64  // constant value (bool: 0/1; bv: value masked to width)
	S    string  // OConst of SAtom: the concrete string; OVar/OApp: name
	F    float64 // OConst of SFP
	id   int
	// IsStr marks an SAtom constant that denotes a real Go string.
}

func (t *Term) IsConst() bool { return t.Op == OConst }
func (t *Term) ID() int       { return t.id }

// TermStore hash-conses terms. One per executor (not thread safe).
type TermStore struct {
	tab    map[string]*Term
	nextID int
	// Atom interning: concrete strings -> distinct ints.
	atomIDs  map[string]int
	atomStrs []string
	// declared uninterpreted functions: name -> signature
	Funs map[string]string
}

func NewTermStore() *TermStore {
	ts := &TermStore{tab: map[string]*Term{}, atomIDs: map[string]int{}, Funs: map[string]string{}}
	return ts
}

func (ts *TermStore) AtomID(s string) int {
	if id, ok := ts.atomIDs[s]; ok {
		return id
	}
	id := len(ts.atomStrs)
	ts.atomIDs[s] = id
	ts.atomStrs = append(ts.atomStrs, s)
	return id
}

func (ts *TermStore) AtomTable() []string { return ts.atomStrs }

func (ts *TermStore) mk(t Term) *Term {
	var sb strings.Builder
	sb.WriteString(strconv.Itoa(int(t.Op)))
	sb.WriteByte('|')
	sb.WriteString(strconv.Itoa(int(t.Sort.K)))
	sb.WriteByte('.')
	sb.WriteString(strconv.Itoa(int(t.Sort.W)))
	sb.WriteByte('|')
	switch t.Op {
	case OConst:
		if t.Sort.K == SAtom {
			sb.WriteString(t.S)
		} else if t.Sort.K == SFP {
			sb.WriteString(strconv.FormatFloat(t.F, 'g', -1, 64))
		} else {
			sb.WriteString(strconv.FormatUint(t.V, 16))
		}
	case OVar, OApp:
		sb.WriteString(t.S)
	}
	for _, a := range t.Args {
		sb.WriteByte(',')
		sb.WriteString(strconv.Itoa(a.id))
	}
	k := sb.String()
	if e, ok := ts.tab[k]; ok {
		return e
	}
	nt := new(Term)
	*nt = t
	ts.nextID++
	nt.id = ts.nextID
	ts.tab[k] = nt
	return nt
}

func mask(w uint8) uint64 {
	if w >= 64 {
		return ^uint64(0)
	}
	return (uint64(1) << w) - 1
}

func sext(v uint64, w uint8) int64 {
	if w >= 64 {
		return int64(v)
	}
	sh := 64 - uint(w)
	return int64(v<<sh) >> sh
}

func (ts *TermStore) Bool(b bool) *Term {
	v := uint64(0)
	if b {
		v = 1
	}
	return ts.mk(Term{Op: OConst, Sort: BoolSort, V: v})
}
func (ts *TermStore) True() *Term  { return ts.Bool(true) }
func (ts *TermStore) False() *Term { return ts.Bool(false) }

func (ts *TermStore) BVConst(v uint64, w int) *Term {
	return ts.mk(Term{Op: OConst, Sort: BV(w), V: v & mask(uint8(w))})
}

func (ts *TermStore) Str(s string) *Term {
	ts.AtomID(s)
	return ts.mk(Term{Op: OConst, Sort: AtomSort, S: s})
}

func (ts *TermStore) FPConst(f float64) *Term {
	return ts.mk(Term{Op: OConst, Sort: FPSort, F: f})
}

func (ts *TermStore) Var(name string, s Sort) *Term {
	return ts.mk(Term{Op: OVar, Sort: s, S: name})
}

// App builds an uninterpreted function application.
func (ts *TermStore) App(name string, res Sort, args ...*Term) *Term {
	var sig strings.Builder
	sig.WriteString("(")
	for i, a := range args {
		if i > 0 {
			sig.WriteString(" ")
		}
		sig.WriteString(a.Sort.String())
	}
	sig.WriteString(") ")
	sig.WriteString(res.String())
	if old, ok := ts.Funs[name]; ok && old != sig.String() {
		panic("UF signature clash for " + name)
	}
	ts.Funs[name] = sig.String()
	return ts.mk(Term{Op: OApp, Sort: res, S: name, Args: args})
}

func (ts *TermStore) Not(a *Term) *Term {
	if a.IsConst() {
		return ts.Bool(a.V == 0)
	}
	if a.Op == ONot {
		return a.Args[0]
	}
	return ts.mk(Term{Op: ONot, Sort: BoolSort, Args: []*Term{a}})
}

func (ts *TermStore) And(xs ...*Term) *Term {
	var out []*Term
	seen := map[int]bool{}
	for _, x := range xs {
		if x.IsConst() {
			if x.V == 0 {
				return ts.False()
			}
			continue
		}
		if x.Op == OAnd {
			for _, y := range x.Args {
				if !seen[y.id] {
					seen[y.id] = true
					out = append(out, y)
				}
			}
			continue
		}
		if !seen[x.id] {
			seen[x.id] = true
			out = append(out, x)
		}
	}
	for _, x := range out {
		if x.Op == ONot && seen[x.Args[0].id] {
			return ts.False()
		}
	}
	switch len(out) {
	case 0:
		return ts.True()
	case 1:
		return out[0]
	}
	sort.Slice(out, func(i, j int) bool { return out[i].id < out[j].id })
	return ts.mk(Term{Op: OAnd, Sort: BoolSort, Args: out})
}

func (ts *TermStore) Or(xs ...*Term) *Term {
	var out []*Term
	seen := map[int]bool{}
	for _, x := range xs {
		if x.IsConst() {
			if x.V == 1 {
				return ts.True()
			}
			continue
		}
		if x.Op == OOr {
			for _, y := range x.Args {
				if !seen[y.id] {
					seen[y.id] = true
					out = append(out, y)
				}
			}
			continue
		}
		if !seen[x.id] {
			seen[x.id] = true
			out = append(out, x)
		}
	}
	for _, x := range out {
		if x.Op == ONot && seen[x.Args[0].id] {
			return ts.True()
		}
	}
	switch len(out) {
	case 0:
		return ts.False()
	case 1:
		return out[0]
	}
	sort.Slice(out, func(i, j int) bool { return out[i].id < out[j].id })
	return ts.mk(Term{Op: OOr, Sort: BoolSort, Args: out})
}

func (ts *TermStore) Eq(a, b *Term) *Term {
	if a.Sort != b.Sort {
		panic(fmt.Sprintf("Eq sort mismatch %v vs %v", a.Sort, b.Sort))
	}
	if a == b {
		if a.Sort.K == SFP {
			// NaN != NaN; only fold for constants
			if a.IsConst() {
				return ts.Bool(a.F == a.F)
			}
		} else {
			return ts.True()
		}
	}
	if a.IsConst() && b.IsConst() {
		switch a.Sort.K {
		case SAtom:
			return ts.Bool(a.S == b.S)
		case SFP:
			return ts.Bool(a.F == b.F)
		default:
			return ts.Bool(a.V == b.V)
		}
	}
	if a.Sort.K == SBool {
		if a.IsConst() {
			a, b = b, a
		}
		if b.IsConst() {
			if b.V == 1 {
				return a
			}
			return ts.Not(a)
		}
	}
	if a.Sort.K == SFP {
		return ts.mk(Term{Op: OFPEq, Sort: BoolSort, Args: []*Term{a, b}})
	}
	// ite lifting for constants: (ite c x y) == k
	if b.IsConst() && a.Op == OIte && a.Args[1].IsConst() && a.Args[2].IsConst() {
		return ts.Ite(a.Args[0], ts.Eq(a.Args[1], b), ts.Eq(a.Args[2], b))
	}
	if a.IsConst() && b.Op == OIte && b.Args[1].IsConst() && b.Args[2].IsConst() {
		return ts.Ite(b.Args[0], ts.Eq(b.Args[1], a), ts.Eq(b.Args[2], a))
	}
	if a.id > b.id {
		a, b = b, a
	}
	return ts.mk(Term{Op: OEq, Sort: BoolSort, Args: []*Term{a, b}})
}

func (ts *TermStore) Ite(c, a, b *Term) *Term {
	if c.IsConst() {
		if c.V == 1 {
			return a
		}
		return b
	}
	if a == b {
		return a
	}
	if a.Sort.K == SBool {
		if a.IsConst() && b.IsConst() {
			if a.V == 1 {
				return c
			}
			return ts.Not(c)
		}
		if a.IsConst() {
			if a.V == 1 {
				return ts.Or(c, b)
			}
			return ts.And(ts.Not(c), b)
		}
		if b.IsConst() {
			if b.V == 1 {
				return ts.Or(ts.Not(c), a)
			}
			return ts.And(c, a)
		}
	}
	return ts.mk(Term{Op: OIte, Sort: a.Sort, Args: []*Term{c, a, b}})
}

// Bin builds a bit-vector binary operation with constant folding.
func (ts *TermStore) Bin(op Op, a, b *Term) *Term {
	if a.Sort != b.Sort {
		panic(fmt.Sprintf("Bin %v sort mismatch %v vs %v", op, a.Sort, b.Sort))
	}
	w := a.Sort.W
	res := a.Sort
	switch op {
	case OULt, OULe, OSLt, OSLe:
		res = BoolSort
	}
	if a.IsConst() && b.IsConst() {
		x, y := a.V, b.V
		sx, sy := sext(x, w), sext(y, w)
		switch op {
		case OAdd:
			return ts.BVConst(x+y, int(w))
		case OSub:
			return ts.BVConst(x-y, int(w))
		case OMul:
			return ts.BVConst(x*y, int(w))
		case OUDiv:
			if y != 0 {
				return ts.BVConst(x/y, int(w))
			}
		case OURem:
			if y != 0 {
				return ts.BVConst(x%y, int(w))
			}
		case OSDiv:
			if y != 0 {
				return ts.BVConst(uint64(sx/sy), int(w))
			}
		case OSRem:
			if y != 0 {
				return ts.BVConst(uint64(sx%sy), int(w))
			}
		case OBAnd:
			return ts.BVConst(x&y, int(w))
		case OBOr:
			return ts.BVConst(x|y, int(w))
		case OBXor:
			return ts.BVConst(x^y, int(w))
		case OShl:
			if y >= uint64(w) {
				return ts.BVConst(0, int(w))
			}
			return ts.BVConst(x<<y, int(w))
		case OLShr:
			if y >= uint64(w) {
				return ts.BVConst(0, int(w))
			}
			return ts.BVConst(x>>y, int(w))
		case OAShr:
			if y >= uint64(w) {
				y = uint64(w) - 1
			}
			return ts.BVConst(uint64(sx>>y), int(w))
		case OULt:
			return ts.Bool(x < y)
		case OULe:
			return ts.Bool(x <= y)
		case OSLt:
			return ts.Bool(sx < sy)
		case OSLe:
			return ts.Bool(sx <= sy)
		}
	}
	// light identities
	switch op {
	case OAdd:
		if a.IsConst() && a.V == 0 {
			return b
		}
		if b.IsConst() && b.V == 0 {
			return a
		}
	case OSub:
		if b.IsConst() && b.V == 0 {
			return a
		}
		if a == b {
			return ts.BVConst(0, int(w))
		}
	case OULe, OSLe:
		if a == b {
			return ts.True()
		}
	case OULt, OSLt:
		if a == b {
			return ts.False()
		}
	}
	return ts.mk(Term{Op: op, Sort: res, Args: []*Term{a, b}})
}

func (ts *TermStore) Un(op Op, a *Term) *Term {
	w := a.Sort.W
	if a.IsConst() {
		switch op {
		case OBNot:
			return ts.BVConst(^a.V, int(w))
		case ONeg:
			return ts.BVConst(-a.V, int(w))
		}
	}
	return ts.mk(Term{Op: op, Sort: a.Sort, Args: []*Term{a}})
}

// Resize converts a BV term to width w (sign- or zero-extending, or truncating).
func (ts *TermStore) Resize(a *Term, w int, signed bool) *Term {
	aw := int(a.Sort.W)
	if aw == w {
		return a
	}
	if a.IsConst() {
		if w > aw && signed {
			return ts.BVConst(uint64(sext(a.V, uint8(aw))), w)
		}
		return ts.BVConst(a.V, w)
	}
	if w < aw {
		return ts.mk(Term{Op: OExtract, Sort: BV(w), Args: []*Term{a}})
	}
	if signed {
		return ts.mk(Term{Op: OSExt, Sort: BV(w), Args: []*Term{a}})
	}
	return ts.mk(Term{Op: OZExt, Sort: BV(w), Args: []*Term{a}})
}

func (ts *TermStore) FPBin(op Op, a, b *Term) *Term {
	if a.IsConst() && b.IsConst() {
		switch op {
		case OFPAdd:
			return ts.FPConst(a.F + b.F)
		case OFPLt:
			return ts.Bool(a.F < b.F)
		case OFPLe:
			return ts.Bool(a.F <= b.F)
		}
	}
	res := FPSort
	if op != OFPAdd {
		res = BoolSort
	}
	return ts.mk(Term{Op: op, Sort: res, Args: []*Term{a, b}})
}

func (ts *TermStore) FPFromBV(a *Term, signed bool) *Term {
	if a.IsConst() {
		if signed {
			return ts.FPConst(float64(sext(a.V, a.Sort.W)))
		}
		return ts.FPConst(float64(a.V))
	}
	op := OFPFromUBV
	if signed {
		op = OFPFromSBV
	}
	return ts.mk(Term{Op: op, Sort: FPSort, Args: []*Term{a}})
}

// --- SMT-LIB printing -------------------------------------------------------

// Printer emits terms as SMT-LIB2, naming shared subterms with define-fun so
// that output stays linear in DAG size.
type Printer struct {
	ts       *TermStore
	defined  map[int]string // term id -> symbol
	declared map[string]bool
	Out      *strings.Builder // pending declarations/definitions to flush before use
}

func NewPrinter(ts *TermStore) *Printer {
	return &Printer{ts: ts, defined: map[int]string{}, declared: map[string]bool{}, Out: &strings.Builder{}}
}

func smtSym(name string) string {
	return "|" + strings.NewReplacer("|", "_", "\\", "_").Replace(name) + "|"
}

func bvLit(v uint64, w uint8) string {
	if w%4 == 0 {
		return fmt.Sprintf("#x%0*x", int(w/4), v)
	}
	return fmt.Sprintf("#b%0*b", int(w), v)
}

func fpLit(f float64) string {
	b := math.Float64bits(f)
	return fmt.Sprintf("(fp #b%01b #b%011b #x%013x)", b>>63, (b>>52)&0x7ff, b&((1<<52)-1))
}

// Ref returns an SMT expression (a symbol or literal) for t, emitting any
// needed declarations and definitions into p.Out.
func (p *Printer) Ref(t *Term) string {
	switch t.Op {
	case OConst:
		switch t.Sort.K {
		case SBool:
			if t.V == 1 {
				return "true"
			}
			return "false"
		case SBV:
			return bvLit(t.V, t.Sort.W)
		case SAtom:
			return strconv.Itoa(p.ts.AtomID(t.S))
		case SFP:
			return fpLit(t.F)
		}
	case OVar:
		s := smtSym(t.S)
		if !p.declared[s] {
			p.declared[s] = true
			fmt.Fprintf(p.Out, "(declare-const %s %s)\n", s, t.Sort)
		}
		return s
	}
	if s, ok := p.defined[t.id]; ok {
		return s
	}
	args := make([]string, len(t.Args))
	for i, a := range t.Args {
		args[i] = p.Ref(a)
	}
	var body string
	switch t.Op {
	case OZExt:
		body = fmt.Sprintf("((_ zero_extend %d) %s)", int(t.Sort.W)-int(t.Args[0].Sort.W), args[0])
	case OSExt:
		body = fmt.Sprintf("((_ sign_extend %d) %s)", int(t.Sort.W)-int(t.Args[0].Sort.W), args[0])
	case OExtract:
		body = fmt.Sprintf("((_ extract %d 0) %s)", int(t.Sort.W)-1, args[0])
	case OFPFromUBV:
		body = fmt.Sprintf("((_ to_fp_unsigned 11 53) RNE %s)", args[0])
	case OFPFromSBV:
		body = fmt.Sprintf("((_ to_fp 11 53) RNE %s)", args[0])
	case OApp:
		fs := smtSym(t.S)
		if !p.declared[fs] {
			p.declared[fs] = true
			fmt.Fprintf(p.Out, "(declare-fun %s %s)\n", fs, p.ts.Funs[t.S])
		}
		if len(args) == 0 {
			body = fs
		} else {
			body = "(" + fs + " " + strings.Join(args, " ") + ")"
		}
	default:
		name, ok := opNames[t.Op]
		if !ok {
			panic(fmt.Sprintf("no SMT name for op %d", t.Op))
		}
		body = "(" + name + " " + strings.Join(args, " ") + ")"
	}
	s := fmt.Sprintf("t%d", t.id)
	p.defined[t.id] = s
	fmt.Fprintf(p.Out, "(define-fun %s () %s %s)\n", s, t.Sort, body)
	return s
}

// Flush returns and clears pending declarations.
func (p *Printer) Flush() string {
	s := p.Out.String()
	p.Out.Reset()
	return s
}

// Vars collects the free variables of the given terms.
func Vars(ts ...*Term) []*Term {
	seen := map[int]bool{}
	var out []*Term
	var walk func(t *Term)
	walk = func(t *Term) {
		if seen[t.id] {
			return
		}
		seen[t.id] = true
		if t.Op == OVar {
			out = append(out, t)
		}
		for _, a := range t.Args {
			walk(a)
		}
	}
	for _, t := range ts {
		walk(t)
	}
	sort.Slice(out, func(i, j int) bool { return out[i].S < out[j].S })
	return out
}

// String renders a term for humans (not SMT).
func (t *Term) String() string {
	switch t.Op {
	case OConst:
		switch t.Sort.K {
		case SBool:
			return strconv.FormatBool(t.V == 1)
		case SBV:
			return strconv.FormatUint(t.V, 10)
		case SAtom:
			return strconv.Quote(t.S)
		case SFP:
			return strconv.FormatFloat(t.F, 'g', -1, 64)
		}
	case OVar:
		return t.S
	case OApp:
		var a []string
		for _, x := range t.Args {
			a = append(a, x.String())
		}
		return t.S + "(" + strings.Join(a, ",") + ")"
	}
	var a []string
	for _, x := range t.Args {
		a = append(a, x.String())
	}
	n := opNames[t.Op]
	if n == "" {
		n = fmt.Sprintf("op%d", t.Op)
	}
	return "(" + n + " " + strings.Join(a, " ") + ")"
}

var _ = bits.Len
