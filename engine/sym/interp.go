package sym

import (
	"fmt"
	"go/token"
	"go/types"
	"slices"
	"strings"

	"golang.org/x/tools/go/ssa"
)

type deferred struct {
	fn    Value
	args  []Value
	instr *ssa.Defer
	tail  *deferred
}

type frame struct {
	ex               *Exec
	caller           *frame
	fn               *ssa.Function
	block, prevBlock *ssa.BasicBlock
	env              map[ssa.Value]Value
	locals           []Value
	defers           *deferred
	result           Value
	curInstr         ssa.Instruction
	visits           map[*ssa.BasicBlock]int
	depth            int
	phitemps         []Value
	phisDone         bool
}

func mustDeref(t types.Type) types.Type {
	if p, ok := t.Underlying().(*types.Pointer); ok {
		return p.Elem()
	}
	panic(fmt.Sprintf("mustDeref: not a pointer: %v", t))
}

func (fr *frame) get(key ssa.Value) Value {
	switch key := key.(type) {
	case nil:
		return nil
	case *ssa.Function:
		return key
	case *ssa.Builtin:
		return key
	case *ssa.Const:
		return fr.ex.constValue(key)
	case *ssa.Global:
		return fr.ex.globalAddr(key)
	}
	if r, ok := fr.env[key]; ok {
		return r
	}
	panic(fmt.Sprintf("get: no value for %T: %v in %s", key, key.Name(), fr.fn))
}

func (ex *Exec) globalAddr(g *ssa.Global) *Value {
	if r, ok := ex.globals[g]; ok {
		return r
	}
	cell := new(Value)
	t := mustDeref(g.Type())
	if g.Pkg != nil && !ex.cfg.Policy.InitInterpreted(g.Pkg.Pkg.Path()) {
		*cell = ex.opaqueGlobal(g, t)
	} else {
		*cell = ex.zero(t)
	}
	ex.globals[g] = cell
	return cell
}

// opaqueGlobal synthesises a stable value for a global of a package whose
// initialiser is not interpreted.
func (ex *Exec) opaqueGlobal(g *ssa.Global, t types.Type) Value {
	name := g.Pkg.Pkg.Path() + "." + g.Name()
	if v, ok := ex.cfg.Policy.GlobalValue(ex, name, t); ok {
		return v
	}
	switch u := t.Underlying().(type) {
	case *types.Interface:
		return ex.opaqueIface(name, t)
	case *types.Pointer:
		c := new(Value)
		*c = ex.zero(u.Elem())
		return c
	case *types.Signature:
		return &Intrinsic{Name: name, Fn: func(ex *Exec, fr *frame, args []Value) Value {
			return ex.havocResult(fr, name, u.Results())
		}}
	}
	return ex.zero(t)
}

// externType returns a synthetic named type used as dynamic type for opaque values.
func (ex *Exec) externType(name string) types.Type {
	if t, ok := ex.externTypes[name]; ok {
		return t
	}
	tn := types.NewTypeName(token.NoPos, nil, "extern$"+name, nil)
	t := types.NewNamed(tn, types.NewStruct(nil, nil), nil)
	ex.externTypes[name] = t
	return t
}

func (ex *Exec) constValue(c *ssa.Const) Value {
	if c.Value == nil {
		return ex.zero(c.Type())
	}
	t := c.Type().Underlying()
	if tp, ok := c.Type().(*types.TypeParam); ok {
		_ = tp
		panic("const of type param")
	}
	if b, ok := t.(*types.Basic); ok {
		switch {
		case b.Info()&types.IsBoolean != 0:
			return ex.ts.Bool(constantBool(c))
		case b.Info()&types.IsString != 0:
			return ex.ts.Str(constantString(c))
		case b.Info()&types.IsInteger != 0:
			if b.Info()&types.IsUnsigned != 0 {
				return ex.ts.BVConst(c.Uint64(), intWidth(b))
			}
			return ex.ts.BVConst(uint64(c.Int64()), intWidth(b))
		case b.Info()&types.IsFloat != 0:
			return ex.ts.FPConst(c.Float64())
		}
	}
	panic(fmt.Sprintf("constValue: unexpected constant %v of type %v", c, c.Type()))
}

// callFunction interprets fn.
func (ex *Exec) callFunction(caller *frame, fn *ssa.Function, args []Value, env []Value) Value {
	if fn == nil {
		ex.crash("call of nil function")
	}
	depth := 0
	if caller != nil {
		depth = caller.depth + 1
	}
	if depth > ex.cfg.MaxDepth {
		ex.inconclusive("unwind: call depth > %d at %s", ex.cfg.MaxDepth, fn)
		ex.endPath("depth")
	}
	if fn.Blocks == nil {
		panic("no body for function " + fn.String())
	}
	if fn.TypeParams().Len() > 0 && len(fn.TypeArgs()) == 0 {
		panic("uninstantiated generic function " + fn.String())
	}
	ex.Stats.Funcs[fn.String()] = true
	fr := &frame{ex: ex, caller: caller, fn: fn, depth: depth}
	fr.env = make(map[ssa.Value]Value, 16)
	fr.block = fn.Blocks[0]
	fr.locals = make([]Value, len(fn.Locals))
	for i, l := range fn.Locals {
		fr.locals[i] = ex.zero(mustDeref(l.Type()))
		fr.env[l] = &fr.locals[i]
	}
	if len(args) != len(fn.Params) {
		panic(fmt.Sprintf("arity mismatch calling %s: %d args for %d params", fn, len(args), len(fn.Params)))
	}
	for i, p := range fn.Params {
		fr.env[p] = args[i]
	}
	for i, fv := range fn.FreeVars {
		fr.env[fv] = env[i]
	}
	prevTop := ex.cur.top
	ex.cur.top = fr
	for fr.block != nil {
		ex.runFrame(fr)
	}
	ex.cur.top = prevTop
	return fr.result
}

func (ex *Exec) runFrame(fr *frame) {
	for {
		if fr.visits == nil {
			fr.visits = map[*ssa.BasicBlock]int{}
		}
		fr.visits[fr.block]++
		if fr.visits[fr.block] > ex.cfg.LoopFuel {
			ex.inconclusive("unwind: loop fuel %d exhausted in %s block %d", ex.cfg.LoopFuel, fr.fn, fr.block.Index)
			ex.endPath("loop fuel")
		}
		var nonPhis []ssa.Instruction
		if fr.phisDone {
			fr.phisDone = false
			k := 0
			for k < len(fr.block.Instrs) {
				if _, ok := fr.block.Instrs[k].(*ssa.Phi); !ok {
					break
				}
				k++
			}
			nonPhis = fr.block.Instrs[k:]
		} else {
			nonPhis = ex.executePhis(fr)
		}
		for _, instr := range nonPhis {
			ex.instrs++
			if ex.instrs > ex.cfg.MaxInstr {
				ex.inconclusive("instruction budget %d exhausted in %s", ex.cfg.MaxInstr, fr.fn)
				ex.endPath("instr budget")
			}
			fr.curInstr = instr
			if ex.cfg.Trace {
				if v, ok := instr.(ssa.Value); ok {
					ex.tracef("%s%s: %s = %s", strings.Repeat(" ", fr.depth), fr.fn.Name(), v.Name(), instr)
				} else {
					ex.tracef("%s%s: %s", strings.Repeat(" ", fr.depth), fr.fn.Name(), instr)
				}
			}
			switch ex.visitInstr(fr, instr) {
			case kReturn:
				return
			case kJump:
			}
			if fr.block == nil {
				return
			}
		}
	}
}

type continuation int

const (
	kNext continuation = iota
	kReturn
	kJump
)

func (ex *Exec) executePhis(fr *frame) []ssa.Instruction {
	firstNonPhi := -1
	for i, instr := range fr.block.Instrs {
		if _, ok := instr.(*ssa.Phi); !ok {
			firstNonPhi = i
			break
		}
	}
	nonPhis := fr.block.Instrs[firstNonPhi:]
	if firstNonPhi > 0 {
		phis := fr.block.Instrs[:firstNonPhi]
		predIndex := slices.Index(fr.block.Preds, fr.prevBlock)
		fr.phitemps = fr.phitemps[:0]
		for _, phi := range phis {
			phi := phi.(*ssa.Phi)
			fr.phitemps = append(fr.phitemps, fr.get(phi.Edges[predIndex]))
		}
		for i, phi := range phis {
			fr.env[phi.(*ssa.Phi)] = fr.phitemps[i]
		}
	}
	return nonPhis
}

func (ex *Exec) runDefers(fr *frame) {
	for d := fr.defers; d != nil; d = d.tail {
		fr.defers = d.tail
		ex.call(fr, d.fn, d.args)
	}
	fr.defers = nil
}

func (ex *Exec) derefPtr(fr *frame, v Value, what string) *Value {
	p, ok := v.(*Value)
	if !ok {
		panic(fmt.Sprintf("%s: not a pointer: %T", what, v))
	}
	if p == nil {
		ex.crash("nil pointer dereference (" + what + ")")
	}
	return p
}

func (ex *Exec) visitInstr(fr *frame, instr ssa.Instruction) continuation {
	switch instr := instr.(type) {
	case *ssa.DebugRef:

	case *ssa.UnOp:
		fr.env[instr] = ex.unop(fr, instr, fr.get(instr.X))

	case *ssa.BinOp:
		fr.env[instr] = ex.binop(fr, instr.Op, instr.X.Type(), fr.get(instr.X), fr.get(instr.Y))

	case *ssa.Call:
		fn, args := ex.prepareCall(fr, &instr.Call)
		fr.env[instr] = ex.call(fr, fn, args)

	case *ssa.ChangeInterface:
		fr.env[instr] = fr.get(instr.X)

	case *ssa.ChangeType:
		fr.env[instr] = fr.get(instr.X)

	case *ssa.Convert:
		fr.env[instr] = ex.conv(instr.Type(), instr.X.Type(), fr.get(instr.X))

	case *ssa.MakeInterface:
		fr.env[instr] = Iface{T: instr.X.Type(), V: fr.get(instr.X)}

	case *ssa.Extract:
		fr.env[instr] = fr.get(instr.Tuple).(Tuple)[instr.Index]

	case *ssa.Slice:
		fr.env[instr] = ex.slice(fr, instr, fr.get(instr.X), fr.get(instr.Low), fr.get(instr.High), fr.get(instr.Max))

	case *ssa.Return:
		switch len(instr.Results) {
		case 0:
		case 1:
			fr.result = fr.get(instr.Results[0])
		default:
			res := make(Tuple, 0, len(instr.Results))
			for _, r := range instr.Results {
				res = append(res, fr.get(r))
			}
			fr.result = res
		}
		fr.block = nil
		return kReturn

	case *ssa.RunDefers:
		ex.runDefers(fr)

	case *ssa.Panic:
		ex.crash("panic: " + Show(fr.get(instr.X)))

	case *ssa.Send:
		ex.chanSend(fr.get(instr.Chan).(*Chan), fr.get(instr.X))

	case *ssa.Store:
		addr := ex.derefPtr(fr, fr.get(instr.Addr), "store")
		ex.sharedAccess(fr, instr.Addr)
		ex.raceWrite(fr, addr, "memory")
		store(addr, copyVal(fr.get(instr.Val)))

	case *ssa.If:
		c := fr.get(instr.Cond).(*Term)
		if !c.IsConst() && ex.tryIfConvert(fr, instr, c) {
			return kJump
		}
		succ := 1
		if ex.branch(c) {
			succ = 0
		}
		fr.prevBlock, fr.block = fr.block, fr.block.Succs[succ]
		return kJump

	case *ssa.Jump:
		fr.prevBlock, fr.block = fr.block, fr.block.Succs[0]
		return kJump

	case *ssa.Defer:
		fn, args := ex.prepareCall(fr, &instr.Call)
		fr.defers = &deferred{fn: fn, args: args, instr: instr, tail: fr.defers}

	case *ssa.Go:
		fn, args := ex.prepareCall(fr, &instr.Call)
		name := fmt.Sprintf("go@%s", ex.posOf(fr))
		ex.newTask(name, func() {
			ex.call(nil, fn, args)
		})

	case *ssa.MakeChan:
		sz := ex.concreteInt(fr.get(instr.Size), "chan size")
		fr.env[instr] = &Chan{Cap: int(sz), ElemT: instr.Type().Underlying().(*types.Chan).Elem(), Name: ex.posOf(fr)}

	case *ssa.Alloc:
		var addr *Value
		if instr.Heap {
			addr = new(Value)
			fr.env[instr] = addr
		} else {
			addr = fr.env[instr].(*Value)
		}
		*addr = ex.zero(mustDeref(instr.Type()))

	case *ssa.MakeSlice:
		n := ex.concreteInt(fr.get(instr.Len), "make slice len")
		c := ex.concreteInt(fr.get(instr.Cap), "make slice cap")
		if n < 0 || c < n || c > 1<<16 {
			ex.crash(fmt.Sprintf("makeslice: len %d cap %d out of range", n, c))
		}
		sl := make([]Value, c)
		tElt := instr.Type().Underlying().(*types.Slice).Elem()
		for i := range sl {
			sl[i] = ex.zero(tElt)
		}
		fr.env[instr] = sl[:n]

	case *ssa.MakeMap:
		fr.env[instr] = &Map{KeyT: instr.Type().Underlying().(*types.Map).Key()}

	case *ssa.Range:
		fr.env[instr] = ex.rangeIter(fr, fr.get(instr.X), instr.X.Type())

	case *ssa.Next:
		fr.env[instr] = fr.get(instr.Iter).(iter).next(ex)

	case *ssa.FieldAddr:
		p := ex.derefPtr(fr, fr.get(instr.X), "field "+fieldName(instr.X.Type(), instr.Field))
		fr.env[instr] = &(*p).(Struct)[instr.Field]

	case *ssa.Field:
		fr.env[instr] = fr.get(instr.X).(Struct)[instr.Field]

	case *ssa.IndexAddr:
		x := fr.get(instr.X)
		switch x := x.(type) {
		case []Value:
			i := ex.checkIndex(fr, fr.get(instr.Index), len(x))
			fr.env[instr] = &x[i]
		case *Value:
			if x == nil {
				ex.crash("nil pointer dereference (index of nil array pointer)")
			}
			a := (*x).(Array)
			i := ex.checkIndex(fr, fr.get(instr.Index), len(a))
			fr.env[instr] = &a[i]
		default:
			panic(fmt.Sprintf("unexpected x type in IndexAddr: %T", x))
		}

	case *ssa.Index:
		x := fr.get(instr.X)
		switch x := x.(type) {
		case Array:
			i := ex.checkIndex(fr, fr.get(instr.Index), len(x))
			fr.env[instr] = copyVal(x[i])
		case *Term:
			if !x.IsConst() {
				panic("index of symbolic string")
			}
			i := ex.checkIndex(fr, fr.get(instr.Index), len(x.S))
			fr.env[instr] = ex.ts.BVConst(uint64(x.S[i]), 8)
		default:
			panic(fmt.Sprintf("unexpected x type in Index: %T", x))
		}

	case *ssa.Lookup:
		fr.env[instr] = ex.lookup(fr, instr, fr.get(instr.X), fr.get(instr.Index))

	case *ssa.MapUpdate:
		m := fr.get(instr.Map).(*Map)
		if m == nil {
			ex.crash("assignment to entry in nil map")
		}
		ex.raceMapWrite(fr, m)
		ex.mapUpdate(m, fr.get(instr.Key), copyVal(fr.get(instr.Value)))

	case *ssa.TypeAssert:
		fr.env[instr] = ex.typeAssert(fr, instr, fr.get(instr.X).(Iface))

	case *ssa.MakeClosure:
		var bindings []Value
		for _, b := range instr.Bindings {
			bindings = append(bindings, fr.get(b))
		}
		fr.env[instr] = &Closure{instr.Fn.(*ssa.Function), bindings}

	case *ssa.Select:
		fr.env[instr] = ex.selectInstr(fr, instr)

	case *ssa.SliceToArrayPointer:
		panic("SliceToArrayPointer unsupported")

	default:
		panic(fmt.Sprintf("unexpected instruction: %T", instr))
	}
	return kNext
}

func fieldName(t types.Type, i int) string {
	if p, ok := t.Underlying().(*types.Pointer); ok {
		if s, ok := p.Elem().Underlying().(*types.Struct); ok && i < s.NumFields() {
			return s.Field(i).Name()
		}
	}
	return fmt.Sprint(i)
}

// concreteInt requires a constant integer.
func (ex *Exec) concreteInt(v Value, what string) int64 {
	t, ok := v.(*Term)
	if !ok {
		panic(fmt.Sprintf("%s: not an integer: %T", what, v))
	}
	if !t.IsConst() {
		t = ex.simp(t)
	}
	if !t.IsConst() {
		panic(fmt.Sprintf("%s: symbolic value not supported (case-split it in the harness): %s", what, t))
	}
	return sext(t.V, t.Sort.W)
}

func (ex *Exec) checkIndex(fr *frame, idx Value, n int) int {
	t := idx.(*Term)
	if !t.IsConst() {
		// symbolic index: obligation in range, then fork over the possible values
		w := int(t.Sort.W)
		inRange := ex.ts.And(ex.ts.Bin(OSLe, ex.ts.BVConst(0, w), t), ex.ts.Bin(OSLt, t, ex.ts.BVConst(uint64(n), w)))
		ex.obligation(inRange, "index", fmt.Sprintf("index out of range [0,%d)", n), fr)
		for i := 0; i < n; i++ {
			if ex.branch(ex.ts.Eq(t, ex.ts.BVConst(uint64(i), w))) {
				return i
			}
		}
		ex.endPath("index infeasible")
	}
	i := sext(t.V, t.Sort.W)
	if i < 0 || i >= int64(n) {
		ex.crash(fmt.Sprintf("index out of range [%d] with length %d", i, n))
	}
	return int(i)
}

func (ex *Exec) prepareCall(fr *frame, call *ssa.CallCommon) (fn Value, args []Value) {
	v := fr.get(call.Value)
	if call.Method == nil {
		fn = v
	} else {
		recv := v.(Iface)
		if recv.T == nil {
			ex.crash("nil pointer dereference: method " + call.Method.Name() + " invoked on nil interface")
		}
		if e, ok := recv.V.(*Extern); ok {
			fn = ex.externMethod(e, recv.T, call.Method)
		} else if f := ex.lookupMethod(recv.T, call.Method); f != nil {
			fn = f
		} else if recv.T == ex.opaqueNodeType() && (call.Method.Name() == "IsNull" || call.Method.Name() == "IsAbsent") {
			// zz.Node values are arbitrary NON-null, present IPLD nodes
			fn = &Intrinsic{Name: "opaqueNode." + call.Method.Name(), Fn: func(ex *Exec, fr *frame, args []Value) Value { return ex.ts.False() }}
		} else {
			panic(fmt.Sprintf("method set for dynamic type %v does not contain %s", recv.T, call.Method))
		}
		args = append(args, recv.V)
	}
	for _, arg := range call.Args {
		args = append(args, fr.get(arg))
	}
	return
}

func (ex *Exec) lookupMethod(t types.Type, m *types.Func) *ssa.Function {
	key := t.String() + "·" + m.Id()
	if f, ok := ex.methodCache[key]; ok {
		return f
	}
	f := ex.prog.LookupMethod(t, m.Pkg(), m.Name())
	ex.methodCache[key] = f
	return f
}

// call invokes a func value.
func (ex *Exec) call(caller *frame, fn Value, args []Value) Value {
	switch fn := fn.(type) {
	case *ssa.Function:
		if fn == nil {
			ex.crash("call of nil function")
		}
		return ex.callSSA(caller, fn, args, nil)
	case *Closure:
		if fn == nil {
			ex.crash("call of nil function value")
		}
		return ex.callSSA(caller, fn.Fn, args, fn.Env)
	case *ssa.Builtin:
		return ex.callBuiltin(caller, fn, args)
	case *Intrinsic:
		if fn == nil {
			ex.crash("call of nil function value")
		}
		return fn.Fn(ex, caller, args)
	case nil:
		ex.crash("call of nil function value")
	}
	panic(fmt.Sprintf("cannot call %T", fn))
}

// callSSA applies the call policy: intrinsic, stub, interpret, havoc.
func (ex *Exec) callSSA(caller *frame, fn *ssa.Function, args []Value, env []Value) Value {
	name := fn.String()
	if fn.Origin() != nil {
		name = fn.Origin().String()
	}
	switch kind, impl, stub := ex.cfg.Policy.Resolve(fn, name); kind {
	case CallIntrinsic:
		return impl(ex, caller, args)
	case CallStub:
		ex.Stats.Stubs[name]++
		return ex.callFunction(caller, stub, args, nil)
	case CallHavoc:
		ex.Stats.Havocked[name]++
		return ex.ignoreResult(fn.Signature.Results())
	case CallInterpret:
		if fn.Blocks == nil {
			panic("no body for " + name + " (add an intrinsic)")
		}
		return ex.callFunction(caller, fn, args, env)
	}
	panic("call of unmodelled external function " + name + " (declare it in the policy)")
}

// ignoreResult is the result of a call into a package treated as a no-op (logging, tracing):
// zero values, except that pointer results are non-nil pointers to zero values.
func (ex *Exec) ignoreResult(res *types.Tuple) Value {
	one := func(t types.Type) Value {
		if p, ok := t.Underlying().(*types.Pointer); ok {
			c := new(Value)
			*c = ex.zero(p.Elem())
			return c
		}
		return ex.zero(t)
	}
	switch res.Len() {
	case 0:
		return nil
	case 1:
		return one(res.At(0).Type())
	}
	t := make(Tuple, res.Len())
	for i := range t {
		t[i] = one(res.At(i).Type())
	}
	return t
}

// havocResult returns fresh unconstrained values for the result types.
func (ex *Exec) havocResult(fr *frame, name string, res *types.Tuple) Value {
	switch res.Len() {
	case 0:
		return nil
	case 1:
		return ex.havocValue(name, res.At(0).Type())
	}
	t := make(Tuple, res.Len())
	for i := range t {
		t[i] = ex.havocValue(fmt.Sprintf("%s.%d", name, i), res.At(i).Type())
	}
	return t
}

func (ex *Exec) havocValue(label string, t types.Type) Value {
	switch u := t.Underlying().(type) {
	case *types.Basic:
		switch {
		case u.Info()&types.IsBoolean != 0:
			return ex.fresh("havoc:"+label, BoolSort)
		case u.Info()&types.IsString != 0:
			return ex.fresh("havoc:"+label, AtomSort)
		case u.Info()&types.IsInteger != 0:
			return ex.fresh("havoc:"+label, BV(intWidth(u)))
		case u.Info()&types.IsFloat != 0:
			return ex.fresh("havoc:"+label, FPSort)
		}
	case *types.Interface:
		return Iface{T: ex.externType("havoc:" + types.TypeString(t, nil)), V: &Extern{Name: "havoc:" + label, Type: t}}
	case *types.Struct:
		s := make(Struct, u.NumFields())
		for i := range s {
			s[i] = ex.havocValue(label+"."+u.Field(i).Name(), u.Field(i).Type())
		}
		return s
	case *types.Pointer:
		c := new(Value)
		*c = ex.zero(u.Elem())
		return c
	case *types.Signature:
		return &Intrinsic{Name: "havoc:" + label, Fn: func(ex *Exec, fr *frame, args []Value) Value {
			return ex.havocResult(fr, label, u.Results())
		}}
	}
	return ex.zero(t)
}

// externMethod resolves a method call on an opaque value.
func (ex *Exec) externMethod(e *Extern, dyn types.Type, m *types.Func) Value {
	if impl := ex.cfg.Policy.ExternMethod(e, m.Name()); impl != nil {
		return &Intrinsic{Name: e.Name + "." + m.Name(), Fn: impl}
	}
	sig := m.Type().(*types.Signature)
	name := "extern." + m.Name()
	if m.Pkg() != nil {
		name = m.Pkg().Path() + "." + m.Name()
	}
	if !ex.cfg.Policy.HavocExternMethod(e, m) {
		panic("method " + m.Name() + " called on opaque value " + e.Name + " (not modelled)")
	}
	return &Intrinsic{Name: name, Fn: func(ex *Exec, fr *frame, args []Value) Value {
		ex.Stats.Havocked[name]++
		return ex.havocResult(fr, name, sig.Results())
	}}
}

func (ex *Exec) typeAssert(fr *frame, instr *ssa.TypeAssert, itf Iface) Value {
	var v Value
	ok := false
	if idst, isI := instr.AssertedType.Underlying().(*types.Interface); isI {
		if itf.T != nil {
			if e, isExt := itf.V.(*Extern); isExt {
				ok = ex.cfg.Policy.ExternImplements(e, instr.AssertedType)
			} else {
				ok = types.Implements(itf.T, idst) || ex.implementsViaPointer(itf.T, idst)
			}
		}
		if ok {
			v = itf
		} else {
			v = Iface{}
		}
	} else {
		if itf.T != nil && types.Identical(itf.T, instr.AssertedType) {
			v = itf.V
			ok = true
		} else {
			v = ex.zero(instr.AssertedType)
		}
	}
	if instr.CommaOk {
		return Tuple{v, ex.ts.Bool(ok)}
	}
	if !ok {
		dyn := "nil"
		if itf.T != nil {
			dyn = itf.T.String()
		}
		ex.crash(fmt.Sprintf("interface conversion: interface is %s, not %s", dyn, instr.AssertedType))
	}
	return v
}

func (ex *Exec) implementsViaPointer(t types.Type, i *types.Interface) bool { return false }

func constantBool(c *ssa.Const) bool     { return c.Value.String() == "true" }
func constantString(c *ssa.Const) string { return constantStringVal(c) }
