package sym

import (
	"bufio"
	"fmt"
	"io"
	"os/exec"
	"strconv"
	"strings"
	"time"
)

// Result of a check-sat.
type SatResult int

const (
	Unsat SatResult = iota
	Sat
	Unknown
)

func (r SatResult) String() string {
	return [...]string{"unsat", "sat", "unknown"}[r]
}

// Solver is one long-lived SMT solver process driven over pipes.
type Solver struct {
	Name    string
	cmd     *exec.Cmd
	in      io.WriteCloser
	out     *bufio.Reader
	printer *Printer
	Queries int
	Time    time.Duration
	Errors  []string
	Log     io.Writer // optional transcript
}

// NewSolver starts a solver process. kind: "z3", "z3-new", "cvc5".
func NewSolver(kind string, ts *TermStore, timeoutMs int) (*Solver, error) {
	var cmd *exec.Cmd
	switch kind {
	case "z3":
		cmd = exec.Command("/usr/bin/z3", "-in", fmt.Sprintf("-t:%d", timeoutMs))
	case "z3-new":
		cmd = exec.Command("z3-new", "-in", fmt.Sprintf("-t:%d", timeoutMs))
	case "cvc5":
		cmd = exec.Command("cvc5", "--incremental", "--lang", "smt2", "--produce-models", fmt.Sprintf("--tlimit-per=%d", timeoutMs))
	default:
		return nil, fmt.Errorf("unknown solver %q", kind)
	}
	in, err := cmd.StdinPipe()
	if err != nil {
		return nil, err
	}
	outp, err := cmd.StdoutPipe()
	if err != nil {
		return nil, err
	}
	cmd.Stderr = nil
	if err := cmd.Start(); err != nil {
		return nil, err
	}
	s := &Solver{Name: kind, cmd: cmd, in: in, out: bufio.NewReaderSize(outp, 1<<16), printer: NewPrinter(ts)}
	if kind == "cvc5" {
		s.send("(set-logic ALL)\n")
	}
	s.send("(set-option :produce-models true)\n")
	return s, nil
}

func (s *Solver) Close() {
	if s == nil || s.cmd == nil {
		return
	}
	s.in.Close()
	done := make(chan struct{})
	go func() { s.cmd.Wait(); close(done) }()
	select {
	case <-done:
	case <-time.After(2 * time.Second):
		s.cmd.Process.Kill()
	}
	s.cmd = nil
}

func (s *Solver) send(txt string) {
	if s.Log != nil {
		io.WriteString(s.Log, txt)
	}
	io.WriteString(s.in, txt)
}

// roundTrip sends text followed by an end marker and returns all output lines before it.
func (s *Solver) roundTrip(txt string) ([]string, error) {
	s.send(txt + "(echo \"@@END\")\n")
	var lines []string
	for {
		line, err := s.out.ReadString('\n')
		if err != nil {
			return lines, fmt.Errorf("solver %s died: %v (output so far: %v)", s.Name, err, lines)
		}
		line = strings.TrimRight(line, "\r\n")
		if strings.Contains(line, "@@END") {
			return lines, nil
		}
		if s.Log != nil {
			fmt.Fprintf(s.Log, "; <- %s\n", line)
		}
		lines = append(lines, line)
	}
}

// Check decides satisfiability of the conjunction of the given terms.
// If wantModel and the result is sat, values for vars are returned.
func (s *Solver) Check(conj []*Term, wantModel bool, vars []*Term) (SatResult, map[string]string, error) {
	start := time.Now()
	defer func() { s.Time += time.Since(start); s.Queries++ }()
	var sb strings.Builder
	refs := make([]string, len(conj))
	for i, c := range conj {
		refs[i] = s.printer.Ref(c)
	}
	var vrefs []string
	if wantModel {
		for _, v := range vars {
			vrefs = append(vrefs, s.printer.Ref(v))
		}
	}
	sb.WriteString(s.printer.Flush())
	sb.WriteString("(push 1)\n")
	for _, r := range refs {
		sb.WriteString("(assert ")
		sb.WriteString(r)
		sb.WriteString(")\n")
	}
	sb.WriteString("(check-sat)\n")
	lines, err := s.roundTrip(sb.String())
	if err != nil {
		return Unknown, nil, err
	}
	res := Unknown
	bad := false
	for _, l := range lines {
		switch strings.TrimSpace(l) {
		case "sat":
			res = Sat
		case "unsat":
			res = Unsat
		case "unknown", "timeout":
			res = Unknown
		default:
			if strings.Contains(l, "error") {
				s.Errors = append(s.Errors, l)
				bad = true
			}
		}
	}
	if bad {
		s.roundTrip("(pop 1)\n")
		return Unknown, nil, fmt.Errorf("solver %s error: %s", s.Name, strings.Join(s.Errors[len(s.Errors)-1:], "; "))
	}
	var model map[string]string
	if res == Sat && wantModel && len(vrefs) > 0 {
		ml, err := s.roundTrip("(get-value (" + strings.Join(vrefs, " ") + "))\n")
		if err != nil {
			return Unknown, nil, err
		}
		model = parseModel(strings.Join(ml, "\n"), vars)
	}
	if _, err := s.roundTrip("(pop 1)\n"); err != nil {
		return Unknown, nil, err
	}
	return res, model, nil
}

// parseModel parses a (get-value ...) response: ((sym val) (sym val) ...).
func parseModel(txt string, vars []*Term) map[string]string {
	toks := tokenize(txt)
	m := map[string]string{}
	// parse list of pairs
	pos := 0
	var parse func() interface{}
	parse = func() interface{} {
		if pos >= len(toks) {
			return nil
		}
		t := toks[pos]
		pos++
		if t == "(" {
			var l []interface{}
			for pos < len(toks) && toks[pos] != ")" {
				l = append(l, parse())
			}
			pos++
			return l
		}
		return t
	}
	top, _ := parse().([]interface{})
	for i, p := range top {
		pair, ok := p.([]interface{})
		if !ok || len(pair) != 2 || i >= len(vars) {
			continue
		}
		m[vars[i].S] = sexpString(pair[1])
	}
	return m
}

func sexpString(x interface{}) string {
	switch x := x.(type) {
	case string:
		return x
	case []interface{}:
		var parts []string
		for _, e := range x {
			parts = append(parts, sexpString(e))
		}
		return "(" + strings.Join(parts, " ") + ")"
	}
	return ""
}

func tokenize(s string) []string {
	var toks []string
	i := 0
	for i < len(s) {
		c := s[i]
		switch {
		case c == '(' || c == ')':
			toks = append(toks, string(c))
			i++
		case c == ' ' || c == '\n' || c == '\t' || c == '\r':
			i++
		case c == '|':
			j := i + 1
			for j < len(s) && s[j] != '|' {
				j++
			}
			toks = append(toks, s[i:j+1])
			i = j + 1
		case c == '"':
			j := i + 1
			for j < len(s) && s[j] != '"' {
				j++
			}
			toks = append(toks, s[i:j+1])
			i = j + 1
		default:
			j := i
			for j < len(s) && !strings.ContainsRune("() \n\t\r", rune(s[j])) {
				j++
			}
			toks = append(toks, s[i:j])
			i = j
		}
	}
	return toks
}

// ModelValue converts an SMT model value string to a Go value for a var of the given sort:
// bool, uint64 (bit-vector), int64 (atom id), float64.
func ModelValue(s string, sort Sort) interface{} {
	s = strings.TrimSpace(s)
	switch sort.K {
	case SBool:
		return s == "true"
	case SBV:
		if strings.HasPrefix(s, "#x") {
			v, _ := strconv.ParseUint(s[2:], 16, 64)
			return v
		}
		if strings.HasPrefix(s, "#b") {
			v, _ := strconv.ParseUint(s[2:], 2, 64)
			return v
		}
		if strings.HasPrefix(s, "(_ bv") {
			f := strings.Fields(s[5:])
			v, _ := strconv.ParseUint(f[0], 10, 64)
			return v
		}
		return uint64(0)
	case SAtom:
		s = strings.ReplaceAll(s, " ", "")
		neg := false
		if strings.HasPrefix(s, "(-") {
			neg = true
			s = strings.TrimSuffix(s[2:], ")")
		}
		v, _ := strconv.ParseInt(s, 10, 64)
		if neg {
			v = -v
		}
		return v
	case SFP:
		return s // keep textual
	}
	return nil
}
