package sym

import (
	"fmt"
)

// task is a cooperative thread of the interpreted program. Each task runs on
// its own goroutine but only the holder of the baton executes.
type task struct {
	id       int
	name     string
	resume   chan struct{}
	exited   chan struct{}
	started  bool
	done     bool
	waiting  func() bool
	waitDesc string
	top      *frame
	isMain   bool
	inSettle bool
	vc       vclock
}

func (ex *Exec) newTask(name string, body func()) *task {
	t := &task{id: len(ex.tasks), name: name, resume: make(chan struct{}), exited: make(chan struct{})}
	t.isMain = len(ex.tasks) == 0
	if ex.cfg.Race {
		if ex.cur != nil {
			t.vc = ex.curVC().copyVC()
			ex.tick()
		} else {
			t.vc = vclock{}
		}
		t.vc[t.id] = 1
	}
	ex.tasks = append(ex.tasks, t)
	go func() {
		<-t.resume
		t.started = true
		defer close(t.exited)
		if ex.killed {
			t.done = true
			return
		}
		ended := false // this task ended the path
		func() {
			defer func() {
				if r := recover(); r != nil {
					if pa, ok := r.(pathAbort); ok {
						_ = pa
						if !ex.killed {
							ended = true
						}
						return
					}
					// engine bug or unsupported construct: make the whole run inconclusive
					if !ex.killed {
						ex.aborted = fmt.Sprintf("engine panic: %v", r)
						ex.inconclusive("engine panic in %s: %v at %s stack=%v", ex.harnessName, r, ex.posOf(t.top), ex.stackOf(t.top))
						ended = true
					}
				}
			}()
			body()
		}()
		t.done = true
		if ex.killed {
			return
		}
		if ended || t.isMain {
			close(ex.pathDone)
			return
		}
		// a non-main task finished normally: hand the baton on
		ex.handOff(t)
	}()
	return t
}

// handOff is called by a finished task to pass control to another task.
func (ex *Exec) handOff(from *task) {
	cands := ex.runnable(nil)
	if len(cands) == 0 {
		if !ex.fireSomeTimer() {
			ex.reportDeadlock()
			close(ex.pathDone)
			return
		}
		cands = ex.runnable(nil)
		if len(cands) == 0 {
			ex.reportDeadlock()
			close(ex.pathDone)
			return
		}
	}
	next := ex.pick(cands)
	ex.cur = next
	next.resume <- struct{}{}
}

func (ex *Exec) reportDeadlock() {
	main := ex.tasks[0]
	if main.done {
		return
	}
	var desc []string
	for _, t := range ex.tasks {
		if !t.done && t.waiting != nil {
			desc = append(desc, fmt.Sprintf("%s: %s in %s", t.name, t.waitDesc, ex.fnChain(t.top, 4)))
		}
	}
	func() {
		defer func() { recover() }()
		ex.Stats.Obligations++
		ex.recordViolation("deadlock", "all tasks blocked while the harness entry has not returned: "+fmt.Sprint(desc), main.top, nil)
	}()
}

func (ex *Exec) runnable(except *task) []*task {
	var out []*task
	for _, t := range ex.tasks {
		if t.done || t == except {
			continue
		}
		if t.waiting == nil || t.waiting() {
			out = append(out, t)
		}
	}
	return out
}

func (ex *Exec) pick(cands []*task) *task { return ex.pickAt(cands, false) }

// pickAt chooses the next task. With a pre-emption bound (Config.PreemptBound > 0, CHESS-style)
// a choice made because the current task blocked or finished is always explored in full, while a
// choice at a yield point of a task that could continue (cands[0]) may switch away only while
// fewer than PreemptBound such pre-emptions have been used on the path. Without it the first
// SchedBound choice points of a path branch and later ones take the default.
func (ex *Exec) pickAt(cands []*task, isYield bool) *task {
	if len(cands) == 1 {
		return cands[0]
	}
	if ex.cfg.PreemptBound > 0 {
		if isYield && ex.preemptions >= ex.cfg.PreemptBound {
			return cands[0]
		}
		if !isYield && ex.schedUsed >= ex.cfg.SchedBound {
			return cands[0]
		}
		if !isYield {
			ex.schedUsed++
		}
		ex.Stats.SchedPoints++
		alts := make([]int, len(cands))
		for i := range alts {
			alts[i] = i
		}
		i := ex.choose(alts, "sched")
		if i >= len(cands) {
			i = 0
		}
		if isYield && i != 0 {
			ex.preemptions++
		}
		return cands[i]
	}
	if ex.schedUsed >= ex.cfg.SchedBound {
		return cands[0]
	}
	ex.schedUsed++
	ex.Stats.SchedPoints++
	alts := make([]int, len(cands))
	for i := range alts {
		alts[i] = i
	}
	i := ex.choose(alts, "sched")
	if i >= len(cands) {
		i = 0
	}
	return cands[i]
}

// switchTo passes the baton from the current task to next and parks until resumed.
func (ex *Exec) switchTo(next *task) {
	cur := ex.cur
	if next == cur {
		return
	}
	ex.cur = next
	next.resume <- struct{}{}
	<-cur.resume
	if ex.killed {
		panic(pathAbort{"killed"})
	}
}

// block parks the current task until cond() holds.
func (ex *Exec) block(desc string, cond func() bool) {
	cur := ex.cur
	ex.Stats.DeadlockChecks++
	for !cond() {
		cur.waiting = cond
		cur.waitDesc = desc
		cands := ex.runnable(cur)
		if len(cands) == 0 {
			// nobody can run: let the environment fire a timer, else deadlock
			if ex.fireSomeTimer() {
				continue
			}
			if cur.isMain || !ex.tasks[0].done {
				ex.reportDeadlock()
			}
			cur.waiting = nil
			ex.endPath("deadlock")
		}
		ex.switchTo(ex.pick(cands))
	}
	cur.waiting = nil
}

// yield is a scheduling point at which any runnable task (including the current one) may run.
func (ex *Exec) yield() {
	cur := ex.cur
	cands := ex.runnable(nil)
	if len(cands) <= 1 {
		return
	}
	// keep current first so the default is to continue
	ordered := []*task{cur}
	for _, t := range cands {
		if t != cur {
			ordered = append(ordered, t)
		}
	}
	next := ex.pickAt(ordered, true)
	if next != cur {
		ex.switchTo(next)
	}
}

// settle runs all other tasks until none is runnable.
func (ex *Exec) settle() {
	cur := ex.cur
	for {
		cands := ex.runnable(cur)
		if len(cands) == 0 {
			return
		}
		cur.waiting = func() bool { return len(ex.runnable(cur)) == 0 }
		cur.waitDesc = "settle"
		ex.switchTo(ex.pick(cands))
		cur.waiting = nil
	}
}

// fireSomeTimer lets the environment fire one live timer (choice recorded). Returns false if none.
func (ex *Exec) fireSomeTimer() bool {
	var live []*timerObj
	for _, t := range ex.timers {
		if !t.stopped && !t.fired {
			live = append(live, t)
		}
	}
	if len(live) == 0 {
		return false
	}
	alts := make([]int, len(live))
	for i := range alts {
		alts[i] = i
	}
	i := ex.choose(alts, "timer")
	ex.fireTimer(live[i])
	return true
}

func (ex *Exec) fireTimer(t *timerObj) {
	if t.stopped || t.fired {
		return
	}
	t.fired = true
	ex.note("timer fired: %s", t.label)
	if t.ch != nil {
		t.ch.Buf = append(t.ch.Buf, ex.nowValue())
		t.ch.BufVC = append(t.ch.BufVC, nil)
	}
	if t.onFire != nil {
		t.onFire()
	}
}

func (ex *Exec) newTimer(label string) *timerObj {
	t := &timerObj{label: label}
	t.ch = &Chan{Cap: 1, Timer: t, Name: "timer:" + label}
	ex.timers = append(ex.timers, t)
	return t
}

// --- channels ---------------------------------------------------------------

func (ex *Exec) chanSend(ch *Chan, v Value) {
	if ch == nil {
		ex.block("send on nil channel", func() bool { return false })
	}
	if ch.Closed {
		ex.crash("send on closed channel")
	}
	if ch.Cap > 0 {
		ex.block("chan send (full) "+ch.Name, func() bool { return len(ch.Buf) < ch.Cap || ch.Closed })
		if ch.Closed {
			ex.crash("send on closed channel")
		}
		ch.Buf = append(ch.Buf, v)
		ch.BufVC = append(ch.BufVC, ex.releaseVC(nil))
		return
	}
	// unbuffered: enqueue and wait for a receiver to take it
	seq := ch.sent
	ch.sent++
	ch.Buf = append(ch.Buf, v)
	ch.BufVC = append(ch.BufVC, ex.releaseVC(nil))
	ex.block("chan send (unbuffered) "+ch.Name, func() bool { return ch.recvd > seq })
}

func (ex *Exec) chanRecv(ch *Chan, elemZero Value) (Value, bool) {
	if ch == nil {
		ex.block("receive on nil channel", func() bool { return false })
	}
	ch.recvWaiting++
	ex.block("chan recv "+ch.Name, func() bool { return len(ch.Buf) > 0 || ch.Closed })
	ch.recvWaiting--
	if len(ch.Buf) > 0 {
		v := ch.Buf[0]
		ch.Buf = ch.Buf[1:]
		if len(ch.BufVC) > 0 {
			ex.acquireVC(ch.BufVC[0])
			ch.BufVC = ch.BufVC[1:]
		}
		ch.recvd++
		return v, true
	}
	ex.acquireVC(ch.CloseVC)
	return elemZero, false
}

func (ex *Exec) chanClose(ch *Chan) {
	if ch == nil {
		ex.crash("close of nil channel")
	}
	if ch.Closed {
		ex.crash("close of closed channel")
	}
	ch.Closed = true
	ch.CloseVC = ex.releaseVC(ch.CloseVC)
}

func chanRecvReady(ch *Chan) bool { return ch != nil && (len(ch.Buf) > 0 || ch.Closed) }
func chanSendReady(ch *Chan) bool {
	if ch == nil {
		return false
	}
	if ch.Closed {
		return true // will panic
	}
	if ch.Cap > 0 {
		return len(ch.Buf) < ch.Cap
	}
	return ch.recvWaiting > 0
}
