package main

import (
	"bytes"
	"encoding/json"
	"fmt"
	"os"
	"os/exec"
	"path/filepath"
	"regexp"
	"sort"
	"strings"
	"sync"
	"time"
)

// nativeRewrites collects `//verif:native-rewrite <relfile> <old> => <new>` directives from harness sources.
// They are the source-level seams used only for native replay (the engine uses //verif:stub instead).
func nativeRewrites() (map[string][][2]string, error) {
	out := map[string][][2]string{}
	err := filepath.Walk(harnessDir, func(p string, info os.FileInfo, err error) error {
		if err != nil || info.IsDir() || !strings.HasSuffix(p, ".go") {
			return err
		}
		b, err := os.ReadFile(p)
		if err != nil {
			return err
		}
		for _, line := range strings.Split(string(b), "\n") {
			t := strings.TrimSpace(line)
			all := false
			if strings.HasPrefix(t, "//verif:native-rewrite-all ") {
				all = true
				t = "//verif:native-rewrite " + strings.TrimPrefix(t, "//verif:native-rewrite-all ")
			}
			if !strings.HasPrefix(t, "//verif:native-rewrite ") {
				continue
			}
			rest := strings.TrimPrefix(t, "//verif:native-rewrite ")
			sp := strings.SplitN(rest, " ", 2)
			if len(sp) != 2 {
				continue
			}
			parts := strings.SplitN(sp[1], " => ", 2)
			if len(parts) != 2 {
				continue
			}
			if all {
				parts[0] = "\x00all\x00" + parts[0]
			}
			out[sp[0]] = append(out[sp[0]], [2]string{parts[0], parts[1]})
		}
		return nil
	})
	return out, err
}

// writeNativeOverlay materialises the overlay for `go build/test -overlay` in dir and returns the json path.
func writeNativeOverlay(dir string, extra map[string][]byte) (string, error) {
	ov, _, err := buildOverlay()
	if err != nil {
		return "", err
	}
	for k, v := range extra {
		ov[k] = v
	}
	rw, err := nativeRewrites()
	if err != nil {
		return "", err
	}
	for rel, subs := range rw {
		src := filepath.Join(repoDir, rel)
		b, err := os.ReadFile(src)
		if err != nil {
			return "", fmt.Errorf("native seam: %v", err)
		}
		s := string(b)
		for _, sub := range subs {
			if strings.HasPrefix(sub[0], "\x00all\x00") {
				old := strings.TrimPrefix(sub[0], "\x00all\x00")
				if strings.Count(s, old) < 1 {
					return "", fmt.Errorf("native seam: %q does not occur in %s", old, rel)
				}
				s = strings.ReplaceAll(s, old, sub[1])
				continue
			}
			if strings.Count(s, sub[0]) != 1 {
				return "", fmt.Errorf("native seam: %q occurs %d times in %s (expected once)", sub[0], strings.Count(s, sub[0]), rel)
			}
			s = strings.Replace(s, sub[0], sub[1], 1)
		}
		ov[src] = []byte(s)
	}
	repl := map[string]string{}
	i := 0
	for dst, content := range ov {
		i++
		f := filepath.Join(dir, fmt.Sprintf("f%03d_%s", i, filepath.Base(dst)))
		if err := os.WriteFile(f, content, 0o644); err != nil {
			return "", err
		}
		repl[dst] = f
	}
	b, _ := json.MarshalIndent(map[string]interface{}{"Replace": repl}, "", " ")
	p := filepath.Join(dir, "overlay.json")
	return p, os.WriteFile(p, b, 0o644)
}

const replayTestTmpl = `package %s

import (
	"encoding/json"
	"fmt"
	"os"
	"testing"
	"time"

	zz "github.com/filecoin-project/go-data-transfer/v2/zzverif"
)

var verifHarnesses = map[string]func(){
%s}

func verifWatchdog(def int) time.Duration {
	if v := os.Getenv("VERIF_WATCHDOG"); v != "" {
		var n int
		fmt.Sscanf(v, "%%d", &n)
		if n > 0 {
			return time.Duration(n) * time.Second
		}
	}
	return time.Duration(def) * time.Second
}

func TestVerifReplay(t *testing.T) {
	done := make(chan string, 1)
	go func() {
		defer func() {
			if r := recover(); r != nil {
				switch x := r.(type) {
				case zz.Failure:
					done <- "assert: " + x.Msg
				case zz.AssumptionFailed:
					done <- "assumption-failed"
				default:
					done <- fmt.Sprintf("panic: %%v", r)
				}
			}
		}()
		zz.Reset()
		h := verifHarnesses[os.Getenv("VERIF_HARNESS")]
		if h == nil {
			done <- "no such harness"
			return
		}
		h()
		done <- "completed"
	}()
	select {
	case s := <-done:
		fmt.Println("VERIF-RESULT:", s)
	case <-time.After(verifWatchdog(%d)):
		fmt.Println("VERIF-RESULT: deadlock (no return within the watchdog)")
	}
	tb, _ := json.Marshal(zz.Trace)
	fmt.Println("VERIF-TRACE:", string(tb))
	fmt.Println("VERIF-MODEL-VALIDATED:", zz.ModelValidated)
}
`

var (
	nativeBins   = map[string]string{} // pkgRel -> test binary
	nativeBinErr = map[string]string{}
	nativeMu     sync.Mutex
	nativeDirs   []string
)

func cleanupNative() {
	for _, d := range nativeDirs {
		os.RemoveAll(d)
	}
}

// harnessNamesIn lists the Verif* harness functions defined in the overlay files of a package dir.
func harnessNamesIn(pkgRel string) []string {
	dir := filepath.Join(harnessDir, pkgRel)
	if pkgRel == "." {
		dir = filepath.Join(harnessDir, "root")
	}
	var names []string
	ents, _ := os.ReadDir(dir)
	re := regexp.MustCompile(`(?m)^func (VerifC\d\d_\w+)\(\)`)
	for _, e := range ents {
		if e.IsDir() || !strings.HasSuffix(e.Name(), ".go") {
			continue
		}
		b, _ := os.ReadFile(filepath.Join(dir, e.Name()))
		for _, m := range re.FindAllStringSubmatch(string(b), -1) {
			names = append(names, m[1])
		}
	}
	sort.Strings(names)
	return names
}

// nativeBinary builds (once per package per run) the replay test binary.
func nativeBinary(pkgRel, pkgName string) (string, error) {
	return nativeBinaryMode(pkgRel, pkgName, false)
}

// nativeBinaryMode: race=true builds the same binary with Go's race detector (-race).
func nativeBinaryMode(pkgRelIn, pkgName string, race bool) (string, error) {
	nativeMu.Lock()
	defer nativeMu.Unlock()
	pkgRel := pkgRelIn
	key := pkgRel
	if race {
		key += "#race"
	}
	if b, ok := nativeBins[key]; ok {
		return b, nil
	}
	if e, ok := nativeBinErr[key]; ok {
		return "", fmt.Errorf("%s", e)
	}
	dir, err := os.MkdirTemp("/var/tmp", "verif-replay-")
	if err != nil {
		return "", err
	}
	nativeDirs = append(nativeDirs, dir)
	var tab strings.Builder
	for _, n := range harnessNamesIn(pkgRel) {
		fmt.Fprintf(&tab, "\t%q: %s,\n", n, n)
	}
	testFile := filepath.Join(repoDir, pkgRel, "zz_verif_replay_test.go")
	extra := map[string][]byte{testFile: []byte(fmt.Sprintf(replayTestTmpl, pkgName, tab.String(), 6))}
	ovPath, err := writeNativeOverlay(dir, extra)
	if err != nil {
		nativeBinErr[key] = err.Error()
		return "", err
	}
	bin := filepath.Join(dir, "replay.test")
	args := []string{"test", "-c", "-vet=off", "-overlay", ovPath, "-o", bin}
	if race {
		args = append(args, "-race")
	}
	build := exec.Command("go", append(args, "./"+pkgRel)...)
	build.Dir = repoDir
	build.Env = append(os.Environ(), "GOFLAGS=-mod=readonly", "GOPROXY=off")
	if bo, err := build.CombinedOutput(); err != nil {
		msg := fmt.Sprintf("native build failed: %v: %s", err, string(bo))
		nativeBinErr[key] = msg
		return "", fmt.Errorf("%s", msg)
	}
	nativeBins[key] = bin
	return bin, nil
}

// runNative runs harness h natively with the given replay file; returns the VERIF-RESULT line.
func runNative(pkgRel, pkgName, harnessName, replayPath string, watchdog int) (string, string, error) {
	bin, err := nativeBinary(pkgRel, pkgName)
	if err != nil {
		return "", "", err
	}
	cmd := exec.Command(bin, "-test.run", "^TestVerifReplay$", "-test.timeout", "120s", "-test.v")
	cmd.Dir = filepath.Join(repoDir, pkgRel)
	if _, err := os.Stat(cmd.Dir); err != nil {
		cmd.Dir = repoDir
	}
	cmd.Env = append(os.Environ(), "VERIF_REPLAY="+replayPath, "VERIF_HARNESS="+harnessName)
	if watchdog > 6 {
		cmd.Env = append(cmd.Env, fmt.Sprintf("VERIF_WATCHDOG=%d", watchdog))
	}
	var out bytes.Buffer
	cmd.Stdout = &out
	cmd.Stderr = &out
	done := make(chan error, 1)
	go func() { done <- cmd.Run() }()
	select {
	case <-done:
	case <-time.After(150 * time.Second):
		cmd.Process.Kill()
		return "", out.String(), fmt.Errorf("native replay timed out")
	}
	for _, l := range strings.Split(out.String(), "\n") {
		if strings.HasPrefix(l, "VERIF-RESULT: ") {
			return strings.TrimPrefix(l, "VERIF-RESULT: "), out.String(), nil
		}
	}
	// a runtime crash outside the recover (other goroutine) still shows as panic in the output
	if strings.Contains(out.String(), "panic:") || strings.Contains(out.String(), "fatal error:") {
		for _, l := range strings.Split(out.String(), "\n") {
			if strings.HasPrefix(l, "panic:") || strings.HasPrefix(l, "fatal error:") {
				return l, out.String(), nil
			}
		}
	}
	return "", out.String(), fmt.Errorf("no VERIF-RESULT line")
}

// nativeTrace extracts the VERIF-TRACE line of a native run.
func nativeTrace(full string) []string {
	for _, l := range strings.Split(full, "\n") {
		if strings.HasPrefix(l, "VERIF-TRACE: ") {
			var t []string
			json.Unmarshal([]byte(strings.TrimPrefix(l, "VERIF-TRACE: ")), &t)
			return t
		}
	}
	return nil
}

type violationFile struct {
	Harness string `json:"harness"`
	Kind    string `json:"kind"`
	Msg     string `json:"msg"`
	Pos     string `json:"pos"`
}

func harnessPkg(h *harness) (rel, name string) {
	path := h.fn.Pkg.Pkg.Path()
	rel = strings.TrimPrefix(strings.TrimPrefix(path, repoMod), "/")
	if rel == "" {
		rel = "."
	}
	return rel, h.fn.Pkg.Pkg.Name()
}

func matchOutcome(kind, msg, outcome string) bool {
	switch kind {
	case "assert":
		return outcome == "assert: "+msg
	case "deadlock":
		return strings.HasPrefix(outcome, "deadlock")
	case "panic", "index", "div":
		return strings.HasPrefix(outcome, "panic:") || strings.HasPrefix(outcome, "fatal error:")
	}
	return false
}

var raceLocRe = regexp.MustCompile(`\(([^()\s]+\.go:\d+)\)`)

// replayNativeRace confirms a data race reported by the engine with Go's own race detector:
// the harness is compiled with -race, run with the counterexample inputs (a few times; the
// detector is happens-before based, so it flags the pair whenever both accesses execute), and
// a "WARNING: DATA RACE" report must name both source locations of the engine's report.
func replayNativeRace(h *harness, path string) (bool, string) {
	if os.Getenv("VERIF_NO_NATIVE") != "" {
		return false, "native replay disabled"
	}
	b, err := os.ReadFile(path)
	if err != nil {
		return false, err.Error()
	}
	var v violationFile
	if err := json.Unmarshal(b, &v); err != nil {
		return false, err.Error()
	}
	var locs []string
	for _, m := range raceLocRe.FindAllStringSubmatch(v.Msg, -1) {
		loc := m[1]
		// compare by "<file base dir>/<file>:line" suffix: the native build sees /repo paths
		if i := strings.LastIndex(loc, "/"); i >= 0 {
			if j := strings.LastIndex(loc[:i], "/"); j >= 0 {
				loc = loc[j+1:]
			}
		}
		locs = append(locs, loc)
	}
	if len(locs) < 2 {
		return false, "race report without two source locations"
	}
	rel, name := harnessPkg(h)
	bin, err := nativeBinaryMode(rel, name, true)
	if err != nil {
		return false, err.Error()
	}
	for attempt := 0; attempt < 8; attempt++ {
		cmd := exec.Command(bin, "-test.run", "^TestVerifReplay$", "-test.timeout", "60s", "-test.v")
		cmd.Dir = filepath.Join(repoDir, rel)
		if _, err := os.Stat(cmd.Dir); err != nil {
			cmd.Dir = repoDir
		}
		cmd.Env = append(os.Environ(), "VERIF_REPLAY="+path, "VERIF_HARNESS="+h.name, "GORACE=halt_on_error=0 history_size=3")
		var out bytes.Buffer
		cmd.Stdout, cmd.Stderr = &out, &out
		done := make(chan error, 1)
		go func() { done <- cmd.Run() }()
		select {
		case <-done:
		case <-time.After(90 * time.Second):
			cmd.Process.Kill()
		}
		for _, blk := range strings.Split(out.String(), "WARNING: DATA RACE")[1:] {
			if i := strings.Index(blk, "=================="); i >= 0 {
				blk = blk[:i]
			}
			if strings.Contains(blk, locs[0]) && strings.Contains(blk, locs[1]) {
				return true, fmt.Sprintf("native: Go race detector (-race build of the harness, attempt %d) reports DATA RACE between %s and %s", attempt+1, locs[0], locs[1])
			}
		}
	}
	return false, "Go race detector did not report the pair in 8 native runs"
}

// replayNative replays a recorded counterexample against the compiled code.
func replayNative(h *harness, path string) (bool, string) {
	if os.Getenv("VERIF_NO_NATIVE") != "" {
		return true, "native replay disabled by VERIF_NO_NATIVE"
	}
	b, err := os.ReadFile(path)
	if err != nil {
		return false, err.Error()
	}
	var v violationFile
	if err := json.Unmarshal(b, &v); err != nil {
		return false, err.Error()
	}
	rel, name := harnessPkg(h)
	outcome, full, err := runNative(rel, name, h.name, path, 6)
	if err != nil {
		tail := full
		if len(tail) > 1500 {
			tail = tail[len(tail)-1500:]
		}
		return false, err.Error() + ": " + tail
	}
	if matchOutcome(v.Kind, v.Msg, outcome) {
		return true, "native: " + outcome
	}
	return false, "native outcome: " + outcome
}

func cmdReplay(args []string) int {
	if len(args) < 1 {
		fmt.Fprintln(os.Stderr, "usage: symgo replay <file.json>")
		return 2
	}
	b, err := os.ReadFile(args[0])
	if err != nil {
		fmt.Fprintln(os.Stderr, err)
		return 2
	}
	var v violationFile
	json.Unmarshal(b, &v)
	// locate the harness package by scanning harness sources
	var rel, pkgName string
	filepath.Walk(harnessDir, func(p string, info os.FileInfo, err error) error {
		if err != nil || info.IsDir() || !strings.HasSuffix(p, ".go") {
			return nil
		}
		src, _ := os.ReadFile(p)
		if strings.Contains(string(src), "func "+v.Harness+"(") {
			r, _ := filepath.Rel(harnessDir, filepath.Dir(p))
			if r == "root" {
				r = "."
			}
			rel = r
			for _, l := range strings.Split(string(src), "\n") {
				if strings.HasPrefix(l, "package ") {
					pkgName = strings.TrimSpace(strings.TrimPrefix(l, "package "))
					break
				}
			}
		}
		return nil
	})
	if rel == "" {
		fmt.Fprintln(os.Stderr, "harness not found:", v.Harness)
		return 2
	}
	abs, _ := filepath.Abs(args[0])
	outcome, full, err := runNative(rel, pkgName, v.Harness, abs, 6)
	if err != nil {
		fmt.Println(full)
		fmt.Fprintln(os.Stderr, err)
		return 2
	}
	if os.Getenv("VERIF_DEBUG") != "" {
		fmt.Println(full)
	}
	fmt.Printf("expected: %s %q\nnative outcome: %s\n", v.Kind, v.Msg, outcome)
	if matchOutcome(v.Kind, v.Msg, outcome) {
		fmt.Println("REPRODUCED")
		return 1
	}
	fmt.Println("NOT REPRODUCED")
	return 0
}
