// symgo: solver-based checking of go-data-transfer's real code.
//
//	symgo check --property C19 --tier quick
//	symgo toy <dir>                 (engine self-test programs)
package main

import (
	"encoding/json"
	"flag"
	"fmt"
	"go/ast"
	"go/types"
	"os"
	"path/filepath"
	"regexp"
	"sort"
	"strconv"
	"strings"
	"sync"
	"time"

	"golang.org/x/tools/go/packages"
	"golang.org/x/tools/go/ssa"
	"golang.org/x/tools/go/ssa/ssautil"

	"symgo/sym"
)

const repoMod = "github.com/filecoin-project/go-data-transfer/v2"

var (
	repoDir    = envOr("VERIF_REPO", "/repo")
	verifDir   = envOr("VERIF_DIR", "/verif")
	harnessDir = filepath.Join(verifDir, "harness")
)

func envOr(k, d string) string {
	if v := os.Getenv(k); v != "" {
		return v
	}
	return d
}

func main() {
	if len(os.Args) < 2 {
		fmt.Fprintln(os.Stderr, "usage: symgo check|toy|replay ...")
		os.Exit(2)
	}
	switch os.Args[1] {
	case "check":
		rc := cmdCheck(os.Args[2:])
		cleanupNative()
		os.Exit(rc)
	case "toy":
		os.Exit(cmdToy(os.Args[2:]))
	case "replay":
		rc := cmdReplay(os.Args[2:])
		cleanupNative()
		os.Exit(rc)
	default:
		fmt.Fprintln(os.Stderr, "unknown command", os.Args[1])
		os.Exit(2)
	}
}

// buildOverlay maps harness sources into the repository tree.
func buildOverlay() (map[string][]byte, []string, error) {
	ov := map[string][]byte{}
	var pkgs []string
	seen := map[string]bool{}
	err := filepath.Walk(harnessDir, func(p string, info os.FileInfo, err error) error {
		if err != nil {
			return err
		}
		if info.IsDir() || !strings.HasSuffix(p, ".go") || strings.HasSuffix(p, "_test.go") {
			return nil
		}
		rel, _ := filepath.Rel(harnessDir, p)
		dir := filepath.Dir(rel)
		base := filepath.Base(rel)
		var dst string
		if dir == "zzverif" || strings.HasPrefix(dir, "zzverif/") {
			dst = filepath.Join(repoDir, dir, base)
		} else if dir == "root" {
			dst = filepath.Join(repoDir, "zz_verif_"+base)
			dir = "."
		} else {
			dst = filepath.Join(repoDir, dir, "zz_verif_"+base)
		}
		b, err := os.ReadFile(p)
		if err != nil {
			return err
		}
		ov[dst] = b
		if !seen[dir] {
			seen[dir] = true
			pkgs = append(pkgs, "./"+dir)
		}
		return nil
	})
	sort.Strings(pkgs)
	return ov, pkgs, err
}

// harnessRoots lists the package patterns whose harness sources define Verif<prop>_ functions.
func harnessRoots(prop string, all []string) []string {
	var roots []string
	re := regexp.MustCompile(`(?m)^func Verif` + regexp.QuoteMeta(prop) + `_`)
	for _, pat := range all {
		dir := strings.TrimPrefix(pat, "./")
		src := filepath.Join(harnessDir, dir)
		if dir == "." {
			src = filepath.Join(harnessDir, "root")
		}
		ents, _ := os.ReadDir(src)
		for _, e := range ents {
			if e.IsDir() || !strings.HasSuffix(e.Name(), ".go") {
				continue
			}
			b, _ := os.ReadFile(filepath.Join(src, e.Name()))
			if re.Match(b) {
				roots = append(roots, pat)
				break
			}
		}
	}
	if len(roots) == 0 {
		return all
	}
	return roots
}

type loaded struct {
	prog  *ssa.Program
	pkgs  []*packages.Package
	spkgs []*ssa.Package
}

func loadRepo(patterns []string, overlay map[string][]byte) (*loaded, error) {
	cfg := &packages.Config{
		Mode:    packages.LoadAllSyntax,
		Dir:     repoDir,
		Overlay: overlay,
		Env:     append(os.Environ(), "GOFLAGS=-mod=readonly", "GOPROXY=off"),
	}
	pkgs, err := packages.Load(cfg, patterns...)
	if err != nil {
		return nil, err
	}
	var errs []string
	packages.Visit(pkgs, nil, func(p *packages.Package) {
		if strings.HasPrefix(p.PkgPath, repoMod) {
			for _, e := range p.Errors {
				errs = append(errs, e.Error())
			}
		}
	})
	if len(errs) > 0 {
		return nil, fmt.Errorf("package errors:\n%s", strings.Join(errs, "\n"))
	}
	prog, spkgs := ssautil.AllPackages(pkgs, ssa.InstantiateGenerics)
	prog.Build()
	return &loaded{prog: prog, pkgs: pkgs, spkgs: spkgs}, nil
}

type harness struct {
	fn      *ssa.Function
	name    string
	prop    string
	tier    string // quick | thorough
	opts    map[string]string
	reaches []string
}

var harnessRe = regexp.MustCompile(`^Verif(C\d\d)_`)

var _ = ast.Print

func docDirectives(fn *ssa.Function) (tier string, opts map[string]string) {
	tier = "quick"
	opts = map[string]string{}
	fd, ok := fn.Syntax().(*ast.FuncDecl)
	if !ok || fd.Doc == nil {
		return
	}
	for _, c := range fd.Doc.List {
		t := strings.TrimSpace(strings.TrimPrefix(c.Text, "//"))
		if strings.HasPrefix(t, "verif:tier ") {
			tier = strings.TrimSpace(strings.TrimPrefix(t, "verif:tier "))
		}
		if strings.HasPrefix(t, "verif:opts ") {
			for _, kv := range strings.Fields(strings.TrimPrefix(t, "verif:opts ")) {
				if i := strings.Index(kv, "="); i > 0 {
					opts[kv[:i]] = kv[i+1:]
				} else {
					opts[kv] = "1"
				}
			}
		}
	}
	return
}

// stubDirectives collects `//verif:stub <callee> <harness func>` lines of a package.
func stubDirectives(p *packages.Package) [][2]string {
	var out [][2]string
	for _, f := range p.Syntax {
		for _, cg := range f.Comments {
			for _, c := range cg.List {
				t := strings.TrimSpace(strings.TrimPrefix(c.Text, "//"))
				if strings.HasPrefix(t, "verif:stub ") {
					fs := strings.Fields(strings.TrimPrefix(t, "verif:stub "))
					if len(fs) == 2 {
						out = append(out, [2]string{fs[0], fs[1]})
					}
				}
			}
		}
	}
	return out
}

// reachLabels statically collects zzverif.Reach labels reachable from fn within harness code.
func reachLabels(fn *ssa.Function, seen map[*ssa.Function]bool, out map[string]bool) {
	if fn == nil || seen[fn] || fn.Blocks == nil {
		return
	}
	seen[fn] = true
	for _, b := range fn.Blocks {
		for _, in := range b.Instrs {
			var cc *ssa.CallCommon
			switch in := in.(type) {
			case *ssa.Call:
				cc = &in.Call
			case *ssa.Go:
				cc = &in.Call
			case *ssa.Defer:
				cc = &in.Call
			case *ssa.MakeClosure:
				reachLabels(in.Fn.(*ssa.Function), seen, out)
			}
			if cc == nil {
				continue
			}
			if callee := cc.StaticCallee(); callee != nil {
				if callee.String() == sym.ZZ+".Reach" {
					if c, ok := cc.Args[0].(*ssa.Const); ok {
						out[strings.Trim(c.Value.ExactString(), `"`)] = true
					}
					continue
				}
				if isHarnessFn(callee) {
					reachLabels(callee, seen, out)
				}
			}
		}
	}
	for _, af := range fn.AnonFuncs {
		reachLabels(af, seen, out)
	}
}

func isHarnessFn(fn *ssa.Function) bool {
	if fn.Prog == nil {
		return false
	}
	pos := fn.Pos()
	if !pos.IsValid() {
		return false
	}
	f := fn.Prog.Fset.Position(pos).Filename
	return strings.Contains(filepath.Base(f), "zz_verif_")
}

func defaultPolicy(ld *loaded, stubs map[string]*ssa.Function) *sym.Policy {
	return &sym.Policy{
		Intrinsics: sym.BaseIntrinsics(),
		Stubs:      stubs,
		InterpretPkgs: []string{
			repoMod,
			"github.com/hannahhoward/go-pubsub",
			"golang.org/x/sync/errgroup",
			"github.com/filecoin-project/go-statemachine/fsm",
			"github.com/ipld/go-ipld-prime/linking/cid",
			"toy*",
		},
		InterpretFns: map[string]bool{
			"(github.com/filecoin-project/go-ds-versioning/pkg/versioned.BuilderList).Build": true,
			"(github.com/ipfs/go-cid.Cid).Defined":                                           true,
			"(github.com/ipfs/go-cid.Cid).Equals":                                            true,
			"(github.com/ipfs/go-cid.Cid).KeyString":                                         true,
			"(*errors.errorString).Error":                                                    true,
			"(*fmt.wrapError).Error":                                                         true,
			"(*fmt.wrapError).Unwrap":                                                        true,
			"(github.com/ipfs/go-graphsync.RequestID).String":                                false,
			"(github.com/ipfs/go-graphsync.RequestNotFoundErr).Error":                        true,
		},
		IgnorePkgs: []string{
			"github.com/ipfs/go-log/v2",
			"go.uber.org/zap",
			"go.opentelemetry.io/otel",
			"log",
			"github.com/ipld/go-ipld-prime/node/bindnode/registry",
		},
		Globals: map[string]func(*sym.Exec, types.Type) sym.Value{
			"github.com/whyrusleeping/cbor-gen.CborNull": func(ex *sym.Exec, t types.Type) sym.Value {
				return ex.ByteSlice([]byte{0xf6})
			},
			"github.com/ipld/go-ipld-prime.Null": func(ex *sym.Exec, t types.Type) sym.Value {
				return ex.OpaqueIface("github.com/ipld/go-ipld-prime/datamodel.Null", t)
			},
		},
		InitPkgs: []string{
			repoMod,
			"github.com/filecoin-project/go-statemachine/fsm",
			"toy*",
		},
	}
}

type harnessResult struct {
	ld         *loaded
	stubs      map[string]*ssa.Function
	h          *harness
	ex         *sym.Exec
	wall       float64
	err        string
	unreached  []string
	validated  int
	mismatches []string
	nativeViol []string // assertion failures of native-only harnesses (violations of the property)
}

func cmdCheck(args []string) int {
	fs := flag.NewFlagSet("check", flag.ExitOnError)
	prop := fs.String("property", "", "property id (Cxx)")
	tier := fs.String("tier", envOr("VERIF_TIER", "quick"), "quick|thorough")
	only := fs.String("harness", "", "run only this harness function")
	trace := fs.Bool("trace", false, "trace instructions")
	jobs := fs.Int("j", 14, "parallel harnesses")
	noEvidence := fs.Bool("no-evidence", false, "do not write the evidence file")
	nValidate := fs.Int("validate", 2, "translator validation: concrete samples per harness pushed through engine and native build")
	maxPaths := fs.Int("max-paths", 0, "path budget per harness")
	fs.Parse(args)
	if *prop == "" {
		fmt.Fprintln(os.Stderr, "--property required")
		return 2
	}
	start := time.Now()
	seed, _ := strconv.Atoi(envOr("VERIF_SEED", "0"))

	overlay, hpkgs, err := buildOverlay()
	if err != nil {
		fmt.Fprintln(os.Stderr, "overlay:", err)
		return 2
	}
	// load only the packages that hold harnesses of this property (their import closure brings in
	// the helper files of the packages they depend on): an edit of the repository that stops some
	// OTHER property's harness from type-checking does not take this check down with it
	patterns := harnessRoots(*prop, hpkgs)
	ld, err := loadRepo(patterns, overlay)
	if err != nil {
		fmt.Fprintln(os.Stderr, "load:", err)
		return 2
	}
	loadT := time.Since(start)

	// discover harnesses and stubs
	var hs []*harness
	stubsByPkg := map[string]map[string]*ssa.Function{}
	packages.Visit(ld.pkgs, nil, func(p *packages.Package) {
		if !strings.HasPrefix(p.PkgPath, repoMod) {
			return
		}
		sp := ld.prog.Package(p.Types)
		if sp == nil {
			return
		}
		for _, d := range stubDirectives(p) {
			f := sp.Func(d[1])
			if f == nil {
				fmt.Fprintf(os.Stderr, "stub directive: no function %s in %s\n", d[1], p.PkgPath)
				continue
			}
			if stubsByPkg[p.PkgPath] == nil {
				stubsByPkg[p.PkgPath] = map[string]*ssa.Function{}
			}
			stubsByPkg[p.PkgPath][d[0]] = f
		}
		for name, mem := range sp.Members {
			fn, ok := mem.(*ssa.Function)
			if !ok {
				continue
			}
			m := harnessRe.FindStringSubmatch(name)
			if m == nil {
				continue
			}
			t, opts := docDirectives(fn)
			h := &harness{fn: fn, name: name, prop: m[1], tier: t, opts: opts}
			lab := map[string]bool{}
			reachLabels(fn, map[*ssa.Function]bool{}, lab)
			for l := range lab {
				h.reaches = append(h.reaches, l)
			}
			sort.Strings(h.reaches)
			hs = append(hs, h)
		}
	})
	sort.Slice(hs, func(i, j int) bool { return hs[i].name < hs[j].name })

	var sel []*harness
	for _, h := range hs {
		if h.prop != *prop {
			continue
		}
		if *only != "" && h.name != *only {
			continue
		}
		if h.tier == "thorough" && *tier != "thorough" {
			continue
		}
		if h.tier == "quickonly" && *tier != "quick" {
			continue
		}
		sel = append(sel, h)
	}
	if len(sel) == 0 {
		fmt.Fprintf(os.Stderr, "no harness for property %s (tier %s)\n", *prop, *tier)
		return 2
	}

	results := make([]*harnessResult, len(sel))
	var wg sync.WaitGroup
	sem := make(chan struct{}, *jobs)
	for i, h := range sel {
		wg.Add(1)
		go func(i int, h *harness) {
			defer wg.Done()
			results[i] = runHarness(ld, h, stubsFor(h, stubsByPkg), *tier, *trace, *maxPaths, sem)
		}(i, h)
	}
	wg.Wait()

	if os.Getenv("VERIF_NO_NATIVE") == "" && *nValidate > 0 {
		for _, r := range results {
			if r.ex == nil || r.h.opts["novalidate"] != "" || r.h.opts["preempt"] != "" {
				continue
			}
			if r.h.opts["nativeonly"] != "" {
				validateNativeOnly(r)
				continue
			}
			validateHarness(r, *nValidate)
		}
	}

	return report(*prop, *tier, seed, results, start, loadT, !*noEvidence)
}

func optInt(h *harness, tier, key string, def int) int {
	if v, ok := h.opts[tier+"."+key]; ok {
		n, _ := strconv.Atoi(v)
		return n
	}
	if v, ok := h.opts[key]; ok {
		n, _ := strconv.Atoi(v)
		return n
	}
	return def
}

// runHarness explores one harness with a static partition of its path tree over several workers.
func runHarness(ld *loaded, h *harness, stubs map[string]*ssa.Function, tier string, trace bool, maxPaths int, sem chan struct{}) *harnessResult {
	n0 := optInt(h, tier, "part0", 4)
	n1 := optInt(h, tier, "part1", 2)
	if h.opts["nopart"] != "" || trace {
		n0, n1 = 1, 1
	}
	t0 := time.Now()
	var wg sync.WaitGroup
	parts := make([]*harnessResult, n0*n1)
	for i0 := 0; i0 < n0; i0++ {
		for i1 := 0; i1 < n1; i1++ {
			wg.Add(1)
			go func(i0, i1 int) {
				defer wg.Done()
				sem <- struct{}{}
				defer func() { <-sem }()
				parts[i0*n1+i1] = runWorker(ld, h, stubs, tier, trace, maxPaths, [2]int{i0, i1}, [2]int{n0, n1})
			}(i0, i1)
		}
	}
	wg.Wait()
	res := parts[0]
	res.ld, res.stubs = ld, stubs
	for _, p := range parts[1:] {
		if p.err != "" && res.err == "" {
			res.err = p.err
		}
		if p.ex == nil || res.ex == nil {
			continue
		}
		res.ex.Merge(p.ex)
	}
	res.wall = time.Since(t0).Seconds()
	if res.ex != nil {
		res.unreached = nil
		for _, l := range h.reaches {
			if res.ex.Stats.Reached[l] == 0 {
				res.unreached = append(res.unreached, l)
			}
		}
	}
	return res
}

func runWorker(ld *loaded, h *harness, stubs map[string]*ssa.Function, tier string, trace bool, maxPaths int, pi, pc [2]int) *harnessResult {
	res := &harnessResult{h: h}
	t0 := time.Now()
	pol := defaultPolicy(ld, stubs)
	cfg := &sym.Config{
		Prog:            ld.prog,
		Entry:           h.fn,
		InitPkgs:        []*ssa.Package{h.fn.Pkg},
		Policy:          pol,
		LoopFuel:        optInt(h, tier, "fuel", 40),
		SchedBound:      optInt(h, tier, "sched", 8),
		MaxPaths:        optInt(h, tier, "paths", maxPaths),
		Preemptive:      h.opts["preempt"] != "",
		PreemptSyncOnly: h.opts["preempt"] == "sync",
		Race:            h.opts["race"] != "",
		PreemptBound:    optInt(h, tier, "pb", 0),
		Trace:           trace,
		QueryMs:         map[string]int{"quick": 20000, "thorough": 120000}[tier],
		CrossCheck:      []string{"cvc5"},
		PartIndex:       pi,
		PartCount:       pc,
	}
	if m := harnessRe.FindStringSubmatch(h.name); m != nil {
		known, prop := loadKnown(), m[1]
		cfg.KnownClass = func(v *sym.Violation) int { return knownClass(known, prop, v) }
	}
	if tier == "thorough" {
		cfg.CrossCheck = []string{"cvc5", "z3-new"}
	}
	if v := h.opts["preemptfn"]; v != "" {
		pol.PreemptFns = map[string]bool{}
		for _, f := range strings.Split(v, ",") {
			pol.PreemptFns[f] = true
		}
	}
	ex, err := sym.NewExec(cfg)
	if err != nil {
		res.err = err.Error()
		return res
	}
	defer ex.Close()
	ex.Run()
	res.ex = ex
	res.wall = time.Since(t0).Seconds()
	for _, l := range h.reaches {
		if ex.Stats.Reached[l] == 0 {
			res.unreached = append(res.unreached, l)
		}
	}
	return res
}

type knownFinding struct {
	Property      string   `json:"property"`
	Harness       string   `json:"harness"`
	Kind          string   `json:"kind"`
	Match         string   `json:"match"`                     // substring of "pos | msg"
	MatchAll      []string `json:"match_all,omitempty"`       // further substrings that must all occur
	MatchTrace    []string `json:"match_trace,omitempty"`     // substrings that must all occur in the notes of the failing path (the history)
	MatchTraceAny []string `json:"match_trace_any,omitempty"` // at least one of these must occur in the notes of the failing path
	Status        string   `json:"status"`                    // known | fixed
	What          string   `json:"what"`
	Commit        string   `json:"commit,omitempty"`
}

// knownClass: index of the status=known finding that violation v of property prop matches, or -1.
func knownClass(known []knownFinding, prop string, v *sym.Violation) int {
	sig := v.Pos + " | " + v.Msg
	for i, k := range known {
		if k.Status != "known" || k.Property != prop || (k.Harness != "" && k.Harness != v.Harness) ||
			(k.Kind != "" && k.Kind != v.Kind) || !strings.Contains(sig, k.Match) {
			continue
		}
		all := true
		for _, m := range k.MatchAll {
			if !strings.Contains(sig, m) {
				all = false
			}
		}
		if len(k.MatchTrace) > 0 {
			tr := strings.Join(v.Trace, "\n")
			for _, m := range k.MatchTrace {
				if !strings.Contains(tr, m) {
					all = false
				}
			}
		}
		if len(k.MatchTraceAny) > 0 {
			tr := strings.Join(v.Trace, "\n")
			any := false
			for _, m := range k.MatchTraceAny {
				if strings.Contains(tr, m) {
					any = true
				}
			}
			if !any {
				all = false
			}
		}
		if all {
			return i
		}
	}
	return -1
}

func loadKnown() []knownFinding {
	var kf struct {
		Findings []knownFinding `json:"findings"`
	}
	b, err := os.ReadFile(filepath.Join(verifDir, "known_findings.json"))
	if err != nil {
		return nil
	}
	_ = json.Unmarshal(b, &kf)
	return kf.Findings
}

func report(prop, tier string, seed int, results []*harnessResult, start time.Time, loadT time.Duration, writeEvidence bool) int {
	known := loadKnown()
	exit := 0
	var violations, knownHits int
	cov := map[string]interface{}{}
	var states, transitions, obligations, discharged, traces int
	var samples []interface{}
	funcs := map[string]bool{}
	havoc := map[string]int{}
	stubsUsed := map[string]int{}
	var inconclusive []string
	solver := map[string]map[string]float64{}
	perHarness := []map[string]interface{}{}
	vacuity := map[string]int{}
	disagreements := 0
	os.MkdirAll(filepath.Join(verifDir, "replays"), 0o755)

	for _, r := range results {
		if r.err != "" {
			inconclusive = append(inconclusive, r.h.name+": "+r.err)
			continue
		}
		st := r.ex.Stats
		states += st.Paths
		transitions += int(st.Instrs)
		obligations += st.Obligations
		discharged += st.Discharged
		disagreements += st.Disagreements
		for f := range st.Funcs {
			funcs[f] = true
		}
		for k, v := range st.Havocked {
			havoc[k] += v
		}
		for k, v := range st.Stubs {
			stubsUsed[k] += v
		}
		for _, m := range st.Inconclusive {
			inconclusive = append(inconclusive, r.h.name+": "+m)
		}
		for k, v := range st.SolverQueries {
			if solver[k] == nil {
				solver[k] = map[string]float64{}
			}
			solver[k]["queries"] += float64(v)
			solver[k]["seconds"] += st.SolverTime[k]
		}
		for _, s := range st.Samples {
			if len(samples) < 8 {
				samples = append(samples, s)
			}
		}
		for l, n := range st.Reached {
			vacuity[r.h.name+":"+l] = n
		}
		traces += r.validated
		for _, m := range r.mismatches {
			inconclusive = append(inconclusive, r.h.name+": translator validation: "+m)
		}
		for i, m := range r.nativeViol {
			path := filepath.Join(verifDir, "replays", fmt.Sprintf("%s-%s-native%d.json", prop, r.h.name, i))
			b, _ := json.MarshalIndent(map[string]interface{}{"harness": r.h.name, "kind": "assert", "msg": strings.TrimPrefix(m, "assert: "), "pos": "native-only harness", "inputs": map[string]interface{}{}}, "", " ")
			os.MkdirAll(filepath.Dir(path), 0o755)
			os.WriteFile(path, b, 0o644)
			fmt.Printf("VIOLATION property=%s replay=%s\n", prop, path)
			fmt.Printf("  harness=%s kind=assert (native-only harness, run against the compiled code): %s\n", r.h.name, m)
			violations++
			exit = 1
		}
		for _, l := range r.unreached {
			inconclusive = append(inconclusive, fmt.Sprintf("%s: vacuity: witness %q never reached", r.h.name, l))
		}
		perHarness = append(perHarness, map[string]interface{}{
			"harness": r.h.name, "paths": st.Paths, "instructions": st.Instrs, "obligations": st.Obligations,
			"discharged": st.Discharged, "violations": len(r.ex.Violations), "wall_s": r.wall,
			"sched_points": st.SchedPoints, "max_decisions": st.MaxDecisions,
			"race_checked_accesses": st.RaceChecks, "happens_before_release_edges": st.SyncEdges, "blocking_ops_checked_for_deadlock": st.DeadlockChecks,
			"bounds":                 r.h.opts,
			"native_only_validation": r.h.opts["nativeonly"] != "", // true: runs only against the compiled code to validate an assumption; not solver-decided
		})
		fmt.Printf("  %-40s paths=%-6d instrs=%-9d obl=%-6d viol=%d ifconv=%d sched=%d wall=%.1fs z3=%d/%.1fs cvc5=%d/%.1fs\n", r.h.name, st.Paths, st.Instrs, st.Obligations, len(r.ex.Violations), st.IfConverted, st.SchedPoints, r.wall, st.SolverQueries["z3"], st.SolverTime["z3"], st.SolverQueries["cvc5"], st.SolverTime["cvc5"])
		if os.Getenv("VERIF_PROFILE") != "" {
			type kv struct {
				k string
				v int
			}
			var kvs []kv
			for k, v := range st.ForkSites {
				kvs = append(kvs, kv{k, v})
			}
			sort.Slice(kvs, func(i, j int) bool { return kvs[i].v > kvs[j].v })
			for i, e := range kvs {
				if i >= 14 {
					break
				}
				fmt.Printf("      forks %-6d %s\n", e.v, e.k)
			}
		}
		for i, v := range r.ex.Violations {
			if ki := knownClass(known, prop, v); ki >= 0 {
				fmt.Printf("KNOWN-FINDING: property=%s %s [%s at %s]\n", prop, known[ki].What, v.Kind, v.Pos)
				knownHits++
				continue
			}
			path := filepath.Join(verifDir, "replays", fmt.Sprintf("%s-%s-%d.json", prop, v.Harness, i))
			b, _ := json.MarshalIndent(v, "", " ")
			os.WriteFile(path, b, 0o644)
			ok, detail := replayNative(r.h, path)
			if !ok && v.Kind == "race" {
				if rok, rdetail := replayNativeRace(r.h, path); rok {
					ok, detail = true, rdetail
				}
			}
			if !ok && (r.h.opts["preempt"] != "" || r.h.opts["replay"] == "engine" || v.Kind == "race") {
				if replayEngine(r.ld, r.h, r.stubs, v) {
					ok = true
					detail = "engine: reproduced by concrete interpretation of the real code's SSA with the counterexample inputs and the recorded schedule (the native Go scheduler cannot be forced into it; " + detail + ")"
				}
			}
			if ok {
				fmt.Printf("VIOLATION property=%s replay=%s\n", prop, path)
				fmt.Printf("  harness=%s kind=%s at %s: %s\n  replay: %s\n", v.Harness, v.Kind, v.Pos, v.Msg, detail)
				violations++
				exit = 1
			} else {
				inconclusive = append(inconclusive, fmt.Sprintf("%s: counterexample did not reproduce natively (%s): %s at %s [%s]", v.Harness, detail, v.Msg, v.Pos, path))
			}
			samples = append(samples, map[string]interface{}{"counterexample": v.Inputs, "harness": v.Harness, "msg": v.Msg, "pos": v.Pos})
		}
	}
	if len(samples) == 0 {
		samples = append(samples, "no satisfiable path sample available")
	}
	var fl []string
	for f := range funcs {
		if strings.Contains(f, repoMod) && !strings.Contains(f, "zzverif") && !strings.Contains(f, "Verif") {
			fl = append(fl, strings.ReplaceAll(f, repoMod, "dt"))
		}
	}
	sort.Strings(fl)
	cov["states"] = states
	cov["transitions"] = transitions
	cov["traces_validated_against_impl"] = traces
	cov["samples"] = samples
	cov["obligations"] = obligations
	cov["discharged"] = discharged
	cov["functions_encoded"] = fl
	cov["havocked"] = havoc
	cov["stubs"] = stubsUsed
	cov["solver"] = solver
	cov["solver_disagreements"] = disagreements
	cov["vacuity_witnesses"] = vacuity
	cov["harnesses"] = perHarness
	cov["inconclusive"] = inconclusive
	cov["known_findings_hit"] = knownHits
	cov["exhaustive"] = len(inconclusive) == 0
	cov["load_s"] = loadT.Seconds()
	ev := map[string]interface{}{
		"property_id": prop,
		"tier":        tier,
		"seed":        seed,
		"level":       "model_checking",
		"coverage":    cov,
		"assumptions": assumptionsFor(prop),
		"wall_s":      time.Since(start).Seconds(),
		"violations":  violations,
	}
	if writeEvidence {
		os.MkdirAll(filepath.Join(verifDir, "evidence"), 0o755)
		b, _ := json.MarshalIndent(ev, "", " ")
		os.WriteFile(filepath.Join(verifDir, "evidence", prop+".json"), b, 0o644)
	}
	fmt.Printf("%s tier=%s harnesses=%d paths=%d instrs=%d obligations=%d discharged=%d violations=%d known=%d validated=%d wall=%.1fs\n",
		prop, tier, len(results), states, transitions, obligations, discharged, violations, knownHits, traces, time.Since(start).Seconds())
	if len(inconclusive) > 0 {
		for _, m := range inconclusive {
			fmt.Printf("INCONCLUSIVE %s\n", m)
		}
		if exit == 0 {
			exit = 3
		}
	}
	return exit
}

func assumptionsFor(prop string) []string {
	b, err := os.ReadFile(filepath.Join(verifDir, "assumptions.json"))
	if err != nil {
		return []string{"see DESIGN.md"}
	}
	var m map[string][]string
	_ = json.Unmarshal(b, &m)
	out := append([]string(nil), m["*"]...)
	out = append(out, m[prop]...)
	return out
}

func cmdToy(args []string) int {
	fmt.Println("toy: use `symgo check` with harnesses under harness/zzverif/toy")
	return 0
}

// replayEngine re-executes a counterexample concretely in the interpreter: inputs fixed to the
// model's values, scheduler/timer/select choices forced to the recorded ones.
func replayEngine(ld *loaded, h *harness, stubs map[string]*ssa.Function, v *sym.Violation) bool {
	pol := defaultPolicy(ld, stubs)
	fixed := map[string]interface{}{}
	for k, val := range v.Inputs {
		if m, ok := val.(map[string]interface{}); ok {
			if s, ok := m["str"]; ok {
				fixed[k] = s
			} else if a, ok := m["atom"]; ok {
				fixed[k] = fmt.Sprintf("@atom%v", a)
			}
			continue
		}
		fixed[k] = val
	}
	sched := v.Sched
	if sched == nil {
		sched = []int{}
	}
	cfg := &sym.Config{Prog: ld.prog, Entry: h.fn, InitPkgs: []*ssa.Package{h.fn.Pkg}, Policy: pol,
		LoopFuel: optInt(h, "quick", "fuel", 40), SchedBound: 1 << 20, Preemptive: h.opts["preempt"] != "", PreemptSyncOnly: h.opts["preempt"] == "sync",
		FixedInputs: fixed, ForcedSched: sched, MaxPaths: 64, Race: h.opts["race"] != "", PreemptBound: optInt(h, "quick", "pb", 0)}
	if pf := h.opts["preemptfn"]; pf != "" {
		pol.PreemptFns = map[string]bool{}
		for _, f := range strings.Split(pf, ",") {
			pol.PreemptFns[f] = true
		}
	}
	ex, err := sym.NewExec(cfg)
	if err != nil {
		return false
	}
	defer ex.Close()
	ex.Run()
	for _, w := range ex.Violations {
		if w.Kind == v.Kind && w.Msg == v.Msg && w.Pos == v.Pos {
			return true
		}
	}
	return false
}

// stubsFor returns the stub table of a harness: directives declared in the harness's own package
// or in any package it (transitively) imports. Stubs never leak into unrelated packages.
func stubsFor(h *harness, byPkg map[string]map[string]*ssa.Function) map[string]*ssa.Function {
	out := map[string]*ssa.Function{}
	seen := map[*types.Package]bool{}
	var order []*types.Package
	var walk func(p *types.Package)
	walk = func(p *types.Package) {
		if seen[p] {
			return
		}
		seen[p] = true
		for _, q := range p.Imports() {
			walk(q)
		}
		order = append(order, p) // dependencies first, the harness package last (it wins)
	}
	walk(h.fn.Pkg.Pkg)
	for _, p := range order {
		for k, v := range byPkg[p.Path()] {
			out[k] = v
		}
	}
	return out
}

func fixedFromInputs(in map[string]interface{}) map[string]interface{} {
	fixed := map[string]interface{}{}
	for k, val := range in {
		if m, ok := val.(map[string]interface{}); ok {
			if s, ok := m["str"]; ok {
				fixed[k] = s
			} else if a, ok := m["atom"]; ok {
				fixed[k] = fmt.Sprintf("@atom%v", a)
			}
			continue
		}
		fixed[k] = val
	}
	return fixed
}

// validateHarness pushes concrete inputs (models of explored paths) through both the engine
// (concrete interpretation of the SSA) and the natively compiled harness and compares the
// sequences of assertion outcomes and witnesses.
func validateHarness(r *harnessResult, n int) {
	samples := r.ex.Stats.Samples
	if len(samples) > n {
		// spread over the available samples
		step := len(samples) / n
		var pick []map[string]interface{}
		for i := 0; i < n; i++ {
			pick = append(pick, samples[i*step])
		}
		samples = pick
	}
	rel, name := harnessPkg(r.h)
	for i, sm := range samples {
		inputs, _ := sm["inputs"].(map[string]interface{})
		if inputs == nil {
			continue
		}
		var sched []int
		if sl, ok := sm["sched"].([]int); ok {
			sched = sl
		}
		if sched == nil {
			sched = []int{}
		}
		// engine, concrete
		pol := defaultPolicy(r.ld, r.stubs)
		cfg := &sym.Config{Prog: r.ld.prog, Entry: r.h.fn, InitPkgs: []*ssa.Package{r.h.fn.Pkg}, Policy: pol,
			LoopFuel: optInt(r.h, "quick", "fuel", 40), SchedBound: 1 << 20,
			FixedInputs: fixedFromInputs(inputs), ForcedSched: sched, MaxPaths: 1}
		ex, err := sym.NewExec(cfg)
		if err != nil {
			continue
		}
		ex.Run()
		et := ex.FirstTrace
		ex.Close()
		// native
		path := filepath.Join(verifDir, "replays", fmt.Sprintf("validate-%s-%d.json", r.h.name, i))
		os.MkdirAll(filepath.Dir(path), 0o755)
		b, _ := json.Marshal(map[string]interface{}{"harness": r.h.name, "inputs": inputs})
		os.WriteFile(path, b, 0o644)
		_, full, err := runNative(rel, name, r.h.name, path, 6)
		os.Remove(path)
		if err != nil {
			r.mismatches = append(r.mismatches, fmt.Sprintf("native run failed: %v", err))
			continue
		}
		nt := nativeTrace(full)
		if strings.Join(et, "|") == strings.Join(nt, "|") {
			if len(et) > 0 {
				r.validated++
			}
		} else {
			r.mismatches = append(r.mismatches, fmt.Sprintf("sample %d: engine trace %v != native trace %v (inputs %v)", i, et, nt, inputs))
		}
	}
}

// validateNativeOnly runs a native-only validation driver (e.g. model vs real state machine).
func validateNativeOnly(r *harnessResult) {
	rel, name := harnessPkg(r.h)
	path := filepath.Join(verifDir, "replays", fmt.Sprintf("validate-%s.json", r.h.name))
	os.MkdirAll(filepath.Dir(path), 0o755)
	os.WriteFile(path, []byte(`{"inputs":{}}`), 0o644)
	defer os.Remove(path)
	outcome, full, err := runNative(rel, name, r.h.name, path, 140)
	if err != nil {
		r.mismatches = append(r.mismatches, fmt.Sprintf("native validation driver failed to run: %v", err))
		return
	}
	if strings.HasPrefix(outcome, "assert: ") || strings.HasPrefix(outcome, "panic:") {
		// a native-only harness asserts about the real code directly: its failure is a violation
		r.nativeViol = append(r.nativeViol, outcome)
		return
	}
	if outcome != "completed" {
		r.mismatches = append(r.mismatches, "native validation driver: "+outcome)
		return
	}
	for _, l := range strings.Split(full, "\n") {
		if strings.HasPrefix(l, "VERIF-MODEL-VALIDATED: ") {
			n, _ := strconv.Atoi(strings.TrimSpace(strings.TrimPrefix(l, "VERIF-MODEL-VALIDATED: ")))
			r.validated += n
		}
	}
}
