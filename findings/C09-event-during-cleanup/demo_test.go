// dir: channels
package channels_test

import (
	"context"
	"errors"
	"sync"
	"testing"
	"time"

	"github.com/ipfs/go-datastore"
	dss "github.com/ipfs/go-datastore/sync"
	"github.com/ipfs/go-test/random"
	basicnode "github.com/ipld/go-ipld-prime/node/basic"
	"github.com/ipld/go-ipld-prime/traversal/selector/builder"
	peer "github.com/libp2p/go-libp2p/core/peer"
	"github.com/stretchr/testify/require"

	datatransfer "github.com/filecoin-project/go-data-transfer/v2"
	"github.com/filecoin-project/go-data-transfer/v2/channels"
	"github.com/filecoin-project/go-data-transfer/v2/testutil"
)

// seedC09Env is a ChannelEnvironment that records the cleanup side effects.
// The first CleanupChannel call announces itself on `entered` and then waits
// for `release`, so that the test can deliver transport events while the
// channel sits in its cleanup state (in production: the time
// transport.CleanupChannel / EndChannelSpan / ClearOptions take, during which
// graphsync keeps delivering block hooks).
type seedC09Env struct {
	self peer.ID

	lk          sync.Mutex
	cleanedUp   []datatransfer.ChannelID
	unprotected []string

	entered chan struct{}
	release chan struct{}
}

func (e *seedC09Env) Protect(id peer.ID, tag string) {}
func (e *seedC09Env) ID() peer.ID                    { return e.self }
func (e *seedC09Env) Unprotect(id peer.ID, tag string) bool {
	e.lk.Lock()
	defer e.lk.Unlock()
	e.unprotected = append(e.unprotected, id.String()+"/"+tag)
	return false
}
func (e *seedC09Env) CleanupChannel(chid datatransfer.ChannelID) {
	e.lk.Lock()
	e.cleanedUp = append(e.cleanedUp, chid)
	first := len(e.cleanedUp) == 1
	e.lk.Unlock()
	if first {
		close(e.entered)
		<-e.release
	}
}
func (e *seedC09Env) counts() (int, int) {
	e.lk.Lock()
	defer e.lk.Unlock()
	return len(e.cleanedUp), len(e.unprotected)
}

type seedC09Ending struct {
	name     string
	end      func(c *channels.Channels, chid datatransfer.ChannelID) error
	cleaning datatransfer.Status
	terminal datatransfer.Status
}

var seedC09Endings = []seedC09Ending{
	{"cancel", func(c *channels.Channels, chid datatransfer.ChannelID) error { return c.Cancel(chid) },
		datatransfer.Cancelling, datatransfer.Cancelled},
	{"error", func(c *channels.Channels, chid datatransfer.ChannelID) error {
		return c.Error(chid, errors.New("something went wrong"))
	}, datatransfer.Failing, datatransfer.Failed},
	{"complete", func(c *channels.Channels, chid datatransfer.ChannelID) error { return c.Complete(chid) },
		datatransfer.Completing, datatransfer.Completed},
}

// History (this node is the data SENDER of an ongoing transfer):
//
//	Open, Accept, TransferInitiated            -> Ongoing
//	DataQueued(1), DataSent(1)                 blocks are flowing
//	Cancel | Error | Complete                  -> Cancelling | Failing | Completing, cleanup starts
//	DataQueued(2) or DataSent(2)               a block hook graphsync had in flight arrives
//	                                           while the cleanup is still running
//	(cleanup finishes)                         -> Cancelled | Failed | Completed
//
// The ending must clean up the transport and un-protect the peer exactly once.
func TestSeedC09_BlockEventDuringCleanupDoesNotRepeatCleanup(t *testing.T) {
	type blockEvt struct {
		name string
		fire func(c *channels.Channels, chid datatransfer.ChannelID, index int64) error
	}
	blockEvts := []blockEvt{
		{"DataReceived", func(c *channels.Channels, chid datatransfer.ChannelID, index int64) error {
			return c.DataReceived(chid, random.Cids(1)[0], 100, index, true)
		}},
		{"Disconnected", func(c *channels.Channels, chid datatransfer.ChannelID, index int64) error {
			return c.Disconnected(chid, errors.New("gone"))
		}},
		{"DataSent", func(c *channels.Channels, chid datatransfer.ChannelID, index int64) error {
			return c.DataSent(chid, random.Cids(1)[0], 100, index, true)
		}},
		{"DataQueued", func(c *channels.Channels, chid datatransfer.ChannelID, index int64) error {
			return c.DataQueued(chid, random.Cids(1)[0], 100, index, true)
		}},
	}

	for _, ending := range seedC09Endings {
		for _, be := range blockEvts {
			ending, be := ending, be
			t.Run(ending.name+"/"+be.name, func(t *testing.T) {
				ctx, cancel := context.WithTimeout(context.Background(), 10*time.Second)
				defer cancel()

				peers := random.Peers(2)
				self, other := peers[0], peers[1]
				env := &seedC09Env{self: self, entered: make(chan struct{}), release: make(chan struct{})}

				// record every notification; never block the notifier
				var lk sync.Mutex
				var seen []event
				notified := make(chan struct{}, 1024)
				notifier := func(evt datatransfer.Event, chst datatransfer.ChannelState) {
					lk.Lock()
					seen = append(seen, event{evt, chst})
					lk.Unlock()
					notified <- struct{}{}
				}
				waitFor := func(code datatransfer.EventCode, status datatransfer.Status) {
					for {
						lk.Lock()
						for _, e := range seen {
							if e.event.Code == code && e.state.Status() == status {
								lk.Unlock()
								return
							}
						}
						lk.Unlock()
						select {
						case <-notified:
						case <-ctx.Done():
							t.Fatalf("never saw event %s in status %s", datatransfer.Events[code], status)
						}
					}
				}

				channelList, err := channels.New(dss.MutexWrap(datastore.NewMapDatastore()), notifier, env, self)
				require.NoError(t, err)
				require.NoError(t, channelList.Start(ctx))

				selector := builder.NewSelectorSpecBuilder(basicnode.Prototype.Any).Matcher().Node()
				// push channel opened by us: initiator = sender = self
				chid, err := channelList.CreateNew(self, datatransfer.TransferID(7), random.Cids(1)[0], selector,
					testutil.NewTestTypedVoucher(), self, self, other)
				require.NoError(t, err)
				require.NoError(t, channelList.Open(chid))
				require.NoError(t, channelList.Accept(chid))
				require.NoError(t, channelList.TransferInitiated(chid))
				waitFor(datatransfer.TransferInitiated, datatransfer.Ongoing)

				// blocks are flowing
				require.NoError(t, channelList.DataQueued(chid, random.Cids(1)[0], 100, 1, true))
				require.NoError(t, channelList.DataSent(chid, random.Cids(1)[0], 100, 1, true))
				require.NoError(t, channelList.DataReceived(chid, random.Cids(1)[0], 100, 1, true))
				waitFor(datatransfer.DataSent, datatransfer.Ongoing)

				// the channel ends; its cleanup starts and is still running ...
				require.NoError(t, ending.end(channelList, chid))
				select {
				case <-env.entered:
				case <-ctx.Done():
					t.Fatal("cleanup never started")
				}
				// ... when a block event that was already in flight is reported
				go func() { _ = be.fire(channelList, chid, 2) }()
				time.Sleep(200 * time.Millisecond)
				// the cleanup finishes
				close(env.release)

				// without further input the channel settles
				waitFor(datatransfer.CleanupComplete, ending.terminal)
				st, err := channelList.GetByID(ctx, chid)
				require.NoError(t, err)
				require.Equal(t, ending.terminal, st.Status())

				// give a wrongly scheduled second cleanup every chance to show up
				time.Sleep(100 * time.Millisecond)
				cleanups, unprotects := env.counts()
				require.Equal(t, 1, cleanups, "transport cleanup must run exactly once per ending")
				require.Equal(t, 1, unprotects, "the peer connection must be un-protected exactly once per ending")
			})
		}
	}
}
